"""Bounded domains of weighted transducers for C09 / C10 (DESIGN 2.5, family T(q, sigma, m)).  No genlm import.

Neutral form: vlib.spec.fsaspec.A with arc labels (a, b), a or b possibly EPS.
Weights: distinct reciprocals 1/(2p) of primes, so every state's outgoing mass is < 1 (all path sums converge,
products of machines included) and no two weights coincide (generic).

  rand_fst(rng, q, ins, outs, m, ...)    one random machine
  fst_corpus(ins, outs)                  hand-made shapes: each epsilon placement, eps:eps loops, cycles on either tape,
                                         several initial/final states, dead / unreachable states, parallel arcs, empty machine
  pair_corpus()                          (name, f, g) pairs aimed at the epsilon filter and at both association orders
  pair_domain(tier, seed, n_random)      corpus pairs + random pairs with |Qf| <,=,> |Qg|
  strings(alpha, n)
  selfcheck()                            row-mass < 1 for every machine produced (convergence precondition)
"""
import random
from fractions import Fraction

from .domains import PRIMES
from .spec.fsaspec import A, EPS


def _weights(k, rng=None, skip=0):
    ps = PRIMES[skip:skip + k] if rng is None else rng.sample(PRIMES, k)
    return [Fraction(1, 2 * p) for p in ps]


def mk(states, start, stop, arcs, rng=None, skip=0):
    """Machine from structure only: start/stop lists of states, arcs (i, (a, b), j); weights filled in generically."""
    ws = iter(_weights(len(start) + len(stop) + len(arcs), rng, skip))
    return A(frozenset(states), {s: next(ws) for s in start}, {s: next(ws) for s in stop},
             [(i, ab, j, next(ws)) for i, ab, j in arcs])


def rand_fst(rng, q, ins, outs, m, p_eps_in=0.3, p_eps_out=0.3, min_arcs=1):
    states = list(range(q))
    arcs = []
    for _ in range(rng.randint(min(min_arcs, m), m)):
        i, j = rng.choice(states), rng.choice(states)
        a = EPS if rng.random() < p_eps_in else rng.choice(ins)
        b = EPS if rng.random() < p_eps_out else rng.choice(outs)
        arcs.append((i, (a, b), j))
    start = rng.sample(states, rng.randint(1, min(2, q)))
    stop = rng.sample(states, rng.randint(1, min(2, q)))
    return mk(states, start, stop, arcs, rng)


def rich_fst(rng, q, ins, outs, p_arc=0.7, p_out_eps=0.3, n_in_eps=1, p_epseps=0.3):
    """Permissive random machine: from every state most input symbols can be read (so that most input strings have a
    path), plus up to n_in_eps eps-input arcs and possibly an eps:eps arc; cycles of every kind arise freely."""
    states = list(range(q))
    arcs = []
    for i in states:
        for a in ins:
            if rng.random() < p_arc:
                arcs.append((i, (a, EPS if rng.random() < p_out_eps else rng.choice(outs)), rng.choice(states)))
    for _ in range(rng.randint(0, n_in_eps)):
        arcs.append((rng.choice(states), (EPS, rng.choice(outs)), rng.choice(states)))
    if rng.random() < p_epseps:
        arcs.append((rng.choice(states), (EPS, EPS), rng.choice(states)))
    if not arcs:
        arcs.append((0, (ins[0], outs[0]), 0))
    start = rng.sample(states, rng.randint(1, min(2, q)))
    stop = rng.sample(states, rng.randint(1, min(2, q)))
    return mk(states, start, stop, arcs, rng)


def rand_wfsa(rng, q, syms, m, p_eps=0.25):
    states = list(range(q))
    arcs = []
    for _ in range(rng.randint(1, m)):
        i, j = rng.choice(states), rng.choice(states)
        arcs.append((i, EPS if (rng.random() < p_eps or not syms) else rng.choice(syms), j))   # empty alphabet: epsilon arcs only
    start = rng.sample(states, rng.randint(1, min(2, q)))
    stop = rng.sample(states, rng.randint(1, min(2, q)))
    return mk(states, start, stop, arcs, rng)


def fst_corpus(ins="ab", outs="xy"):
    a, b = ins[0], ins[-1]
    x, y = outs[0], outs[-1]
    e = EPS
    c = {}
    c["copy"] = mk([0], [0], [0], [(0, (a, x), 0), (0, (b, y), 0)])
    c["one_arc"] = mk([0, 1], [0], [1], [(0, (a, x), 1)])
    c["out_eps"] = mk([0, 1, 2], [0], [2], [(0, (a, e), 1), (1, (b, x), 2), (0, (a, y), 2)])
    c["in_eps"] = mk([0, 1, 2], [0], [2], [(0, (e, x), 1), (1, (a, y), 2), (0, (b, x), 2)])
    c["both_eps"] = mk([0, 1, 2], [0], [2], [(0, (a, e), 1), (1, (e, x), 2), (0, (e, y), 1), (1, (b, e), 2)])
    c["epseps_loop"] = mk([0, 1], [0], [1], [(0, (e, e), 0), (0, (a, x), 1), (1, (e, e), 0), (1, (b, e), 1)])
    c["epseps_only"] = mk([0, 1], [0], [1], [(0, (e, e), 1), (1, (e, e), 0)])
    c["out_eps_cycle"] = mk([0, 1], [0], [0], [(0, (a, e), 1), (1, (b, e), 0), (0, (a, x), 0)])
    c["in_eps_cycle"] = mk([0, 1], [0], [0], [(0, (e, x), 1), (1, (e, y), 0), (0, (a, x), 0)])
    c["in_eps_selfloop"] = mk([0], [0], [0], [(0, (e, x), 0), (0, (a, e), 0), (0, (b, y), 0)])
    c["two_init_final"] = mk([0, 1, 2], [0, 1], [1, 2], [(0, (a, x), 2), (1, (a, y), 2), (1, (b, e), 1), (0, (e, x), 1)])
    c["dead"] = mk([0, 1, 2, 3], [0], [1], [(0, (a, x), 1), (0, (a, y), 2), (3, (b, x), 1), (2, (e, e), 2)])
    c["parallel"] = mk([0, 1], [0], [1], [(0, (a, x), 1), (0, (a, x), 1), (0, (a, y), 1), (0, (b, x), 1)])
    c["ambiguous_eps"] = mk([0, 1, 2, 3], [0], [3], [(0, (a, e), 1), (1, (e, x), 3), (0, (e, x), 2), (2, (a, e), 3), (0, (a, x), 3)])
    c["no_final"] = mk([0, 1], [0], [], [(0, (a, x), 1)])
    c["no_arcs"] = mk([0], [0], [0], [])
    c["empty"] = A(frozenset(), {}, {}, [])
    c["delete_all"] = mk([0], [0], [0], [(0, (a, e), 0), (0, (b, e), 0)])
    c["insert_all"] = mk([0], [0], [0], [(0, (e, x), 0), (0, (e, y), 0)])
    c["chain4"] = mk([0, 1, 2, 3], [0], [3], [(0, (a, x), 1), (1, (e, y), 2), (2, (b, e), 3), (3, (e, e), 1)])
    return c


def pair_corpus():
    """Pairs (f: ab -> xy, g: xy -> uv) aimed at the epsilon filter: output-eps in f together with input-eps in g,
    eps:eps on both sides, cycles on the shared tape, and |Qf| <, =, > |Qg| (the two association orders)."""
    F = fst_corpus("ab", "xy")
    Gc = fst_corpus("xy", "uv")
    out = []
    names = [("out_eps", "in_eps"), ("both_eps", "both_eps"), ("epseps_loop", "epseps_loop"), ("out_eps_cycle", "in_eps_cycle"),
             ("ambiguous_eps", "ambiguous_eps"), ("delete_all", "insert_all"), ("insert_all", "delete_all"),
             ("in_eps_selfloop", "in_eps_selfloop"), ("two_init_final", "two_init_final"), ("dead", "chain4"),
             ("chain4", "dead"), ("copy", "both_eps"), ("both_eps", "copy"), ("chain4", "copy"), ("copy", "chain4"),
             ("epseps_only", "epseps_only"), ("no_final", "copy"), ("copy", "empty"), ("empty", "copy"), ("no_arcs", "no_arcs"),
             ("parallel", "parallel"), ("in_eps_cycle", "out_eps_cycle"), ("out_eps", "epseps_loop"), ("epseps_loop", "in_eps")]
    for n1, n2 in names:
        f = F[n1]
        g = Gc[n2]
        # decorrelate the weights of the two sides
        g = A(g.states, {q: w / 3 for q, w in g.start.items()}, {q: w / 5 for q, w in g.stop.items()},
              [(p, ab, q, w * Fraction(7, 11)) for p, ab, q, w in g.arcs])
        out.append((f"{n1}*{n2}", f, g))
    # same alphabet on all three tapes; partially overlapping shared alphabet
    same = fst_corpus("ab", "ab")
    out.append(("same_alphabet", same["both_eps"], reweight(same["chain4"], 3)))
    part = mk([0, 1], [0], [1], [(0, ("x", "u"), 1), (0, ("w", "v"), 1), (1, (EPS, "u"), 1), (1, ("y", EPS), 0)], skip=4)
    out.append(("partial_overlap", F["two_init_final"], part))
    return out


def reweight(t, skip):
    ws = iter(_weights(len(t.start) + len(t.stop) + len(t.arcs), None, skip))
    return A(t.states, {s: next(ws) for s in t.start}, {s: next(ws) for s in t.stop},
             [(i, ab, j, next(ws)) for i, ab, j, _ in t.arcs])


SIZES = [(1, 3), (2, 3), (2, 2), (3, 2), (3, 1), (3, 3), (1, 1), (2, 4), (4, 2)]


def pair_domain(tier, seed, n_random):
    rng = random.Random(seed * 7919 + 10)
    out = list(pair_corpus())
    q_max, m = (3, 5) if tier == "quick" else (4, 7)
    for i in range(n_random):
        qf, qg = SIZES[i % len(SIZES)]
        qf, qg = min(qf, q_max), min(qg, q_max)
        # bias: half of the random pairs get many output-eps in f and input-eps in g (the filter's business)
        hot = i % 2 == 0
        f = rand_fst(rng, qf, "ab", "xy", m, p_eps_in=0.25, p_eps_out=0.45 if hot else 0.2, min_arcs=2)
        g = rand_fst(rng, qg, "xy", "uv", m, p_eps_in=0.45 if hot else 0.2, p_eps_out=0.25, min_arcs=2)
        out.append((f"rand{seed}_{i}", f, g))
    return out


def single_domain(tier, seed, n_random):
    rng = random.Random(seed * 7919 + 11)
    out = list(fst_corpus().items())
    q_max, m = (3, 5) if tier == "quick" else (4, 7)
    for i in range(n_random):
        out.append((f"rand{seed}_{i}", rand_fst(rng, rng.randint(1, q_max), "ab", "xy", m, min_arcs=2)))
    return out


def strings(alpha, n):
    alpha = sorted(alpha, key=repr)
    out = [()]
    fr = [()]
    for _ in range(n):
        fr = [s + (a,) for s in fr for a in alpha]
        out.extend(fr)
    return out


def mass_ok(t):
    """Every state's outgoing mass (arcs + stop) and the start mass are < 1: all path sums converge."""
    out = {}
    for p, _, _, w in t.arcs:
        out[p] = out.get(p, 0) + w
    return all(v < 1 for v in out.values()) and sum(t.start.values(), Fraction(0)) < 1


def selfcheck():
    n = 0
    for tier in ("quick", "thorough"):
        for _, f, g in pair_domain(tier, 0, 200):
            assert mass_ok(f) and mass_ok(g)
            n += 2
        for _, f in single_domain(tier, 0, 200):
            assert mass_ok(f)
            n += 1
    rng = random.Random(3)
    for _ in range(300):
        t = rich_fst(rng, rng.randint(1, 4), "abc", "xy", n_in_eps=2)
        assert mass_ok(t)
        assert mass_ok(rand_wfsa(rng, rng.randint(1, 4), "ab", 6))
        n += 2
    ws = _weights(len(PRIMES))
    assert len(set(ws)) == len(ws) and sum(ws) < 1
    return n


if __name__ == "__main__":
    print("dom_fst.selfcheck:", selfcheck())

"""Contract-equivalent replacement for arsenal's compiled LocatorMaxHeap (assumption A7):
`Q[k] = p` inserts/updates, `pop()` returns (k, p) of maximal priority, `bool(Q)`/`len(Q)`.
Ties between equal priorities are broken by a chosen policy - the contract leaves them open, so a
property that must hold "however ties are broken" must hold under every policy here.
"""
import random


def make(policy, seed=0):
    rng = random.Random(seed)

    class AdvHeap:
        def __init__(self):
            self.d = {}
            self.t = 0
            self.when = {}

        def __setitem__(self, k, p):
            if k not in self.d:
                self.t += 1
                self.when[k] = self.t
            self.d[k] = float(p)

        def __len__(self):
            return len(self.d)

        def __bool__(self):
            return bool(self.d)

        def pop(self):
            m = max(self.d.values())
            ties = [k for k, p in self.d.items() if p == m]
            if policy == "fifo":
                k = min(ties, key=self.when.get)
            elif policy == "lifo":
                k = max(ties, key=self.when.get)
            else:
                k = rng.choice(sorted(ties, key=self.when.get))
            p = self.d.pop(k)
            return (k, p)

    return AdvHeap

"""Bounded input domains of the conversion properties C17 (automaton -> grammar, byte level), C18 (regex automata) and
C19 (Lark -> character/byte grammars).  No genlm import; neutral forms only (vlib.spec G / A, strs, Fractions).

C17  automata_corpus(), random_byte_automaton(), ctor_specs(), grammar_relabelings(), merge_groups()
C18  a small regex AST (Lit, Cls, Esc, Dot, Cat, Alt, Rep, CI, Raw) with render() -> pattern text / pattern text for Python re,
     pattern_corpus(), random_pattern(), CHARSETS, selfcheck of the dialect alignment
C19  lark_corpus(), random_lark_grammar()
"""
import random
import re
from fractions import Fraction

from . import domains
from .spec.cfgspec import G
from .spec.fsaspec import A, EPS
from .spec.convspec import strings_over

F = Fraction

# characters by UTF-8 width; groups share byte prefixes:  é ü ß = C3 xx ;  € → ‚ = E2 xx xx ;  😀 😁 = F0 9F 98 xx
W1 = ["a", "b", "c"]
W2 = ["é", "ü", "ß", "Ω"]           # C3 A9, C3 BC, C3 9F, CE A9
W3 = ["€", "→", "‚", "한"]           # E2 82 AC, E2 86 92, E2 80 9A, ED 95 9C
W4 = ["😀", "😁", "𝄞"]              # F0 9F 98 80, F0 9F 98 81, F0 9D 84 9E


def _ws(n, scale=2):
    return domains.generic_weights(n, scale)


# ================================================================================================= C17 automata
def automata_corpus():
    c = {}
    w = _ws(24)
    c["mix1234_loop"] = A(frozenset(["p"]), {"p": F(1)}, {"p": w[0]},
                          [("p", "a", "p", w[1]), ("p", "é", "p", w[2]), ("p", "€", "p", w[3]), ("p", "😀", "p", w[4])])
    c["fanout_shared_prefix2"] = A(frozenset("pqrs"), {"p": F(1)}, {"q": w[0], "r": w[1], "s": w[2]},
                                   [("p", "é", "q", w[3]), ("p", "ü", "r", w[4]), ("p", "ß", "s", w[5]),
                                    ("q", "a", "p", w[6]), ("r", "ü", "r", w[7])])
    c["fanout_shared_prefix34"] = A(frozenset("pqrst"), {"p": w[0]}, {"q": w[1], "r": w[2], "t": F(1)},
                                    [("p", "€", "q", w[3]), ("p", "→", "r", w[4]), ("p", "‚", "r", w[5]),
                                     ("q", "😀", "t", w[6]), ("q", "😁", "p", w[7]), ("r", "𝄞", "t", w[8])])
    c["eps_between_multibyte"] = A(frozenset("pqrs"), {"p": F(1)}, {"s": w[0]},
                                   [("p", "é", "q", w[1]), ("q", EPS, "r", w[2]), ("r", "€", "s", w[3]),
                                    ("s", EPS, "p", w[4]), ("p", EPS, "r", w[5])])
    c["eps_cycle_multibyte"] = A(frozenset("pq"), {"p": w[0]}, {"q": w[1]},
                                 [("p", EPS, "q", w[2]), ("q", EPS, "p", w[3]), ("q", "😀", "q", w[4]), ("p", "ü", "q", w[5])])
    c["nondet_same_label"] = A(frozenset("pqr"), {"p": F(1)}, {"q": w[0], "r": w[1]},
                               [("p", "é", "q", w[2]), ("p", "é", "r", w[3]), ("q", "é", "r", w[4]), ("r", "a", "r", w[5])])
    c["parallel_arcs"] = A(frozenset("pq"), {"p": F(1)}, {"q": F(1)},
                           [("p", "€", "q", w[0]), ("p", "€", "q", w[1]), ("p", "a", "q", w[2])])
    c["two_init_two_final"] = A(frozenset("pqr"), {"p": w[0], "q": w[1]}, {"r": w[2], "q": w[3]},
                                [("p", "a", "r", w[4]), ("q", "ü", "r", w[5]), ("q", "→", "q", w[6])])
    # continuation-byte values that recur under different prefixes (a chain state must depend on the whole prefix, not on the byte):
    # EURO = E2 82 AC and KATAKANA A = E3 82 A2 leave the same state; ORANGE CIRCLE = F0 9F 9F A0 repeats its 2nd byte
    # (added after the independently seeded change C17-1)
    c["cont_byte_recurs"] = A(frozenset("pqr"), {"p": F(1)}, {"q": w[0], "r": w[1]}, [("p", "€", "q", w[2]), ("p", "ア", "r", w[3])])
    c["repeated_cont_byte4"] = A(frozenset("pq"), {"p": F(1)}, {"q": w[0]}, [("p", "🟠", "q", w[1]), ("q", "a", "p", w[2])])
    # the same lead byte on arcs leaving DIFFERENT states (a chain state must also depend on the source state): é = C3 A9, è = C3 A8
    c["same_lead_other_state"] = A(frozenset("pqr"), {"p": F(1)}, {"r": w[0]}, [("p", "é", "q", w[1]), ("q", "è", "r", w[2])])
    c["only_ascii"] = A(frozenset("pq"), {"p": F(1)}, {"q": w[0]}, [("p", "a", "q", w[1]), ("q", "b", "p", w[2])])
    c["only_4byte"] = A(frozenset("pq"), {"p": F(1)}, {"q": w[0]}, [("p", "😀", "q", w[1]), ("q", "😁", "p", w[2])])
    c["empty_lang"] = A(frozenset("pq"), {"p": F(1)}, {}, [("p", "é", "q", w[0])])
    c["eps_only"] = A(frozenset("pq"), {"p": F(1)}, {"q": w[0]}, [("p", EPS, "q", w[1]), ("q", EPS, "q", w[2])])
    c["no_states"] = A(frozenset(), {}, {}, [])
    c["init_final"] = A(frozenset("p"), {"p": w[0]}, {"p": w[1]}, [])
    c["dead_branch"] = A(frozenset("pqrs"), {"p": F(1)}, {"q": F(1)},
                         [("p", "é", "q", w[0]), ("p", "ü", "r", w[1]), ("s", "€", "q", w[2])])
    # state names coincide with alphabet symbols (what from_string produces), hand-made
    c["states_are_symbols"] = A(frozenset(["a", "é", "x"]), {"x": F(1)}, {"é": w[0]},
                                [("x", "a", "a", w[1]), ("a", "é", "é", w[2]), ("é", "a", "a", w[3])])
    # a state literally named '' - the name from_string gives its initial state, and the spelling of EPSILON - with arcs leading back
    # into it (seeded change C17-8)
    c["state_named_empty_string"] = A(frozenset(["", "a", "aé"]), {"": w[0]}, {"aé": w[1]},
                                      [("", "a", "a", w[2]), ("a", "é", "aé", w[3]), ("aé", EPS, "", w[4]), ("a", "€", "", w[5])])
    # U+0000 encodes to the single byte 0 - a falsy label that is not epsilon (seeded change C17-9)
    c["nul_character"] = A(frozenset("pqr"), {"p": F(1)}, {"r": w[0]}, [("p", "a", "q", w[1]), ("q", "\x00", "r", w[2]), ("r", EPS, "p", w[3]), ("p", "\x00", "r", w[4])])
    # the last byte value also occurs at an earlier continuation position: U+4E38 = e4 b8 b8, U+3041 = e3 81 81, U+1F618 = f0 9f 98 98
    # (the arc weight belongs on the LAST arc of the chain only; seeded change C17-10)
    c["last_byte_recurs"] = A(frozenset("pqr"), {"p": F(1)}, {"r": w[0]}, [("p", "\u4e38", "q", w[1]), ("q", "\u3041", "r", w[2]), ("p", "\U0001f618", "r", w[3]), ("r", "a", "p", w[4])])
    c["one_state_is_symbol"] = A(frozenset(["p", "b"]), {"p": F(1)}, {"b": w[0]}, [("p", "a", "b", w[1]), ("b", "b", "p", w[2])])
    # integer state names that coincide with UTF-8 byte values of the labels (only visible after to_bytes)
    c["int_states_eq_bytes"] = A(frozenset([97, 195, 169]), {97: F(1)}, {169: w[0]},
                                 [(97, "a", 195, w[1]), (195, "é", 169, w[2]), (169, "a", 97, w[3])])
    c["int_states_small"] = A(frozenset([0, 1, 2]), {0: F(1)}, {2: w[0]}, [(0, "é", 1, w[1]), (1, "€", 2, w[2]), (2, EPS, 0, w[3])])
    c["tuple_states"] = A(frozenset([("s", 0), ("s", 1)]), {("s", 0): F(1)}, {("s", 1): w[0]},
                          [(("s", 0), "ü", ("s", 1), w[1]), (("s", 1), "😀", ("s", 0), w[2])])
    return c


def ctor_specs():
    """Automata built by the library's own constructors (state names are prefixes of the string)."""
    return [
        ("from_string:ab", ("from_string", "ab", None)),
        ("from_string:a", ("from_string", "a", None)),
        ("from_string:empty", ("from_string", "", None)),
        ("from_string:aa", ("from_string", "aa", None)),
        ("from_string:aba", ("from_string", "aba", F(1, 3))),
        ("from_string:a-é-€", ("from_string", "aé€", F(1, 2))),
        ("from_string:😀a", ("from_string", "😀a", None)),
        ("from_string:tuple", ("from_string", ("a", "é"), None)),
        ("from_strings:ab,ac,b", ("from_strings", ["ab", "ac", "b"], None)),
        ("from_strings:é,éü,a😀", ("from_strings", ["é", "éü", "a😀"], None)),
        ("from_strings:a,aa,aaa", ("from_strings", ["a", "aa", "aaa"], None)),
        ("from_strings:empty,a", ("from_strings", ["", "a"], None)),
        ("from_strings:tuples", ("from_strings", [("a", "b"), ("a",), ("€",)], None)),
    ]


LABELINGS = [["a", "é"], ["é", "ü"], ["a", "€"], ["€", "→"], ["😀", "a"], ["😀", "😁"], ["é", "€"], ["ß", "😀"], ["a", "b"],
             ["Ω", "한"], ["‚", "€"], ["𝄞", "😀"]]


def random_byte_automaton(rng, q=3, m=5, names="str"):
    """random_wfsa with the two symbols relabelled by characters of mixed UTF-8 width.
    names: 'str' -> 'q0','q1',..   'int' -> 0,1,..   'sym' -> the states are named like alphabet symbols"""
    lab = rng.choice(LABELINGS)
    a = domains.random_wfsa(rng, q, 2, m)
    mp = {"a": lab[0], "b": lab[1], EPS: EPS}
    if names == "str":
        f = {i: f"q{i}" for i in a.states}
    elif names == "int":
        f = {i: i for i in a.states}
    else:
        pool = [lab[0], lab[1], "z", "y"]
        f = {i: pool[i] for i in a.states}
    return A(frozenset(f[i] for i in a.states), {f[i]: w for i, w in a.start.items()}, {f[i]: w for i, w in a.stop.items()},
             [(f[i], mp[s], f[j], w) for i, s, j, w in a.arcs])


def rename_states(a, f):
    return A(frozenset(f(i) for i in a.states), {f(i): w for i, w in a.start.items()}, {f(i): w for i, w in a.stop.items()},
             [(f(i), s, f(j), w) for i, s, j, w in a.arcs])


def merge_groups(rng, n_random):
    """Groups of automata with pairwise disjoint state names, to be converted separately and merged into one grammar."""
    c = automata_corpus()
    w = _ws(12)
    one = lambda ch, tag: A(frozenset([(tag, 0), (tag, 1)]), {(tag, 0): F(1)}, {(tag, 1): F(1)}, [((tag, 0), ch, (tag, 1), F(1))])  # noqa: E731
    out = [
        ("lit_é+lit_ü", [one("é", "A"), one("ü", "B")]),
        ("lit_é+lit_a", [one("é", "A"), one("a", "B")]),
        ("lit_a+lit_b", [one("a", "A"), one("b", "B")]),
        ("lit_€+lit_😀", [one("€", "A"), one("😀", "B")]),
        ("lit_é+lit_é", [one("é", "A"), one("é", "B")]),
        ("three_literals", [one("é", "A"), one("€", "B"), one("😁", "C")]),
    ]
    names = ["fanout_shared_prefix2", "fanout_shared_prefix34", "eps_between_multibyte", "mix1234_loop", "only_ascii", "nondet_same_label"]
    for i in range(len(names) - 1):
        out.append((f"{names[i]}+{names[i + 1]}", [rename_states(c[names[i]], lambda s: ("A", s)),
                                                   rename_states(c[names[i + 1]], lambda s: ("B", s))]))
    for k in range(n_random):
        parts = []
        for tag in "AB" if rng.random() < 0.7 else "ABC":
            parts.append(rename_states(random_byte_automaton(rng, 3, 4), lambda s, tag=tag: (tag, s)))
        out.append((f"randmerge{k}", parts))
    del w
    return out


# ------------------------------------------------------------------------------------------------- byte-string probe sets
BLIND_CAP = 1400        # size of the blind enumeration (all byte strings over occurring bytes + foreign bytes)


def foreign_bytes(occ):
    out = []
    for cand in (0x80, 0xBF, 0x9F):            # a continuation byte that does not occur
        if cand not in occ:
            out.append(cand)
            break
    for cand in (0x7A, 0x79, 0x78):            # an ASCII byte that does not occur
        if cand not in occ:
            out.append(cand)
            break
    return out


def byte_domain(want_support, got_support, maxbytes, extra_bytes=()):
    """Explicit probe set: both supports, every truncation / one-byte corruption of an expected string, and the blind
    enumeration of all byte strings (as long as it stays under BLIND_CAP) over the occurring bytes plus two foreign bytes."""
    occ = sorted({b for x in want_support for b in x} | {b for x in got_support for b in x if isinstance(b, int)} | set(extra_bytes))
    alpha = occ + foreign_bytes(set(occ))
    P = set(want_support) | set(got_support)
    for x in list(want_support):
        for k in range(len(x)):
            P.add(x[:k])                                   # truncated
            P.add(x[:k] + x[k + 1:])                       # one byte dropped
            for f in alpha[-2:]:
                P.add(x[:k] + (f,) + x[k + 1:])            # one byte replaced by a foreign byte
                if len(x) < maxbytes:
                    P.add(x[:k] + (f,) + x[k:])            # foreign byte inserted
    blind_len = 0
    total = 1
    while blind_len < maxbytes and total + len(alpha) ** (blind_len + 1) <= BLIND_CAP:
        blind_len += 1
        total += len(alpha) ** blind_len
    P |= set(strings_over(alpha, blind_len))
    return sorted((x for x in P if len(x) <= maxbytes), key=lambda x: (len(x), repr(x))), alpha, blind_len


# ================================================================================================= C17 grammars
TERMINAL_MAPS = [
    {"a": "a", "b": "é", "c": "€"},
    {"a": "é", "b": "ü", "c": "ß"},
    {"a": "ab", "b": "a", "c": "b"},          # ambiguous segmentation: 'ab' = 'a' 'b'
    {"a": "€", "b": "→", "c": "a"},
    {"a": "😀", "b": "a", "c": "😁"},
    {"a": "aé", "b": "é", "c": "a"},          # multi-character terminal sharing an encoding with a pair of terminals
    {"a": "é€", "b": "😀", "c": "é"},
    {"a": "a", "b": "b", "c": "c"},
]


def relabel_grammar(g, mp):
    return G(g.S, frozenset(mp[t] for t in g.V), [(w, h, tuple(mp.get(y, y) if y in g.V else y for y in b)) for w, h, b in g.rules])


# ================================================================================================= C18 regex AST
class Node:
    pass


class Lit(Node):
    def __init__(self, ch):
        self.ch = ch


class Cls(Node):
    """Bracket class; items are characters, (lo, hi) ranges or escape letters such as 'd', 'w', 's', 'D'."""

    def __init__(self, items, neg=False):
        self.items, self.neg = items, neg


class Esc(Node):
    def __init__(self, letter):
        self.letter = letter


class Dot(Node):
    pass


class Cat(Node):
    def __init__(self, *parts):
        self.parts = parts


class Alt(Node):
    def __init__(self, *opts):
        self.opts = opts


class Rep(Node):
    def __init__(self, base, lo, hi, style=None):
        self.base, self.lo, self.hi, self.style = base, lo, hi, style


class Raw(Node):
    """Verbatim pattern text (same text for interegular and for `re`); used for lookaheads."""

    def __init__(self, text):
        self.text = text


class CI(Node):
    """(?i:...)"""

    def __init__(self, inner):
        self.inner = inner


_SPECIAL = set("\\.^$*+?{}[]()|")
_CLASS_SPECIAL = set("\\]^-[")


def _lit(ch):
    if ch == "\n":
        return "\\n"
    if ch == "\t":
        return "\\t"
    return "\\" + ch if ch in _SPECIAL else ch


def _clit(ch):
    if ch == "\n":
        return "\\n"
    if ch == "\t":
        return "\\t"
    return "\\" + ch if ch in _CLASS_SPECIAL else ch


_ESC_SETS = {"d": "0123456789", "w": "abcdefghijklmnopqrstuvwxyzABCDEFGHIJKLMNOPQRSTUVWXYZ0123456789_", "s": " \t\n\r\f\v"}


def _listing(chars):
    out = ""
    for ch in sorted(set(chars)):
        out += {"\n": "\\n", "\t": "\\t", "\r": "\\r", "\f": "\\f", "\v": "\\v"}.get(ch, _clit(ch))
    return out


def render(n, for_re=False):
    """Pattern text.  for_re=True gives the text handed to Python's `re`: identical except that the class escapes
    \\w \\d \\s \\W \\D \\S are written out as the explicit ASCII classes interegular defines them to be (Python's own
    \\w \\d \\s are Unicode-aware; re.ASCII cannot be used because it would also switch case-insensitive matching to ASCII).
    A bracket class containing a *negated* escape is written as an alternation / lookahead of explicit classes."""
    if isinstance(n, Lit):
        return _lit(n.ch)
    if isinstance(n, Raw):
        return n.text
    if isinstance(n, Dot):
        return "."
    if isinstance(n, Esc):
        if not (for_re and n.letter in "wWdDsS"):
            return "\\" + n.letter
        return "[" + ("^" if n.letter.isupper() else "") + _listing(_ESC_SETS[n.letter.lower()]) + "]"
    if isinstance(n, Cls):
        body = ""
        negs = []
        for it in n.items:
            if isinstance(it, tuple):
                body += _clit(it[0]) + "-" + _clit(it[1])
            elif len(it) == 2 and it[0] == "\\":
                if not for_re or it[1] not in "wWdDsS":
                    body += it
                elif it[1].islower():
                    body += _listing(_ESC_SETS[it[1]])
                else:
                    negs.append(set(_ESC_SETS[it[1].lower()]))
            else:
                body += _clit(it)
        if not negs:
            return "[" + ("^" if n.neg else "") + body + "]"
        inter = set.intersection(*negs)                     # union of complements = complement of the intersection
        if not n.neg:
            alts = (["[" + body + "]"] if body else []) + ["[^" + _listing(s_) + "]" for s_ in negs]
            return "(?:" + "|".join(alts) + ")"
        core = "[" + _listing(inter) + "]" if inter else "[^\\s\\S]"
        return "(?:" + ("(?![" + body + "])" if body else "") + core + ")"
    if isinstance(n, Cat):
        return "".join(_atomise(p, for_re) if isinstance(p, Alt) else render(p, for_re) for p in n.parts)
    if isinstance(n, Alt):
        return "|".join(render(o, for_re) for o in n.opts)
    if isinstance(n, CI):
        return "(?i:" + render(n.inner, for_re) + ")"
    if isinstance(n, Rep):
        b = _atomise(n.base, for_re)
        lo, hi = n.lo, n.hi
        if n.style == "sym" or n.style is None:
            if (lo, hi) == (0, None):
                return b + "*"
            if (lo, hi) == (1, None):
                return b + "+"
            if (lo, hi) == (0, 1):
                return b + "?"
        if hi is None:
            return b + "{%d,}" % lo
        if lo == hi:
            return b + "{%d}" % lo
        return b + "{%d,%d}" % (lo, hi)
    raise TypeError(n)


def _atomise(n, for_re):
    t = render(n, for_re)
    if isinstance(n, (Lit, Dot, Esc, Cls, CI)):
        return t
    return "(" + t + ")" if isinstance(n, (Alt, Cat)) and len(t) % 2 else "(?:" + t + ")"


def literals(n, ci=False):
    """(character, inside-case-insensitive-group) pairs of all literal characters of the pattern."""
    if isinstance(n, Lit):
        return [(n.ch, ci)]
    if isinstance(n, Cls):
        out = []
        for it in n.items:
            if isinstance(it, tuple):
                out += [(chr(c), ci) for c in range(ord(it[0]), ord(it[1]) + 1)]
            elif not (len(it) == 2 and it[0] == "\\"):
                out.append((it, ci))
        return out
    if isinstance(n, (Cat, Alt)):
        return [x for p in (n.parts if isinstance(n, Cat) else n.opts) for x in literals(p, ci)]
    if isinstance(n, Rep):
        return literals(n.base, ci)
    if isinstance(n, CI):
        return literals(n.inner, True)
    return []


def multichar_case(ch):
    """Does the character have a multi-character upper/lower mapping (ß -> SS, ŉ -> ʼN, ǰ -> J̌, ﬁ -> FI)?"""
    return len(ch.upper()) != 1 or len(ch.lower()) != 1


# character sets: name -> characters.  All are closed under the dialect alignment checked in selfcheck():
# for p, c in the set, Python's (?i:p) matches c  iff  c in {p.lower(), p.upper()}  (what interegular implements).
CHARSETS = {
    "ab": "ab",
    "abc1": "abc1 \n",
    "mixed_case": "aAbB1_ .",
    "punct": "a-]^\\.*",
    "ws": "ab\n\t -",
    "latin1": "aéÉßsSüÜ",
    "multimap": "ßŉǰﬁsSnNjJfFiI",
    "wide": "aé€😀A",
    "digits": "09aZ_ ",
}
QUICK_LEN = {"ab": 5, "abc1": 4, "mixed_case": 4, "punct": 4, "ws": 4, "latin1": 4, "multimap": 3, "wide": 4, "digits": 4, "core": 2}
THOROUGH_LEN = {"ab": 8, "abc1": 5, "mixed_case": 5, "punct": 5, "ws": 5, "latin1": 5, "multimap": 4, "wide": 6, "digits": 5, "core": 2}


def pattern_corpus():
    """Hand-written patterns (AST) over the supported operators; each is paired with every character set."""
    L, C, E, R = Lit, Cls, Esc, Rep
    c = {}
    c["empty"] = Cat()
    c["lit"] = Lit("a")
    c["cat"] = Cat(L("a"), L("b"))
    c["alt"] = Alt(L("a"), L("b"), Cat(L("a"), L("b")))
    c["alt_empty"] = Alt(L("a"), Cat(), L("b"))
    c["star"] = R(L("a"), 0, None)
    c["plus_alt"] = R(Alt(L("a"), L("b")), 1, None)
    c["opt"] = Cat(R(L("a"), 0, 1), L("b"))
    c["bounded"] = R(L("a"), 1, 3)
    c["bounded_exact"] = R(Alt(L("a"), L("b")), 2, 2)
    c["bounded_open"] = R(L("b"), 2, None)
    c["bounded_from0"] = Cat(R(C(["a", "b"]), 0, 2), L("1"))
    c["cls"] = C(["a", "b", "1"])
    c["cls_range"] = C([("a", "c"), ("0", "9")])
    c["neg_cls"] = C(["a"], neg=True)
    c["neg_cls_range_star"] = R(C([("a", "b")], neg=True), 0, None)
    c["neg_cls_then_lit"] = Cat(C(["a"], neg=True), L("b"))
    c["neg_or_pos"] = Alt(C(["a"], neg=True), L("a"))
    c["two_neg"] = Cat(C(["a"], neg=True), C(["b", " "], neg=True))
    c["neg_whole_charset"] = Cat(L("a"), C(["a", "b"], neg=True))          # over {a,b}: the state after 'a' has no continuation
    # the same dead continuation inside a NON-empty language (the reachable state after 'a' must not keep mass 0 / receive weight)
    c["neg_whole_charset_branch"] = Alt(Cat(L("a"), C(["a", "b"], neg=True)), L("b"))
    c["neg_whole_charset_loop"] = Cat(R(Cat(L("b"), C(["a", "b"], neg=True)), 0, None), L("a"))
    c["neg_whole_charset_opt"] = Cat(L("a"), R(Cat(L("b"), C([("a", "b")], neg=True)), 0, 1))
    c["dot"] = Dot()
    c["dot_star_a"] = Cat(R(Dot(), 0, None), L("a"))
    c["dot_or_nl"] = R(Alt(Dot(), L("\n")), 0, None)
    c["esc_d"] = R(E("d"), 1, None)
    c["esc_w_s"] = Cat(E("w"), R(E("s"), 0, None), E("w"))
    c["esc_D"] = E("D")
    c["esc_W_or_d"] = Alt(E("W"), E("d"))
    c["esc_S_plus"] = R(E("S"), 1, 2)
    c["cls_with_esc"] = C(["\\d", "_", "a"])
    c["neg_cls_with_esc"] = C(["\\s", "a"], neg=True)
    c["cls_with_negesc"] = C(["\\D", "1"])
    c["esc_punct"] = Cat(L("."), L("*"), R(L("\\"), 0, 1))
    c["cls_punct"] = R(C(["-", "]", "^", "\\", "."]), 0, 2)
    c["esc_nl_tab"] = Alt(L("\n"), L("\t"), L(" "))
    c["ci_ascii"] = CI(Cat(L("a"), L("b")))
    c["ci_cls"] = CI(C(["a", "1"]))
    c["ci_neg_cls"] = CI(C(["a"], neg=True))
    c["ci_range"] = R(CI(C([("a", "b")])), 1, None)
    c["ci_then_cs"] = Cat(CI(L("a")), L("a"))
    c["ci_latin1"] = CI(L("é"))
    c["ci_latin1_cls_neg"] = CI(C(["ü", "s"], neg=True))
    c["ci_sharp_s_or_a"] = Alt(CI(L("ß")), L("a"))          # DESIGN observation 10
    c["ci_sharp_s_star"] = R(CI(L("ß")), 0, None)
    c["ci_multimap_cls"] = CI(C(["ŉ", "ǰ", "n"]))
    c["ci_ligature_seq"] = Cat(CI(L("ﬁ")), R(L("f"), 0, 1))
    c["ci_neg_sharp_s"] = CI(C(["ß"], neg=True))
    c["wide_cls"] = R(C(["é", "€", "😀"]), 1, 2)
    c["wide_neg"] = C(["😀"], neg=True)
    c["nested"] = R(Cat(L("a"), R(Alt(L("b"), Cat(L("a"), L("a"))), 0, None)), 0, 2)
    # patterns whose FSM has transitions into dead (rejection) states - the skip in both loops of interegular_to_wfsa:
    # an empty class inside a concatenation, and lookaheads (beyond the listed operators, but compiled by interegular)
    c["dead_empty_class_branch"] = Alt(Cat(L("a"), C(["\\w", "\\W"], neg=True)), L("b"))
    c["dead_empty_class_loop"] = Cat(R(Cat(C(["a", "b"]), C(["\\s", "\\S"], neg=True)), 0, None), L("a"))
    c["dead_lookahead_neg"] = Raw("a(?!b)[ab]")
    c["dead_lookahead_neg_plus"] = Raw("(?!ab)[ab]+")
    c["dead_lookahead_pos"] = Raw("(?=a)[ab]b")
    c["dead_lookahead_mid"] = Raw("(a|b)(?!a)(a|b)")
    c["dead_lookahead_opt"] = Raw("[ab]*(?!b)a?")
    c["alt_prefix"] = Alt(Cat(L("a"), L("b")), Cat(L("a"), L("a")), L("a"))
    return c


def random_pattern(rng, chars, depth=3, ci=False):
    """Random AST over the supported operators using the characters `chars` (plus an occasional outside character)."""
    def ch():
        return rng.choice(chars) if rng.random() < 0.9 else rng.choice("xyQ7")
    r = rng.random()
    if depth <= 0 or r < 0.22:
        k = rng.random()
        if k < 0.5:
            return Lit(ch())
        if k < 0.6:
            return Dot()
        if k < 0.75:
            return Esc(rng.choice("dwsDWS"))
        items = []
        for _ in range(rng.randint(1, 3)):
            q = rng.random()
            if q < 0.7:
                items.append(ch())
            elif q < 0.85:
                a, b = sorted([ch(), ch()])
                if a not in "\n\t" and b not in "\n\t" and ord(b) - ord(a) < 40:
                    items.append((a, b))
                else:
                    items.append(a)
            else:
                items.append("\\" + rng.choice("dws" if ci else "dwsDWS"))
        return Cls(items, neg=rng.random() < 0.4)
    if r < 0.45:
        return Cat(*[random_pattern(rng, chars, depth - 1, ci) for _ in range(rng.randint(2, 3))])
    if r < 0.62:
        return Alt(*[random_pattern(rng, chars, depth - 1, ci) for _ in range(rng.randint(2, 3))])
    if r < 0.9:
        lo, hi = rng.choice([(0, None), (1, None), (0, 1), (0, 2), (1, 2), (2, 2), (2, None), (1, 3), (0, 0)])
        return Rep(random_pattern(rng, chars, depth - 1, ci), lo, hi, style=rng.choice(["sym", "brace"]))
    if not ci:
        return CI(random_pattern(rng, chars, depth - 1, True))
    return Lit(ch())


# ================================================================================================= C19 Lark grammars
def lark_corpus():
    """name -> (grammar text, candidate characters sigma [occurring + one foreign], charset option ('core' or chars))."""
    c = {}
    c["two_multibyte_terminals"] = ('start: A B\nA: "é"\nB: "ü"\n', "éüx", "éüx")           # DESIGN observation 11
    c["three_multibyte_terminals"] = ('start: A B C | C\nA: "€"\nB: "→"\nC: "😀"\n', "€→😀a", "€→😀a")
    # one terminal with two multi-byte characters sharing a lead byte on arcs from different states (seeded change C19-1)
    c["same_lead_byte_in_one_terminal"] = ('start: X\nX: /éè/\n', "éèa", "éèa")
    # terminal names that differ by a trailing digit run equal to a state number, used in different contexts (seeded change C19-2)
    c["terminal_names_T1_T11"] = ('start: T1 "p" | "q" T11\nT1: /ab/\nT11: /cd/\n', "abcdpq", "abcdpq")
    c["terminal_names_T1_T10_T12"] = ('start: T1 | "x" T10 | "y" T12\nT1: /ab?/\nT10: /ba/\nT12: /bb/\n', "abxy", "abxy")
    c["multibyte_and_ascii"] = ('start: A B | B A A\nA: "é"\nB: "b"\n', "ébx", "ébx")
    c["one_multibyte_terminal"] = ('start: A+\nA: "é"\n', "éa", "éa")
    c["multibyte_regex_class"] = ('start: A B?\nA: /[a€]+/\nB: "€a"\n', "a€x", "a€x")
    c["same_char_two_terminals"] = ('start: A B\nA: "é"\nB: /é+/\n', "éa", "éa")
    c["strings"] = ('start: "a" "b" | "ab" "a"\n', "abx", "core")
    c["anon_literals_core"] = ('start: "if" x "fi"\nx: "i" | "f" x\n', "if ", "core")
    c["regex_plus"] = ('start: NAME\nNAME: /(a|b)+/\n', "abc", "core")
    c["regex_opt_star"] = ('start: A B\nA: /a?/\nB: /b*c/\n', "abc", "abcx")
    c["zero_width_terminal"] = ('start: A B A\nA: /a*/\nB: "b"\n', "abx", "abx")
    c["rule_ops"] = ('start: x? y* z+\nx: "a"\ny: "b" | "a" "b"\nz: "c"\n', "abc", "abcd")
    c["rule_alt_group"] = ('start: ("a" | "b" "c")+ "d"?\n', "abcd", "abcde")
    c["rule_maybe"] = ('start: "a" ["b"] "c"\n', "abc", "abc")
    c["rule_repeat"] = ('start: A~2 B~1..2\nA: "a"\nB: /b|c/\n', "abc", "abc")
    c["left_recursion"] = ('start: e\ne: e "+" t | t\nt: "n" | "(" e ")"\n', "n+()", "n+()x")
    c["right_recursion_empty"] = ('start: x\nx: "a" x |\n', "ab", "ab")
    c["nullable_rules"] = ('start: x y\nx: "a" |\ny: x x | "b"\n', "ab", "abc")
    c["nested_ebnf"] = ('start: (x ("," x)*)?\nx: "a" | "(" start ")"\n', "a,()", "a,()")
    c["ci_literal"] = ('start: "ab"i "c"\n', "abABc", "abABcx")
    c["ci_literal_latin1"] = ('start: A "x"?\nA: "é"i\n', "éÉx", "éÉxe")
    c["ci_multichar_mapping"] = ('start: "ß"i "a"\n', "ßSsa", "ßSsa")                       # relative of observation 10
    c["ci_multichar_mapping_only"] = ('start: X\nX: "ﬁ"i\n', "ﬁFIfi", "ﬁFIfi")
    c["ci_regex_flag"] = ('start: A\nA: /a[bc]/i\n', "abBC", "abBCcA")
    c["ignore_ws"] = ('start: "a" "b" NAME\nNAME: /[cd]+/\nWS: /[ ]/\n%ignore WS\n', "abc ", "abcd x")
    c["ignore_two"] = ('start: A B\nA: "a"\nB: "b"\nWS: " "\nNL: /\\n/\n%ignore WS\n%ignore NL\n', "ab \n", "ab \nx")
    c["ignore_multichar"] = ('start: A+\nA: "a"\nC: "--"\n%ignore C\n', "a-", "a-x")
    c["ignore_multibyte"] = ('start: A B\nA: "é"\nB: "a"\nWS: /[ ü]/\n%ignore WS\n', "éa ü", "éa üx")
    c["ignore_star"] = ('start: A*\nA: "a" | "b"\nWS: /[ ]+/\n%ignore WS\n', "ab ", "ab x")
    # a terminal that is both ignored and used explicitly in a rule (seeded change C19-4)
    c["ignored_and_explicit"] = ('start: "a" (WS "b")* C\nC: /c+/\nWS: " "\n%ignore WS\n', "abc ", "abc x")
    # regex terminals with nested repetition: a state inside the inner loop reaches acceptance only back through a lower-numbered
    # state (liveness must be a fixed point, not one sweep) - seeded changes C18-3 / C19-5
    c["nested_repetition"] = ('start: T\nT: /((ab)*c)*d/\n', "abcd", "abcd")
    c["block_comment"] = ('start: "x" COMMENT "y"\nCOMMENT: /\\/\\*([^*]|\\*[^\\/])*\\*\\//\n', "/*axy", "/*axy")
    # terminals named like "<terminal>_<state number>" / "<terminal><state number>" (seeded change C19-12: automaton states keyed by a
    # string that can equal a terminal's name merge two nonterminals)
    c["terminal_names_like_states"] = ('start: TOK "-" TOK_0 TOK_1? TOK_2?\nTOK: /ab/\nTOK_0: /c+/\nTOK_1: "d"\nTOK_2: /a?d/\n', "abcd-", "abcd-")
    c["terminal_names_like_states2"] = ('start: T T0 T1?\nT: /ab+/\nT0: /ba/\nT1: /a+/\nWS: " "\n%ignore WS\n', "ab ", "ab x")
    c["neg_class_charset"] = ('start: A "!"\nA: /[^a!]+/\n', "ab!", "ab!c")
    c["dot_charset"] = ('start: /./ "a"\n', "ab\n", "ab\nc")
    c["dot_core"] = ('start: /.b?/\n', "ab\n", "core")
    c["neg_class_core"] = ('start: /[^a]/ /a+/\n', "ab1", "core")
    c["escapes"] = ('start: D W\nD: /\\d+/\nW: /\\w\\s?/\n', "1a _", "core")
    c["terminal_composition"] = ('start: NAME ("," NAME)*\nNAME: LETTER+ DIGIT?\nLETTER: "a".."b"\nDIGIT: "0" | "1"\n', "ab0,", "ab01,x")
    c["terminal_alt"] = ('start: A A\nA: "a" | "bc" | /c+/\n', "abc", "abc")
    c["names_like_internal"] = ('start: n1 N1 _bytes0\nn1: N0\n_bytes0: N1 | "N" "1"\nN0: "N"\nN1: "1"\n', "N10", "N10x")
    c["shared_anon"] = ('start: x "a" x\nx: "a" | "b" "a"\n', "ab", "abc")
    c["empty_language_rule"] = ('start: x\nx: "a" x\n', "ab", "ab")
    c["bounded_regex"] = ('start: /a{1,2}b{2}/ "c"?\n', "abc", "abc")
    c["four_byte_ci"] = ('start: A B\nA: "😀"\nB: "Ü"i\n', "😀üÜa", "😀üÜa")
    return c


_TERMINAL_POOL = [
    ('"a"', "a"), ('"b"', "b"), ('"ab"', "ab"), ('"é"', "é"), ('"ü"', "ü"), ('"€"', "€"), ('"😀"', "😀"), ('"éa"', "éa"),
    ('/[ab]+/', "ab"), ('/a?b/', "ab"), ('/[^a]/', "a"), ('/./', ""), ('/(a|é)*/', "aé"), ('"a"i', "aA"), ('"é"i', "éÉ"),
    ('/b{1,2}/', "b"), ('/[a-c]/', "abc"), ('"ü"i', "üÜ"), ('/[é€]/', "é€"), ('"c" | "a" "b"', "abc"),
]


def random_lark_grammar(rng):
    """(grammar text, sigma, charset chars): 2-4 terminals from the pool, 1-3 rules with ? * + | groups, optional %ignore."""
    k = rng.randint(2, 4)
    picks = rng.sample(_TERMINAL_POOL, k)
    tnames = [f"T{i}" for i in range(k)]
    nrules = rng.randint(1, 3)
    rnames = ["start"] + [f"r{i}" for i in range(1, nrules)]

    def atom(depth):
        r = rng.random()
        if r < 0.6 or depth <= 0:
            s = rng.choice(tnames + rnames[1:]) if rng.random() < 0.85 else rng.choice(['"a"', '"é"', '"x"'])
        else:
            s = "(" + expr(depth - 1) + ")"
        q = rng.random()
        return s + ("?" if q < 0.15 else "*" if q < 0.25 else "+" if q < 0.35 else "")

    def seq(depth):
        return " ".join(atom(depth) for _ in range(rng.randint(1, 3)))

    def expr(depth):
        return " | ".join(seq(depth) for _ in range(rng.randint(1, 2)))

    lines = [f"{r}: {expr(2)}" for r in rnames]
    lines += [f"{n}: {p[0]}" for n, p in zip(tnames, picks)]
    sigma = set("".join(p[1] for p in picks)) | set("aéx")
    if rng.random() < 0.3:
        lines += ['WS: " "', "%ignore WS"]
        sigma.add(" ")
    sigma = "".join(sorted(sigma))
    if len(sigma) > 6:
        sigma = sigma[:6]
    return "\n".join(lines) + "\n", sigma, sigma + "q"


# ================================================================================================= self check
def selfcheck():
    """Dialect alignment of the C18/C19 oracle: on every character set used, Python's case-insensitive matching of a
    single character coincides with interegular's definition {p.lower(), p.upper()} restricted to single characters;
    render() produces patterns Python accepts; the explicit ASCII classes written for `re` read like the ASCII class escapes."""
    for name, cs in CHARSETS.items():
        for p in cs:
            for ch in cs:
                want = ch in {p.lower(), p.upper()} or ch == p
                got = bool(re.fullmatch("(?i:" + re.escape(p) + ")", ch))
                assert got == want, (name, p, ch, got, want)
                assert (p in {p.lower(), p.upper()}), (name, p)     # interegular drops a char that is neither its lower nor upper
    for name, n in pattern_corpus().items():
        re.compile(render(n, True))
        re.compile(render(n, False))
    rng = random.Random(3)
    for _ in range(300):
        n = random_pattern(rng, "ab1 \n-]", 3)
        re.compile(render(n, True))
    assert render(Esc("d"), True) == "[0123456789]" and render(Esc("d")) == "\\d"
    assert re.fullmatch(render(Cls(["\\w"]), True), "é") is None and re.fullmatch(render(Cls(["\\w"])), "é")
    # explicit classes read like the ASCII escapes on ASCII, also inside bracket classes with negated escapes
    for items, neg in [(["\\D", "1"], False), (["\\D", "a"], True), (["\\W", "\\D"], False), (["\\S", "\\D", "x"], True), (["\\s", "a"], True),
                       (["\\w"], True), (["\\D", "\\S"], True)]:
        a_, b_ = re.compile(render(Cls(items, neg)), re.ASCII), re.compile(render(Cls(items, neg), True))
        for ch in map(chr, range(128)):
            assert bool(a_.fullmatch(ch)) == bool(b_.fullmatch(ch)), (items, neg, ch)
    for letter in "dwsDWS":
        a_, b_ = re.compile("\\" + letter, re.ASCII), re.compile(render(Esc(letter), True))
        for ch in list(map(chr, range(128))) + [c for cs in CHARSETS.values() for c in cs]:
            assert bool(a_.fullmatch(ch)) == bool(b_.fullmatch(ch)), (letter, ch)
            assert bool(re.fullmatch("(?i:" + render(Esc(letter), True) + ")", ch)) == bool(b_.fullmatch(ch)), (letter, ch)
    return True


if __name__ == "__main__":
    selfcheck()
    print("dom_conv selfcheck ok")

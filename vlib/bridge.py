"""Bridge between the neutral forms of vlib.spec / vlib.domains and the real genlm objects.

Imports genlm (the code under test, from /repo's working tree).  Provides:
  Qs                 exact user semiring (Fraction scores) - a `Semiring` subclass as a user would write it
  SEMIRINGS          name -> (genlm semiring, spec ops, weight converter from Fraction)
  to_cfg / from_cfg  neutral G  <->  genlm CFG
  to_wfsa / to_fst   neutral A  ->   genlm WFSA / FST
  from_wfsa          genlm WFSA -> neutral A (scores unwrapped to Fractions/floats)
  unwrap             semiring value -> plain number
  watchdog(seconds)  context manager raising Timeout (SIGALRM) - every call into the repo is wrapped
"""
import contextlib
import math
import signal
import warnings
from fractions import Fraction

warnings.filterwarnings("ignore", category=SyntaxWarning)

from genlm.grammar.semiring import Semiring, Boolean, Real, Float, MaxPlus, MaxTimes, Log, Expectation, Entropy  # noqa: E402
from genlm.grammar.cfg import CFG  # noqa: E402
from genlm.grammar.fst import FST  # noqa: E402
from genlm.grammar.wfsa import base as wbase  # noqa: E402
from genlm.grammar.wfsa import field_wfsa  # noqa: E402

from .spec import algebra  # noqa: E402
from .spec.cfgspec import G  # noqa: E402
from .spec.fsaspec import A, EPS  # noqa: E402


class Qs(Semiring):
    """Exact rational semiring, written the way a user of the library would (DESIGN 2.5)."""

    def __add__(self, other):
        return Qs(self.score + other.score)

    def __mul__(self, other):
        return Qs(self.score * other.score)

    def star(self):
        return Qs(1 / (1 - self.score))

    def metric(self, other):
        return abs(self.score - other.score)

    def __pow__(self, k):
        return Qs(self.score ** k)

    def __truediv__(self, other):
        return Qs(self.score / other.score)

    def __hash__(self):
        return hash(self.score)

    def __repr__(self):
        return f"Q({self.score})"


Qs.zero = Qs(Fraction(0))
Qs.one = Qs(Fraction(1))


def _mp(fr):
    return -math.inf if fr == 0 else math.log(float(fr))


# name -> (genlm semiring, spec ops, Fraction -> semiring value, semiring value -> spec value)
SEMIRINGS = {
    "Q": (Qs, algebra.Q, lambda f: Qs(Fraction(f)), lambda v: v.score),
    "FloatFrac": (Float, algebra.Q, lambda f: Fraction(f), lambda v: v),
    "Float": (Float, algebra.Q, lambda f: float(f), lambda v: v),
    # positive but extreme float weights (products of three underflow, a single weight is below agenda's 1e-12 stopping rule):
    # only meaningful where the property is about *positivity* of weights (C01)
    "FloatTiny": (Float, algebra.Q, lambda f: float(f) * 1e-140, lambda v: v),
    "Real": (Real, algebra.Q, lambda f: Real(float(f)), lambda v: v.score),
    "RealFrac": (Real, algebra.Q, lambda f: Real(Fraction(f)), lambda v: v.score),
    "Boolean": (Boolean, algebra.BOOL, lambda f: Boolean(f != 0), lambda v: v.score),
    "MaxTimes": (MaxTimes, algebra.MAXTIMES, lambda f: MaxTimes(Fraction(f)), lambda v: v.score),
    "MaxPlus": (MaxPlus, algebra.MAXPLUS, lambda f: MaxPlus(_mp(f)), lambda v: v.score),
}


def spec_weight(name, f):
    """The spec-side value corresponding to Fraction weight f in semiring `name`."""
    if name == "Boolean":
        return f != 0
    if name == "MaxPlus":
        return _mp(f)
    return Fraction(f)


def unwrap(v):
    if isinstance(v, Semiring):
        return v.score
    return v


from .bridge_light import Timeout, watchdog  # noqa: E402,F401


def to_cfg(g, sr="Q", rename=None, order=None):
    """Build a real CFG from the neutral grammar; `rename` maps nonterminals, `order` permutes rules."""
    R, _, conv, _ = SEMIRINGS[sr]
    f = (lambda x: x) if rename is None else (lambda x: x if x in g.V else rename(x))
    cfg = CFG(R=R, S=f(g.S), V=set(g.V))
    rules = list(g.rules)
    if order is not None:
        rules = [rules[i] for i in order]
    for w, h, b in rules:
        cfg.add(conv(w), f(h), *[f(y) for y in b])
    return cfg


def from_cfg(cfg, val=unwrap):
    """Neutral snapshot of a real CFG (weights unwrapped)."""
    return G(cfg.S, frozenset(cfg.V), [(val(r.w), r.head, tuple(r.body)) for r in cfg.rules])


def spec_grammar(g, sr):
    """Neutral grammar with weights mapped into the spec ops of semiring `sr`."""
    return G(g.S, g.V, [(spec_weight(sr, w), h, b) for w, h, b in g.rules])


def to_wfsa(a, sr="Q", cls=None):
    R, _, conv, _ = SEMIRINGS[sr]
    cls = cls or wbase.WFSA
    m = cls(R)
    for q in a.states:
        m.add_state(q)
    for q, w in a.start.items():
        m.add_I(q, conv(w))
    for q, w in a.stop.items():
        m.add_F(q, conv(w))
    for i, lab, j, w in a.arcs:
        m.add_arc(i, lab, j, conv(w))
    return m


def to_fst(a, sr="Q"):
    R, _, conv, _ = SEMIRINGS[sr]
    m = FST(R)
    for q in a.states:
        m.add_state(q)
    for q, w in a.start.items():
        m.add_I(q, conv(w))
    for q, w in a.stop.items():
        m.add_F(q, conv(w))
    for i, lab, j, w in a.arcs:
        m.add_arc(i, lab, j, conv(w))
    return m


def from_wfsa(m, val=unwrap):
    arcs = [(i, a, j, val(w)) for i, a, j, w in m.arcs()]
    states = set(m.states)
    return A(frozenset(states), {q: val(w) for q, w in m.start.items()}, {q: val(w) for q, w in m.stop.items()}, arcs)


def spec_automaton(a, sr):
    return A(a.states, {q: spec_weight(sr, w) for q, w in a.start.items()},
             {q: spec_weight(sr, w) for q, w in a.stop.items()},
             [(i, l, j, spec_weight(sr, w)) for i, l, j, w in a.arcs])


def fmt_grammar(g):
    return "; ".join(f"{w}: {h} -> {' '.join(map(str, b))}" for w, h, b in g.rules) + f"  [S={g.S}, V={sorted(g.V)}]"


def fmt_automaton(a):
    return (f"start={ {k: str(v) for k, v in a.start.items()} } stop={ {k: str(v) for k, v in a.stop.items()} } "
            f"arcs={[(i, l, j, str(w)) for i, l, j, w in a.arcs]}")

"""Domain helpers for the automaton / path-solver properties C11..C15.

Neutral forms only at module level (vlib.spec.fsaspec.A, Fractions); genlm is imported lazily inside
`semirings()` only.  selfcheck() validates the helpers that act as oracles (reachability, SCCs) against
brute-force definitions.
"""
import contextlib
import itertools
import math
import random
import signal
import time
from fractions import Fraction

from .bridge_light import Timeout
from .domains import PRIMES, generic_weights, random_wfsa, terms, wfsa_corpus
from .spec.fsaspec import A, EPS

F = Fraction


# ---------------------------------------------------------------- nestable watchdog
from .bridge_light import watchdog as guard   # noqa: E402  (CPU-time budget, wall-clock backstop, restores enclosing watchdogs)


def gcall(seconds, f, *a, **k):
    """Run a repo function under a watchdog: ('ok', v) | ('exc', 'Type: msg') | ('timeout', seconds)."""
    try:
        with guard(seconds):
            return "ok", f(*a, **k)
    except Timeout:
        return "timeout", seconds
    except AssertionError as e:
        return "exc", f"AssertionError: {e}"
    except Exception as e:  # noqa: BLE001
        return "exc", f"{type(e).__name__}: {e}"


def fail_kind(st, v):
    """'raised: <Type>' / 'timeout' for a gcall outcome that is not 'ok'."""
    return "raised: " + str(v).split(":")[0] if st == "exc" else "timeout"


def kind(what):
    """Failure class of a `what` string: 'raised:<Type>' keeps the exception type, otherwise the part before ':'."""
    head = what.split(":")[0]
    if head == "raised":
        return "raised:" + what.split(":")[1].split()[0]
    return head


# ---------------------------------------------------------------- semiring table (adds Log)
def semirings():
    """bridge.SEMIRINGS plus the shipped Log semiring: name -> (R, spec ops, Fraction -> weight, weight -> spec value)."""
    from . import bridge
    from .spec import algebra
    from genlm.grammar.semiring import Log
    sr = dict(bridge.SEMIRINGS)
    sr["Log"] = (Log, algebra.Q, lambda f: Log(-math.inf if f == 0 else math.log(float(f))),
                 lambda v: math.exp(v.score))
    return sr


def in_sr(v, R):
    """Is v a value of the semiring R (the plain-number `Float` semiring: any real number type)?"""
    from . import bridge
    if R is bridge.Float:
        if isinstance(v, bridge.Semiring) or isinstance(v, bool):
            return False
        if isinstance(v, (int, float, Fraction)):
            return True
        try:
            import numpy as np
            return isinstance(v, np.number)
        except Exception:  # noqa: BLE001
            return False
    return isinstance(v, R)


def spec_automaton(a, sr):
    """Weights of the neutral automaton mapped into the spec ops of semiring `sr`."""
    def f(w):
        if sr == "Boolean":
            return w != 0
        if sr == "MaxPlus":
            return -math.inf if w == 0 else math.log(float(w))
        return Fraction(w)
    return A(a.states, {q: f(w) for q, w in a.start.items()}, {q: f(w) for q, w in a.stop.items()},
             [(i, l, j, f(w)) for i, l, j, w in a.arcs])


def build_wfsa(cls, R, conv, a):
    """Real automaton of class `cls` over semiring R from the neutral form (weights through `conv`)."""
    m = cls(R)
    for q in sorted(a.states, key=repr):
        m.add_state(q)
    for q, w in a.start.items():
        m.add_I(q, conv(w))
    for q, w in a.stop.items():
        m.add_F(q, conv(w))
    for i, lab, j, w in a.arcs:
        m.add_arc(i, lab, j, conv(w))
    return m


def snapshot(m, val):
    """Neutral form of a real automaton (weights through `val`)."""
    return A(frozenset(m.states), {q: val(w) for q, w in m.start.items()}, {q: val(w) for q, w in m.stop.items()},
             [(i, l, j, val(w)) for i, l, j, w in m.arcs()])


def rename_states(a, f):
    return A(frozenset(f(q) for q in a.states), {f(q): w for q, w in a.start.items()},
             {f(q): w for q, w in a.stop.items()}, [(f(i), l, f(j), w) for i, l, j, w in a.arcs])


RENAMERS = {
    "id": lambda q: q,
    "str": lambda q: "q" + repr(q),
    "tuple": lambda q: ("s", q),
}


def alphabet(*autos):
    return sorted({l for a in autos for _, l, _, _ in a.arcs if l != EPS}, key=repr)


# ---------------------------------------------------------------- structural oracles (own reachability)
def forward_reachable(a, nonzero=lambda w: w != 0):
    seen = {q for q, w in a.start.items() if nonzero(w)}
    todo = list(seen)
    succ = {}
    for i, _, j, w in a.arcs:
        if nonzero(w):
            succ.setdefault(i, set()).add(j)
    while todo:
        p = todo.pop()
        for q in succ.get(p, ()):
            if q not in seen:
                seen.add(q)
                todo.append(q)
    return seen


def backward_reachable(a, nonzero=lambda w: w != 0):
    seen = {q for q, w in a.stop.items() if nonzero(w)}
    todo = list(seen)
    pred = {}
    for i, _, j, w in a.arcs:
        if nonzero(w):
            pred.setdefault(j, set()).add(i)
    while todo:
        p = todo.pop()
        for q in pred.get(p, ()):
            if q not in seen:
                seen.add(q)
                todo.append(q)
    return seen


def useful_states(a):
    """States that lie on an accepting path (non-zero start, arcs, stop)."""
    return forward_reachable(a) & backward_reachable(a)


def features(a):
    """Small tag describing the input class of an automaton (used in violation signatures)."""
    fw, bw = forward_reachable(a), backward_reachable(a)
    tags = []
    if any(l == EPS for _, l, _, _ in a.arcs):
        tags.append("eps")
    if fw - bw:
        tags.append("dead")
    if set(a.states) - fw:
        tags.append("unreach")
    if not (fw & bw):
        tags.append("empty")
    if has_cycle(a):
        tags.append("cyc")
    return "+".join(tags) or "plain"


def has_cycle(a):
    succ = {}
    for i, _, j, _ in a.arcs:
        succ.setdefault(i, set()).add(j)
    color = {}

    def dfs(v):
        color[v] = 1
        for w in succ.get(v, ()):
            c = color.get(w, 0)
            if c == 1 or (c == 0 and dfs(w)):
                return True
        color[v] = 2
        return False
    return any(color.get(q, 0) == 0 and dfs(q) for q in list(a.states))


def sccs_warshall(nodes, edges):
    """SCC partition of a digraph by Warshall reachability: set of frozensets, and the reach relation."""
    nodes = list(nodes)
    reach = {u: {u} for u in nodes}
    for u, v in edges:
        reach[u].add(v)
    for k in nodes:
        for i in nodes:
            if k in reach[i]:
                reach[i] |= reach[k]
    comps = set()
    for u in nodes:
        comps.add(frozenset(v for v in nodes if v in reach[u] and u in reach[v]))
    return comps, reach


# ---------------------------------------------------------------- automaton corpora
def extra_corpus():
    c = {}
    c["eps_self_start"] = A(frozenset([0, 1]), {0: F(1, 2)}, {1: F(1, 3), 0: F(1, 7)},
                            [(0, EPS, 0, F(1, 3)), (0, "a", 1, F(1, 5)), (1, "b", 1, F(1, 2)), (1, EPS, 1, F(1, 11))])
    c["eps_parallel"] = A(frozenset([0, 1]), {0: F(1)}, {1: F(1, 2)},
                          [(0, EPS, 1, F(1, 3)), (0, EPS, 1, F(1, 5)), (0, "a", 1, F(1, 7)), (1, "a", 1, F(1, 2))])
    c["eps_chain_final"] = A(frozenset([0, 1, 2, 3]), {0: F(1, 2)}, {3: F(1, 3)},
                             [(0, EPS, 1, F(1, 2)), (1, EPS, 2, F(1, 3)), (2, EPS, 3, F(1, 5)), (1, "a", 1, F(1, 7)), (3, "b", 0, F(1, 11))])
    c["eps_unreachable_cycle"] = A(frozenset([0, 1, 2, 3]), {0: F(1)}, {1: F(1, 2)},
                                   [(0, "a", 1, F(1, 3)), (2, EPS, 3, F(1, 2)), (3, EPS, 2, F(1, 3)), (3, "b", 1, F(1, 5))])
    c["eps_dead_cycle"] = A(frozenset([0, 1, 2, 3]), {0: F(1)}, {1: F(1, 2)},
                            [(0, "a", 1, F(1, 3)), (0, EPS, 2, F(1, 2)), (2, EPS, 3, F(1, 3)), (3, EPS, 2, F(1, 5)), (1, "b", 2, F(1, 7))])
    c["multi_if"] = A(frozenset([0, 1, 2]), {0: F(1, 2), 1: F(1, 3), 2: F(1, 5)}, {0: F(1, 7), 1: F(1, 11), 2: F(1, 13)},
                      [(0, "a", 1, F(1, 2)), (1, "b", 2, F(1, 3)), (2, "a", 0, F(1, 5)), (0, EPS, 2, F(1, 7)), (1, "a", 1, F(1, 11))])
    c["all_eps"] = A(frozenset([0, 1, 2]), {0: F(1, 2)}, {2: F(1, 3)}, [(0, EPS, 1, F(1, 2)), (1, EPS, 2, F(1, 3)), (2, EPS, 0, F(1, 5))])
    c["nested_eps_cycles"] = A(frozenset([0, 1, 2]), {0: F(1)}, {2: F(1, 2)},
                               [(0, EPS, 1, F(1, 2)), (1, EPS, 0, F(1, 3)), (1, EPS, 2, F(1, 5)), (2, EPS, 1, F(1, 7)), (2, "a", 2, F(1, 11)), (0, "b", 2, F(1, 13))])
    c["str_states"] = A(frozenset(["p", "q", ""]), {"p": F(1, 2)}, {"": F(1, 3)},
                        [("p", "a", "q", F(1, 2)), ("q", EPS, "", F(1, 3)), ("", "a", "p", F(1, 5)), ("q", "b", "q", F(1, 7))])
    c["symbol_b_dead_only"] = A(frozenset([0, 1, 2]), {0: F(1)}, {1: F(1)}, [(0, "a", 1, F(1, 2)), (0, "b", 2, F(1, 3))])
    c["ambiguous"] = A(frozenset([0, 1, 2, 3]), {0: F(1)}, {3: F(1, 2)},
                       [(0, "a", 1, F(1, 2)), (0, "a", 2, F(1, 3)), (1, "b", 3, F(1, 5)), (2, "b", 3, F(1, 7))])
    c["two_init_shared"] = A(frozenset([0, 1, 2, 3]), {0: F(1, 2), 1: F(1, 3)}, {3: F(1)},
                             [(0, "a", 2, F(1, 2)), (1, "a", 2, F(1, 3)), (1, "a", 3, F(1, 5)), (2, "b", 3, F(1, 7)), (0, EPS, 1, F(1, 11))])
    return c


def full_corpus():
    c = dict(wfsa_corpus())
    c.update(extra_corpus())
    return c


def acyclic_wfsa(rng, q=4, sigma=2, m=6, p_eps=0.2):
    return random_wfsa(rng, q, sigma, m, eps=True, p_eps=p_eps, acyclic=True)


def deterministic_cyclic_wfsa(rng, q=3, sigma=2):
    """Already deterministic (so determinisation terminates), usually cyclic, possibly with dead/unreachable states."""
    states = list(range(q))
    syms = terms(sigma)
    arcs = []
    for i in states:
        for a in syms:
            if rng.random() < 0.6:
                arcs.append((i, a, rng.choice(states)))
    stop = rng.sample(states, rng.randint(1, min(2, q)))
    ws = generic_weights(len(arcs) + 1 + len(stop), scale=2, rng=rng)
    it = iter(ws)
    return A(frozenset(states), {0: next(it)}, {s: next(it) for s in stop}, [(i, a, j, next(it)) for i, a, j in arcs])


def confluent_wfsa(rng, q=4, sigma=2, extra=3):
    """Two arcs on the same symbol out of one state whose targets' epsilon closures meet (i -x-> j1, i -x-> j2, j1 -eps*-> k <-eps*- j2),
    on an accepting path, plus a few random arcs: after epsilon removal several original paths land on ONE arc (i, x, k) and their
    weights must add up (strengthened after seeded change C11-3)."""
    states = list(range(q))
    syms = terms(sigma)
    i, j1, j2 = rng.sample(states, 3)
    k = rng.choice([j2] + [s for s in states if s not in (i, j1)])
    x = rng.choice(syms)
    arcs = [(i, x, j1), (i, x, j2), (j1, EPS, k)]
    if k != j2:
        arcs.append((j2, EPS, k))
    for _ in range(rng.randint(0, extra)):
        a, b = rng.choice(states), rng.choice(states)
        y = rng.choice(syms + [EPS])
        if y == EPS and (a >= b):
            continue            # keep the epsilon structure acyclic: epsilon sums stay finite
        if (a, y, b) not in arcs:
            arcs.append((a, y, b))
    start = [i] + ([rng.choice(states)] if rng.random() < 0.3 else [])
    stop = [k] + ([rng.choice(states)] if rng.random() < 0.3 else [])
    start, stop = sorted(set(start)), sorted(set(stop))
    ws = generic_weights(len(arcs) + len(start) + len(stop), scale=2, rng=rng)
    it = iter(ws)
    return A(frozenset(states), {s: next(it) for s in start}, {s: next(it) for s in stop}, [(a, y, b, next(it)) for a, y, b in arcs])


def int_labels(a):
    """Byte-level / token-id alphabet: the symbols become 0, 1, 2, ... (0 - the NUL byte - is falsy but is NOT epsilon)."""
    syms = sorted({x for _, x, _, _ in a.arcs if x != EPS})
    m = {x: k for k, x in enumerate(syms)}
    return A(a.states, dict(a.start), dict(a.stop), [(i, m.get(x, x) if x != EPS else EPS, j, w) for i, x, j, w in a.arcs])


def automaton_domain(seed, n_random, q=3, sigma=2, m=5, tag="rand"):
    rng = random.Random(seed)
    out = list(full_corpus().items())
    for i in range(n_random):
        out.append((f"{tag}{seed}_{i}", random_wfsa(rng, q, sigma, m)))
    rng2 = random.Random(seed * 7919 + 13)
    for i in range(max(8, n_random // 8)):
        out.append((f"confl{seed}_{i}", confluent_wfsa(rng2, max(q, 3) + (i % 2), sigma)))
    return out


# ---------------------------------------------------------------- C14: well-conditioned real-weighted automata
NICE_FRAC = [F(1, 2), F(1, 3), F(2, 3), F(1, 4), F(3, 4), F(2, 5), F(3, 5), F(3, 2), F(5, 4), F(1, 5), F(4, 5), F(5, 3)]
NICE_INT = [F(1), F(2), F(3), F(1), F(2)]


def nice_wfsa(rng, family, q=3, sigma=2, m=5, p_eps=0.2):
    """Small automaton with weights of moderate size (|w| in [1/5, 3]) - 'well-conditioned' (property C14).
    family 'frac': non-integer weights allowed; 'int': weights 1..3 and an acyclic epsilon structure
    (integer epsilon cycles diverge; 'frac' epsilon cycles must be filtered for convergence by the caller)."""
    pool = NICE_FRAC if family == "frac" else NICE_INT
    if family == "signed":
        # signed dyadic weights: sums and products of a few of them are exact in binary floating point, so exact cancellation in Q
        # is exact cancellation in the code under test as well
        pool = [F(1, 2), F(-1, 2), F(1, 4), F(-1, 4), F(1), F(-1), F(3, 2), F(3, 4), F(-3, 4), F(2)]
    states = list(range(q))
    syms = terms(sigma)
    arcs = []
    for _ in range(rng.randint(1, m)):
        i, j = rng.choice(states), rng.choice(states)
        if rng.random() < p_eps:
            if family in ("int", "signed") or rng.random() < 0.7:
                if i == j:
                    continue
                i, j = min(i, j), max(i, j)   # acyclic epsilon structure: epsilon sums are finite
            a = EPS
        else:
            a = rng.choice(syms)
        arcs.append((i, a, j, rng.choice(pool)))
    start = {s: rng.choice(pool) for s in rng.sample(states, rng.randint(1, min(2, q)))}
    stop = {s: rng.choice(pool) for s in rng.sample(states, rng.randint(0 if rng.random() < 0.1 else 1, min(2, q)))}
    return A(frozenset(states), start, stop, arcs)


def nice_corpus():
    c = {}
    c["lift_half"] = A(frozenset([0, 1]), {0: F(1)}, {1: F(1)}, [(0, "a", 1, F(1, 2))])
    c["lift_quarter"] = A(frozenset([0, 1]), {0: F(1)}, {1: F(1)}, [(0, "a", 1, F(1, 4))])
    c["lift_one"] = A(frozenset([0, 1]), {0: F(1)}, {1: F(1)}, [(0, "a", 1, F(1))])
    c["lift_two"] = A(frozenset([0, 1]), {0: F(1)}, {1: F(1)}, [(0, "a", 1, F(2))])
    c["empty_nostop"] = A(frozenset([0, 1]), {0: F(1)}, {}, [(0, "a", 1, F(1))])
    c["empty_nostart"] = A(frozenset([0, 1]), {}, {1: F(1)}, [(0, "a", 1, F(1))])
    c["empty_nostates"] = A(frozenset(), {}, {}, [])
    c["empty_disconnected"] = A(frozenset([0, 1, 2]), {0: F(1)}, {2: F(1)}, [(0, "a", 1, F(2)), (2, "b", 2, F(1))])
    c["eps_only_lang"] = A(frozenset([0]), {0: F(1, 2)}, {0: F(3, 2)}, [])
    c["loop_half"] = A(frozenset([0]), {0: F(1)}, {0: F(1, 2)}, [(0, "a", 0, F(1, 2))])
    c["loop_int"] = A(frozenset([0]), {0: F(1)}, {0: F(1)}, [(0, "a", 0, F(2)), (0, "b", 0, F(1))])
    c["redundant_pair"] = A(frozenset([0, 1, 2]), {0: F(1)}, {1: F(1), 2: F(1)}, [(0, "a", 1, F(1, 2)), (0, "a", 2, F(1, 4)), (1, "b", 1, F(1, 2)), (2, "b", 2, F(1, 2))])
    c["useless_states"] = A(frozenset([0, 1, 2, 3]), {0: F(1)}, {1: F(1)}, [(0, "a", 1, F(2)), (0, "b", 2, F(3)), (3, "a", 1, F(1))])
    c["eps_frac"] = A(frozenset([0, 1, 2]), {0: F(1)}, {2: F(1)}, [(0, EPS, 1, F(1, 2)), (1, "a", 2, F(3, 2)), (0, "a", 2, F(1, 4)), (2, EPS, 2, F(1, 4))])
    c["ab_star_int"] = A(frozenset([0, 1]), {0: F(1)}, {0: F(1)}, [(0, "a", 1, F(1)), (1, "b", 0, F(1))])
    c["rank3"] = A(frozenset([0, 1, 2]), {0: F(1)}, {2: F(1)}, [(0, "a", 1, F(1)), (1, "a", 2, F(2)), (2, "b", 0, F(1)), (0, "b", 0, F(3))])
    # real weights are signed: initial weights that cancel in the sum although the language is not empty, and a positive automaton
    # whose conjugated start vector sums to zero inside min (dyadic weights: exact in binary floating point) - seeded change C14-4
    c["difference_a_minus_b"] = A(frozenset([0, 1, 2]), {0: F(1, 2), 1: F(-1, 2)}, {2: F(1)}, [(0, "a", 2, F(1)), (1, "b", 2, F(1))])
    c["difference_rank2"] = A(frozenset([0, 1, 2, 3]), {0: F(1), 1: F(-1)}, {2: F(1), 3: F(1, 2)},
                              [(0, "a", 2, F(1, 2)), (1, "a", 3, F(1, 2)), (2, "b", 2, F(1, 2)), (3, "a", 3, F(1, 4))])
    c["conjugate_start_sums_to_zero"] = A(frozenset([0, 1]), {0: F(1, 2), 1: F(1, 4)}, {1: F(1, 8)}, [(0, "a", 0, F(1)), (1, "a", 0, F(1, 2))])
    c["negative_arc"] = A(frozenset([0, 1]), {0: F(1)}, {1: F(1)}, [(0, "a", 1, F(1, 2)), (0, "a", 1, F(-1, 4)), (1, "b", 1, F(-1, 2))])
    return c


def perturbations(a, rng):
    """(kind, automaton) variants of `a`: language-preserving rewrites (useless/redundant states, conjugation,
    duplication) and near misses (one weight changed, often by a non-integer amount).  Which of them are
    equivalent is decided by the oracle, not assumed here."""
    out = []
    n = len(a.states)
    fresh = max([q for q in a.states if isinstance(q, int)] + [-1]) + 1
    # copy
    out.append(("copy", A(a.states, dict(a.start), dict(a.stop), list(a.arcs))))
    # renamed
    out.append(("renamed", rename_states(a, lambda q: ("r", q))))
    # useless states: one unreachable with a path to a final state, one dead
    arcs = list(a.arcs)
    stop_states = list(a.stop)
    if stop_states:
        arcs.append((fresh, "a", stop_states[0], F(3, 2)))
    start_states = list(a.start)
    if start_states:
        arcs.append((start_states[0], "b", fresh + 1, F(1, 2)))
    out.append(("useless", A(a.states | {fresh, fresh + 1}, dict(a.start), dict(a.stop), arcs)))
    # split a state into two copies (incoming weight and start weight shared 1/4 : 3/4, outgoing duplicated)
    if n:
        q = sorted(a.states, key=repr)[rng.randrange(n)]
        q2 = fresh + 2
        arcs = []
        for i, l, j, w in a.arcs:
            srcs = [i, q2] if i == q else [i]
            for s in srcs:
                if j == q:
                    arcs.append((s, l, q, w * F(1, 4)))
                    arcs.append((s, l, q2, w * F(3, 4)))
                else:
                    arcs.append((s, l, j, w))
        start = dict(a.start)
        if q in start:
            start[q2] = start[q] * F(3, 4)
            start[q] = start[q] * F(1, 4)
        stop = dict(a.stop)
        if q in stop:
            stop[q2] = stop[q]
        out.append(("split", A(a.states | {q2}, start, stop, arcs)))
        # diagonal conjugation at q by factor 2
        arcs = []
        for i, l, j, w in a.arcs:
            if j == q and i != q:
                w = w * 2
            elif i == q and j != q:
                w = w / 2
            arcs.append((i, l, j, w))
        start = dict(a.start)
        stop = dict(a.stop)
        if q in start:
            start[q] = start[q] * 2
        if q in stop:
            stop[q] = stop[q] / 2
        out.append(("conjugate", A(a.states, start, stop, arcs)))
    # near misses
    if a.arcs:
        k = rng.randrange(len(a.arcs))
        i, l, j, w = a.arcs[k]
        arcs = list(a.arcs)
        arcs[k] = (i, l, j, w / 2)
        out.append(("arc_halved", A(a.states, dict(a.start), dict(a.stop), arcs)))
        arcs = list(a.arcs)
        arcs[k] = (i, l, j, w + F(1, 4))
        out.append(("arc_plus_quarter", A(a.states, dict(a.start), dict(a.stop), arcs)))
        arcs = list(a.arcs)
        del arcs[k]
        out.append(("arc_dropped", A(a.states, dict(a.start), dict(a.stop), arcs)))
    if a.stop:
        q = sorted(a.stop, key=repr)[0]
        stop = dict(a.stop)
        stop[q] = stop[q] * F(3, 4)
        out.append(("stop_scaled", A(a.states, dict(a.start), stop, list(a.arcs))))
    return out


def scale_weights(a, c):
    return A(a.states, {q: w * c for q, w in a.start.items()}, dict(a.stop), list(a.arcs))


# ---------------------------------------------------------------- C15: weighted digraphs
def graph_from_mask(n, mask, scale=2):
    """Digraph on nodes 0..n-1: edge (i, j) present iff bit i*n+j of mask; weight 1/(prime_{i*n+j} * scale)."""
    edges = []
    for i in range(n):
        for j in range(n):
            k = i * n + j
            if mask >> k & 1:
                edges.append((i, j, F(1, PRIMES[k] * scale)))
    return edges


def random_graph(rng, n, p=None):
    """Random digraph on n nodes; distinct rational weights 1/((n+1)(k+2)) (every row sum < 1/2: all path sums converge)."""
    p = p if p is not None else rng.choice([0.12, 0.25, 0.4])
    ks = list(range(n * n))
    rng.shuffle(ks)
    edges = []
    for i in range(n):
        for j in range(n):
            if rng.random() < p:
                edges.append((i, j, F(1, (n + 1) * (ks[i * n + j] + 2))))
    return edges


def graph_corpus():
    c = {}
    c["nested_cycles"] = (5, [(0, 1, F(1, 4)), (1, 0, F(1, 6)), (1, 2, F(1, 10)), (2, 1, F(1, 14)), (2, 2, F(1, 22)), (2, 3, F(1, 26)), (3, 4, F(1, 34)), (4, 3, F(1, 38)), (4, 0, F(1, 46))])
    c["two_components"] = (6, [(0, 1, F(1, 4)), (1, 0, F(1, 6)), (2, 3, F(1, 10)), (3, 4, F(1, 14)), (4, 2, F(1, 22))])
    c["chain_back_edges"] = (5, [(0, 1, F(1, 4)), (1, 2, F(1, 6)), (2, 3, F(1, 10)), (3, 4, F(1, 14)), (0, 4, F(1, 22)), (0, 2, F(1, 26)), (1, 4, F(1, 34))])
    c["diamond_cycles"] = (6, [(0, 1, F(1, 4)), (0, 2, F(1, 6)), (1, 3, F(1, 10)), (2, 3, F(1, 14)), (1, 1, F(1, 22)), (2, 4, F(1, 26)), (4, 2, F(1, 34)), (3, 5, F(1, 38)), (5, 3, F(1, 46)), (4, 5, F(1, 58))])
    c["isolated"] = (4, [(1, 1, F(1, 4))])
    c["no_edges"] = (3, [])
    c["empty"] = (0, [])
    c["self_loops_only"] = (3, [(0, 0, F(1, 4)), (1, 1, F(1, 6)), (2, 2, F(1, 10))])
    c["full3"] = (3, graph_from_mask(3, 511, scale=3))
    c["seven"] = (7, [(0, 1, F(1, 4)), (1, 2, F(1, 6)), (2, 0, F(1, 10)), (2, 3, F(1, 14)), (3, 4, F(1, 22)), (4, 5, F(1, 26)), (5, 3, F(1, 34)), (5, 6, F(1, 38)), (6, 6, F(1, 46)), (0, 6, F(1, 58)), (1, 4, F(1, 62))])
    return c


# ---------------------------------------------------------------- validation of the structural oracles
def selfcheck():
    """Reachability / SCC oracles against brute-force path enumeration on all digraphs with 3 nodes."""
    n = 3
    checked = 0
    for mask in range(1 << (n * n)):
        edges = [(i, j) for i in range(n) for j in range(n) if mask >> (i * n + j) & 1]
        # brute force: u reaches v iff there is a walk of length <= n
        reach = {u: {u} for u in range(n)}
        for _ in range(n):
            for u, v in edges:
                for s in range(n):
                    if u in reach[s]:
                        reach[s].add(v)
        comps, r2 = sccs_warshall(range(n), edges)
        assert r2 == reach, (mask, r2, reach)
        for c in comps:
            for u in c:
                for v in range(n):
                    assert (v in c) == (v in reach[u] and u in reach[v])
        assert sorted(q for c in comps for q in c) == list(range(n))
        a = A(frozenset(range(n)), {0: F(1)}, {n - 1: F(1)}, [(i, "a", j, F(1, 2)) for i, j in edges])
        assert forward_reachable(a) == reach[0]
        assert backward_reachable(a) == {u for u in range(n) if n - 1 in reach[u]}
        checked += 1
    return checked


if __name__ == "__main__":
    print("dom_wfsa selfcheck:", selfcheck())

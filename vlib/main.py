"""./check <Cnn> [--tier quick|thorough] [--replay PATH] [--only proved|bounded]

Rebuilds every obligation from /repo's current working tree (sources are re-parsed, the real
functions re-imported) on each run.
"""
import argparse
import importlib
import json
import os
import sys
import warnings

warnings.filterwarnings("ignore", category=SyntaxWarning)

from . import report  # noqa: E402


def main(argv=None):
    ap = argparse.ArgumentParser()
    ap.add_argument("pid")
    ap.add_argument("--tier", default=os.environ.get("VERIF_TIER", "quick"), choices=["quick", "thorough"])
    ap.add_argument("--replay")
    ap.add_argument("--only", choices=["proved", "bounded"])
    args = ap.parse_args(argv)
    seed = int(os.environ.get("VERIF_SEED", "0"))
    pid = args.pid
    import genlm.grammar
    if not os.path.abspath(genlm.grammar.__file__).startswith(os.path.abspath(report.REPO) + os.sep):
        print(f"CHECKER-CRASH: genlm imported from {genlm.grammar.__file__}, expected under {report.REPO}")
        return report.EXIT_CRASH
    try:
        mod = importlib.import_module(f"props.{pid}")
    except ModuleNotFoundError as e:
        print(f"no such property check: {pid} ({e})")
        return report.EXIT_CRASH
    if args.replay:
        with open(args.replay) as f:
            doc = json.load(f)
        try:
            return mod.replay(doc)
        except Exception as e:  # noqa: BLE001
            return report.crash(pid, e)
    run = report.Run(pid, args.tier, seed, getattr(mod, "LEVEL", "other"),
                     f"./check {pid} --tier {args.tier}")
    try:
        mod.run(run, only=args.only)
        return run.finish(check_lock=(args.only != 'bounded'))
    except Exception as e:  # noqa: BLE001
        return report.crash(pid, e)


if __name__ == "__main__":
    sys.exit(main())

"""Extra bounded domains for the CFG properties C05-C08 (DESIGN 2.5).  No genlm import.

  productive_grammar(rng, ...)   random grammar in which every nonterminal has a terminating rule (so that
                                 the language is non-empty and recursion is likely); shapes only
  cfg_domain(tier, seed, ...)    corpus + uniform random samples (vlib.domains) + productive samples, weighted
                                 with generic rationals scaled for convergence
  int_terminals(g)               the same grammar with integer terminals (renumber must avoid them)
  TRANSFORMS / apply_transform   the named grammar transformations with all their options (plain attribute
                                 calls on whatever object is passed - the real CFG in the checks)
  unfold_sites(g)                all (rule index, body position) pairs holding a nonterminal
  chains(tier, rng)              API-closed chains of two/three/four transformations (DESIGN 3, FRESH-NAMES)
  long_string(g, target, rng)    a member of L(g) of length >= target (None if the language has none)
  pcfg_weights(g)                rule weights normalised per head (keeps prefix weights in float range on
                                 long contexts)
  enum_shapes(lo, hi)            slice of the exhaustive enumeration G(2,2,3,2)
  replay_with_hashseed(doc, m)   replay a stored case under the PYTHONHASHSEED it was found with
"""
import itertools
import random
from fractions import Fraction

from . import domains
from .spec.cfgspec import G, generating_reachable


# ------------------------------------------------------------------ grammars
def productive_grammar(rng, n=3, t=2, r=6, L=3):
    N = domains.nts(n)
    V = domains.terms(t)
    rules = []
    used = rng.sample(N, rng.randint(1, n))
    if "N0" not in used:
        used[0] = "N0"
    for X in used:  # one terminating rule per nonterminal
        ln = rng.choice([0, 1, 1, 2])
        rules.append((None, X, tuple(rng.choice(V) for _ in range(ln))))
    k = rng.randint(1, max(1, r - len(used)))
    for _ in range(k):
        h = rng.choice(used)
        ln = min(rng.choice([1, 1, 2, 2, 2, 3]), L)
        b = tuple(rng.choice(V) if rng.random() < 0.35 else rng.choice(used) for _ in range(ln))
        rules.append((None, h, b))
    rng.shuffle(rules)
    return G("N0", frozenset(V), rules)


def cfg_domain(tier, seed, n_random, n_productive):
    """[(name, weighted grammar)]: corpus, uniform random samples, productive random samples."""
    from .spec.algebra import Q
    out = domains.grammar_domain(tier, seed, n_random=n_random)
    rng = random.Random(seed * 7919 + 13)
    n, t, r, L = (3, 2, 6, 3) if tier == "quick" else (4, 3, 8, 3)
    i = tries = 0
    while i < n_productive and tries < 20 * n_productive + 20:
        tries += 1
        g = productive_grammar(rng, n, t, r, L)
        s = domains.convergent_scale(g, Q)
        if s is None:
            continue
        out.append((f"prod{seed}_{i}", domains.reweight(g, s, rng)))
        i += 1
    return out


def exact_duplicates(g, rng=None, p=0.6):
    """Every chosen rule (w, h, b) is replaced by two copies (w/2, h, b): the same production listed twice with identical weight,
    head and body - Rule objects that compare (and hash) equal.  Total weights are unchanged (w/2 + w/2 = w), so convergence is
    that of the original grammar.  (Strengthened after seeded change C07-4.)"""
    rules = []
    for w, h, b in g.rules:
        if rng is None or rng.random() < p:
            rules += [(w / 2, h, b), (w / 2, h, b)]
        else:
            rules.append((w, h, b))
    return type(g)(g.S, g.V, rules)


SPARSE_IDS = [0, 5, 9, 14, 20, 27, 35, 44]     # token ids need not be 0..|V|-1 (seeded change C02-9); 0 stays: falsy but not epsilon


def int_terminals(g):
    m = {a: SPARSE_IDS[i] for i, a in enumerate(sorted(g.V))}
    return G(g.S, frozenset(m.values()), [(w, h, tuple(m.get(y, y) for y in b)) for w, h, b in g.rules])


def enum_shapes(lo, hi):
    return list(itertools.islice(domains.enumerate_grammars(2, 2, 3, 2), lo, hi))


ENUM_SIZE = None


def enum_size():
    global ENUM_SIZE
    if ENUM_SIZE is None:
        ENUM_SIZE = sum(1 for _ in domains.enumerate_grammars(2, 2, 3, 2))
    return ENUM_SIZE


def pcfg_weights(g):
    """Weights k_i / sum_k per head (distinct small integers k_i) - a proper local normalisation."""
    by = {}
    for i, (_, h, _) in enumerate(g.rules):
        by.setdefault(h, []).append(i)
    ws = [None] * len(g.rules)
    for h, idx in by.items():
        ks = [domains.PRIMES[j % len(domains.PRIMES)] for j in range(len(idx))]
        tot = sum(ks)
        for i, k in zip(idx, ks):
            ws[i] = Fraction(k, tot)
    return G(g.S, g.V, [(ws[i], h, b) for i, (_, h, b) in enumerate(g.rules)])


# ------------------------------------------------------------------ transformations and their options
def _rn_tuple(x):
    return ("nt", x)


def _rn_rev(x):
    return ("Z" + x[::-1]) if isinstance(x, str) else ("Z", x)


def _rn_count():
    """A 0-based numbering in order of first use (what `rename(Integerizer())` does): rename() evaluates f on the start symbol
    first, so the new start symbol is 0 - a falsy name (seeded change C06-8)."""
    ids = {}
    return lambda x: ids.setdefault(x, len(ids))


TRANSFORMS = {
    "trim": ("trim", lambda c: c.trim()),
    "trim[bottomup_only=True]": ("trim", lambda c: c.trim(bottomup_only=True)),
    "cotrim": ("cotrim", lambda c: c.cotrim()),
    "binarize": ("binarize", lambda c: c.binarize()),
    "separate_start": ("separate_start", lambda c: c.separate_start()),
    "separate_terminals": ("separate_terminals", lambda c: c.separate_terminals()),
    "nullaryremove": ("nullaryremove", lambda c: c.nullaryremove()),
    "nullaryremove[binarize=False]": ("nullaryremove", lambda c: c.nullaryremove(binarize=False)),
    "nullaryremove[trim=False]": ("nullaryremove", lambda c: c.nullaryremove(trim=False)),
    "nullaryremove[binarize=False,trim=False]": ("nullaryremove", lambda c: c.nullaryremove(binarize=False, trim=False)),
    "unaryremove": ("unaryremove", lambda c: c.unaryremove()),
    "unarycycleremove": ("unarycycleremove", lambda c: c.unarycycleremove()),
    "unarycycleremove[trim=False]": ("unarycycleremove", lambda c: c.unarycycleremove(trim=False)),
    "cnf": ("cnf", lambda c: c.cnf),
    "rename[tuple]": ("rename", lambda c: c.rename(_rn_tuple)),
    "rename[rev]": ("rename", lambda c: c.rename(_rn_rev)),
    "renumber": ("renumber", lambda c: c.renumber()),
    "rename[count]": ("rename", lambda c: c.rename(_rn_count())),
}
SINGLES = list(TRANSFORMS)


def method_of(tname):
    if tname.startswith("unfold("):
        return "unfold"
    return TRANSFORMS[tname][0]


def apply_transform(cfg, tname):
    if tname.startswith("unfold("):
        i, k = tname[len("unfold("):-1].split(",")
        return cfg.unfold(int(i), int(k))
    return TRANSFORMS[tname][1](cfg)


def unfold_sites(g):
    return [(i, k) for i, (_, _, b) in enumerate(g.rules) for k, y in enumerate(b) if y not in g.V]


EARLEY_PREP = ("nullaryremove", "unarycycleremove", "renumber")        # what Earley.__init__ applies
CNF_STAGES = ("separate_terminals", "nullaryremove", "trim", "unaryremove", "trim")

NAMED_CHAINS = [
    ("unarycycleremove",) + EARLEY_PREP,                      # Earley(g.unarycycleremove())      (observation 13)
    EARLEY_PREP,                                              # Earley(g)
    EARLEY_PREP + EARLEY_PREP,                                # Earley(Earley(g).cfg)
    ("cnf",) + EARLEY_PREP,                                   # Earley(g.cnf)
    ("nullaryremove", "nullaryremove"),
    ("nullaryremove", "nullaryremove[binarize=False,trim=False]", "nullaryremove"),
    ("unarycycleremove", "unarycycleremove"),
    ("unarycycleremove[trim=False]", "unarycycleremove[trim=False]"),
    ("unarycycleremove", "nullaryremove", "unarycycleremove"),
    ("nullaryremove", "unarycycleremove", "nullaryremove"),
    ("unarycycleremove", "unaryremove"),
    ("unaryremove", "unarycycleremove"),
    ("unaryremove", "nullaryremove"),
    ("nullaryremove", "unaryremove"),
    ("cnf", "cnf"),
    ("cnf", "renumber", "cnf"),
    CNF_STAGES,
    ("binarize", "binarize"),
    ("binarize", "separate_terminals", "nullaryremove[binarize=False]"),
    ("separate_start", "separate_start"),
    ("separate_start", "nullaryremove", "separate_start"),
    ("separate_terminals", "separate_terminals"),
    ("separate_terminals", "binarize", "unarycycleremove"),
    ("trim", "cotrim"),
    ("cotrim", "trim", "unaryremove"),
    ("renumber", "renumber"),
    ("renumber", "unarycycleremove", "renumber"),
    ("rename[tuple]", "unarycycleremove", "rename[tuple]"),
    ("rename[tuple]", "rename[tuple]", "nullaryremove"),
    ("unarycycleremove", "rename[tuple]", "unarycycleremove"),
    ("unarycycleremove", "cnf"),
    ("unarycycleremove", "binarize", "unarycycleremove[trim=False]"),
]

PAIR_CORE = ["trim", "binarize", "separate_start", "separate_terminals", "nullaryremove", "nullaryremove[binarize=False,trim=False]",
             "unaryremove", "unarycycleremove", "unarycycleremove[trim=False]", "cnf", "renumber", "rename[tuple]"]


def chains(tier, rng, n_random=0):
    """Named chains (always) + all ordered pairs of PAIR_CORE (thorough) + random triples."""
    out = list(NAMED_CHAINS)
    if tier != "quick":
        out += [(a, b) for a in PAIR_CORE for b in PAIR_CORE if (a, b) not in out]
    for _ in range(n_random):
        out.append(tuple(rng.choice(PAIR_CORE) for _ in range(3)))
    return out


# ------------------------------------------------------------------ long members of the language
def long_string(g, target, rng, cap=4000):
    """Some string of L(g) with length >= target, by random leftmost expansion of useful rules followed
    by minimal completion; None when no such string is found (finite or empty language)."""
    gen, reach = generating_reachable(g)
    if g.S not in gen:
        return None
    rules = [(h, b) for _, h, b in g.rules if h in reach and all(y in gen for y in b)]
    by = {}
    for h, b in rules:
        by.setdefault(h, []).append(b)
    # minimal yield length per nonterminal (Bellman-Ford style)
    INF = float("inf")
    mn = {X: INF for X in by}
    best = {}
    changed = True
    while changed:
        changed = False
        for h, b in rules:
            c = sum(1 if y in g.V else mn.get(y, INF) for y in b)
            if c < mn[h]:
                mn[h] = c
                best[h] = b
                changed = True
    if g.S not in mn or mn[g.S] == INF:
        return None
    # nonterminals from which a dependency cycle is reachable (only those can yield arbitrarily long strings)
    dep = {X: {y for b in bs for y in b if y not in g.V} for X, bs in by.items()}
    reach_nt = {X: set(ys) for X, ys in dep.items()}
    changed = True
    while changed:
        changed = False
        for X in reach_nt:
            new = set()
            for y in reach_nt[X]:
                new |= reach_nt.get(y, set())
            if not new <= reach_nt[X]:
                reach_nt[X] |= new
                changed = True
    cyclic = {X for X in reach_nt if X in reach_nt[X]}
    grow_nt = {X for X in reach_nt if X in cyclic or reach_nt[X] & cyclic}
    if g.S not in grow_nt:
        return None             # finite language (longest member not searched for)
    best_out = None
    for _attempt in range(8):
        form = [g.S]
        size = mn[g.S]
        for _ in range(min(cap, 8 * target + 100)):
            nt_pos = [i for i, y in enumerate(form) if y not in g.V]
            if size >= target or not nt_pos or len(form) > 3 * target + 20:
                break
            alive = [i for i in nt_pos if form[i] in grow_nt]
            i = rng.choice(alive or nt_pos)
            cands = by[form[i]]
            rec = [b for b in cands if any(y in grow_nt for y in b)]                 # keeps the derivation alive
            b = rng.choice(rec or cands)
            size += sum(1 if y in g.V else mn[y] for y in b) - mn[form[i]]
            form[i:i + 1] = list(b)
        # minimal completion
        out = []
        stack = list(reversed(form))
        while stack and len(out) <= 20 * cap:
            y = stack.pop()
            if y in g.V:
                out.append(y)
            else:
                stack.extend(reversed(best[y]))
        if not stack and (best_out is None or len(out) > len(best_out)):
            best_out = out
        if best_out is not None and len(best_out) >= target:
            break
    return tuple(best_out) if best_out is not None and len(best_out) >= target else None


def replay_with_hashseed(doc, module):
    """Re-run a stored failing case in a child interpreter under the PYTHONHASHSEED it was found with (set iteration
    order decides e.g. the agenda's pop order).  Returns the child's exit code, or None when this interpreter already
    runs under that seed (the caller then replays in-process)."""
    import json
    import os
    import subprocess
    import sys
    hs = str(doc.get("replay", {}).get("hashseed", ""))
    if not hs.isdigit() or os.environ.get("PYTHONHASHSEED") == hs:
        return None
    code = ("import json, sys, importlib\n"
            "from props import common\n"
            "m = importlib.import_module(sys.argv[1])\n"
            "sys.exit(common.generic_replay(json.load(sys.stdin), m.check_case))\n")
    r = subprocess.run([sys.executable, "-c", code, module], input=json.dumps(doc), text=True,
                       env=dict(os.environ, PYTHONHASHSEED=hs))
    return r.returncode


def selfcheck():
    """Validate the helpers against brute force: long_string members have non-zero weight under the
    derivation-sum spec (Boolean), productive grammars have a non-empty language, int_terminals is a bijective relabelling."""
    from .spec import cfgspec, algebra
    rng = random.Random(1)
    n = 0
    for _ in range(60):
        g = productive_grammar(rng)
        gb = G(g.S, g.V, [(True, h, b) for _, h, b in g.rules])
        assert g.S in generating_reachable(g)[0]
        s = long_string(g, 6, rng)
        if s is not None:
            assert len(s) >= 6
            s2 = s if len(s) <= 14 else None
            if s2 is not None:
                assert cfgspec.cfg_weight(algebra.BOOL, gb, s2)[0] is True, (g, s2)
                n += 1
        gi = int_terminals(gb)
        for x in cfgspec.strings_upto(g.V, 3):
            m = {a: i for i, a in enumerate(sorted(g.V))}
            assert cfgspec.cfg_weight(algebra.BOOL, gb, x)[0] == cfgspec.cfg_weight(algebra.BOOL, gi, tuple(m[a] for a in x))[0]
    for name, shp in domains.grammar_corpus().items():
        s = long_string(shp, 8, rng)
        if s is not None and len(s) <= 14:
            gb = G(shp.S, shp.V, [(True, h, b) for _, h, b in shp.rules])
            assert cfgspec.cfg_weight(algebra.BOOL, gb, s)[0] is True, (name, s)
            n += 1
    assert n > 30, n
    pg = pcfg_weights(domains.grammar_corpus()["palindrome"])
    assert sum(w for w, _, _ in pg.rules) == 1
    return n


if __name__ == "__main__":
    print("dom_cfg selfcheck ok:", selfcheck())

"""Bounded engine: runs a property's contract-evaluation function over a list of cases in worker
processes, optionally repeated under several PYTHONHASHSEED values (fresh interpreters via `spawn`).

A case function has signature  f(case) -> dict(n=int, keys=[...], violations=[...], sample=any)
  n           number of contract evaluations performed
  keys        hashable ids of the distinct non-trivial evaluations
  violations  list of dict(obligation=str, what=str, replay=dict, signature=str)
  undecided   optional list of (obligation, reason)
Exceptions escaping f are checker crashes (exit 3), not verdicts.
"""
import importlib
import multiprocessing as mp
import os
import sys
import traceback
import warnings

from .bridge_light import Timeout, watchdog

WORKERS = int(os.environ.get("VERIF_WORKERS", "16"))


def _work(args):
    modname, fname, chunk, per_case_timeout = args
    warnings.filterwarnings("ignore")
    mod = importlib.import_module(modname)
    f = getattr(mod, fname)
    out = []
    for case in chunk:
        try:
            with watchdog(per_case_timeout):
                r = f(case)
        except Timeout as e:
            r = dict(n=1, keys=[], violations=[], undecided=[(f"{modname}.{fname}", f"case timeout: {e}; case={_short(case)}")])
        except Exception as e:  # checker bug or unexpected repo exception not handled by the property function
            r = dict(n=0, keys=[], violations=[], crash=f"{type(e).__name__}: {e}\n{traceback.format_exc()}\ncase={_short(case)}")
        r.setdefault("hashseed", os.environ.get("PYTHONHASHSEED", "random"))
        out.append(r)
    return out


def _short(case):
    s = repr(case)
    return s if len(s) < 600 else s[:600] + "..."


def run_cases(run, modname, fname, cases, hash_seeds=(0,), per_case_timeout=60, chunk=None, workers=None, split=False):
    """split=True: every case runs under exactly one of the hash seeds (round robin); otherwise under all of them."""
    cases = list(cases)
    if not cases:
        return
    workers = workers or WORKERS
    # starting a worker costs several seconds (importing the library pulls in scipy/matplotlib through arsenal):
    # do not start more workers than the job can keep busy
    workers = min(workers, max(len(hash_seeds), len(cases) // 25 + 1))
    per_seed_workers = max(1, workers // max(1, len(hash_seeds)))
    if chunk is None:
        chunk = max(1, min(25, len(cases) // (per_seed_workers * 4) or 1))
    def chunks_for(k):
        cs = cases[k::len(hash_seeds)] if split else cases
        return [cs[i:i + chunk] for i in range(0, len(cs), chunk)]
    ctx = mp.get_context("spawn")
    pools = []
    results = []
    old = os.environ.get("PYTHONHASHSEED")
    try:
        for k, hs in enumerate(hash_seeds):
            chunks = chunks_for(k)
            os.environ["PYTHONHASHSEED"] = str(hs)
            pool = ctx.Pool(per_seed_workers)
            pools.append(pool)
            results.append(pool.imap_unordered(_work, [(modname, fname, c, per_case_timeout) for c in chunks]))
        if old is None:
            os.environ.pop("PYTHONHASHSEED", None)
        else:
            os.environ["PYTHONHASHSEED"] = old
        crashes = []
        for it in results:
            for batch in it:
                for r in batch:
                    if r.get("crash"):
                        crashes.append(r["crash"])
                        continue
                    run.count(r.get("n", 0))
                    for k in r.get("keys", []):
                        run.nontrivial.add(k)
                    if r.get("sample") is not None:
                        run.sample(r["sample"])
                    for v in r.get("violations", []):
                        rp = dict(v.get("replay", {}))
                        rp.setdefault("hashseed", r.get("hashseed"))
                        run.violation(v["obligation"], v["what"], rp, signature=v.get("signature"))
                    for a, b in r.get("undecided", []):
                        run.mark_undecided(a, b)
        if crashes:
            # a case function that crashes is a checker error (exit 3) - unless other cases of the same run found violations, which
            # are then reported (exit 1) with the crash recorded in the evidence notes
            if not run.violations:
                raise RuntimeError(f"bounded engine: {len(crashes)} case function(s) crashed:\n" + crashes[0])
            run.notes.append(f"{len(crashes)} case function(s) crashed in the bounded engine: " + crashes[0][:400])
    finally:
        for p in pools:
            p.terminate()
            p.join()

"""Faster drop-in variants of the spec semiring ops of algebra.py (no genlm import).

The spec functions spend most of their time in `ops.is_zero(a)` = `a == ops.zero`; comparing a float with
`Fraction(0)` goes through the slow mixed-type path of `fractions`.  The variants below only override
`is_zero` (truthiness: `not a` is equivalent to `a == 0` for int/float/Fraction/bool) and, for the float
variant, use float constants so that float-weighted snapshots never mix with Fractions.

  FQ        exact rationals (same constants as algebra.Q)
  FQF       floats (zero=0.0, one=1.0) - for snapshots whose weights are machine floats
  FBOOL, FMAXTIMES, FMAXPLUS

`for_semiring(name, exact)` picks the variant for a bridge semiring name.  `selfcheck()` compares every
variant with the reference ops on the derivation-sum spec over a grammar sample.
"""
import math
from fractions import Fraction

from . import algebra


class _FQ(algebra.QOps):
    def is_zero(self, a):
        return not a


class _FQF(algebra.QOps):
    zero = 0.0
    one = 1.0

    def is_zero(self, a):
        return not a


class _FBool(algebra.BoolOps):
    def is_zero(self, a):
        return not a


class _FMaxTimes(algebra.MaxTimesOps):
    def is_zero(self, a):
        return not a


class _FMaxPlus(algebra.MaxPlusOps):
    def is_zero(self, a):
        return a == -math.inf


FQ = _FQ()
FQF = _FQF()
FBOOL = _FBool()
FMAXTIMES = _FMaxTimes()
FMAXPLUS = _FMaxPlus()

_BY_REF = {id(algebra.Q): FQ, id(algebra.BOOL): FBOOL, id(algebra.MAXTIMES): FMAXTIMES, id(algebra.MAXPLUS): FMAXPLUS}


def fast(ops, floats=False):
    """The fast variant of a reference ops object; floats=True selects FQF for the rational ops."""
    if ops is algebra.Q and floats:
        return FQF
    return _BY_REF.get(id(ops), ops)


def selfcheck(n=60):
    import random
    from . import cfgspec
    from .. import domains
    rng = random.Random(5)
    shapes = list(domains.grammar_corpus().values()) + [domains.random_grammar(rng) for _ in range(n)]
    checked = 0
    for shp in shapes:
        s = domains.convergent_scale(shp, algebra.Q)
        if s is None:
            continue
        g = domains.reweight(shp, s)
        xs = cfgspec.strings_upto(g.V, 3)
        variants = [
            (algebra.Q, FQ, g, True),
            (algebra.Q, FQF, g.map_weights(float), False),
            (algebra.BOOL, FBOOL, g.map_weights(lambda w: w != 0), True),
            (algebra.MAXTIMES, FMAXTIMES, g, True),
            (algebra.MAXPLUS, FMAXPLUS, g.map_weights(lambda w: math.log(float(w))), True),
        ]
        for ref, fst, gg, same in variants:
            for x in xs:
                try:
                    a = cfgspec.cfg_weight(ref, gg, x)[0]
                except ArithmeticError:
                    continue
                b = cfgspec.cfg_weight(fst, gg, x)[0]
                if same and not isinstance(a, float) and not isinstance(b, float):
                    assert a == b, (ref.name, x, a, b)
                else:
                    assert a == b or abs(float(a) - float(b)) <= 1e-12 * max(1.0, abs(float(a))), (ref.name, x, a, b)
                checked += 1
            try:
                ta = cfgspec.treesums(ref, gg)[0]
            except ArithmeticError:
                continue
            tb = cfgspec.treesums(fst, gg)[0]
            for X in ta:
                assert ta[X] == tb[X] or abs(float(ta[X]) - float(tb[X])) <= 1e-12 * max(1.0, abs(float(ta[X]))), (ref.name, X)
    assert checked > 1000
    return checked


if __name__ == "__main__":
    print("fastops selfcheck ok:", selfcheck())

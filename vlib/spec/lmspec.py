"""Independent specification of the language-model view of a weighted CFG (C01, C03, C04, C20).  No genlm import.

  add_eos(g, eos, one)          neutral EOS-augmented grammar   S' -> S eos   (S' a fresh name)
  next_weights(ops, ge, c)      {t: PW_ge(c.t)} for every token t of ge.V      (PW = cfgspec.prefix_weight)
  next_dist(ops, ge, c)         the same divided by its sum (None when the context is not viable)
  normalize(g)                  spec-side local normalisation over Q: w' = w * prod Z[body] / Z[head]
  log_of(q)                     natural log of a positive Fraction without float underflow

`selfcheck()` validates each of them against brute-force derivation enumeration (cfgspec.brute_weight)
on finite-language grammars, where every sum is a finite sum that can be written out.
"""
import math
from fractions import Fraction

from . import cfgspec
from .algebra import Q, BOOL
from .cfgspec import G

START = "<S+EOS>"


def add_eos(g, eos, one=Fraction(1), start=START):
    assert eos not in g.V and start not in g.N and start not in g.V
    return G(start, frozenset(g.V) | {eos}, [(one, start, (g.S, eos))] + list(g.rules))


def next_weights(ops, ge, c):
    """{t: total weight of all strings of ge that start with c.t}; second component: all exact."""
    c = tuple(c)
    out = {}
    exact = True
    for t in sorted(ge.V, key=repr):
        v, ex = cfgspec.prefix_weight(ops, ge, c + (t,))
        out[t] = v
        exact = exact and ex
    return out, exact


def next_dist(ops, ge, c):
    w, exact = next_weights(ops, ge, c)
    z = ops.sum(w.values())
    if ops.is_zero(z):
        return None, exact
    return {t: v / z for t, v in w.items()}, exact


def normalize(g):
    """(g', Z, exact): locally normalised grammar over Q.  Rules whose head has Z = 0 or whose pushed weight is 0
    are dropped (they carry no mass)."""
    Z, exact = cfgspec.treesums(Q, g)
    rules = []
    for w, h, b in g.rules:
        if Z[h] == 0:
            continue
        v = w
        for y in b:
            if y not in g.V:
                v = v * Z[y]
        v = v / Z[h]
        if v != 0:
            rules.append((v, h, b))
    return G(g.S, g.V, rules), Z, exact


def log_of(q):
    """log of a positive number; Fractions are handled through big-int logs (no underflow)."""
    if isinstance(q, Fraction):
        return math.log(q.numerator) - math.log(q.denominator)
    return math.log(q)


def short(x, limit=400):
    """repr for replay documents that survives huge exact rationals (Python refuses to print > 4300 digits)."""
    try:
        r = repr(x)
    except ValueError:
        try:
            r = "~" + repr(float(x))
        except (TypeError, ValueError, OverflowError):
            r = f"<unprintable {type(x).__name__}>"
    return r if len(r) <= limit else r[:limit] + "..."


# ------------------------------------------------------------------------------------------ validation
def _finite_shapes():
    F = Fraction
    V = frozenset("ab")
    return [
        G("S", V, [(F(1, 2), "S", ("a", "A")), (F(1, 3), "S", ("A", "A")), (F(1, 5), "A", ("b",)), (F(1, 7), "A", ()),
                   (F(1, 11), "S", ("U",)), (F(1, 13), "U", ("U2", "a")), (F(1, 17), "B", ("b",))]),      # U2 unproductive, B unreachable
        G("S", V, [(F(1, 2), "S", ()), (F(1, 3), "S", ("a",)), (F(1, 5), "S", ("a", "b")), (F(1, 7), "S", ("T",)),
                   (F(1, 3), "T", ("b", "a", "b"))]),
        G("S", V, [(F(2, 3), "S", ("A", "B")), (F(1, 2), "A", ("a",)), (F(1, 4), "A", ()), (F(1, 5), "B", ("b",)),
                   (F(1, 6), "B", ("A", "A"))]),
        G("S", V, [(F(1, 3), "S", ("S2",)), (F(1, 3), "S2", ("S2", "a"))]),                                 # empty language
    ]


def selfcheck():
    """Brute-force validation; raises AssertionError on any disagreement.  Returns the number of comparisons."""
    n = 0
    eos = "$"
    H = 8  # every derivation of the shapes above has height <= 5
    for g in _finite_shapes():
        ge = add_eos(g, eos)
        V = sorted(g.V)
        xs = cfgspec.strings_upto(V, 4)                       # contains every string of every language above
        bw = {x: cfgspec.brute_weight(Q, g, x, H) for x in xs}
        assert all(cfgspec.brute_weight(Q, g, x, H + 3) == bw[x] for x in xs)
        # add_eos: weight(x) on x.eos; zero without / with an inner / with two eos
        for x in xs:
            assert cfgspec.brute_weight(Q, ge, x + (eos,), H + 1) == bw[x]
            assert cfgspec.brute_weight(Q, ge, x, H + 1) == 0
            assert cfgspec.brute_weight(Q, ge, x + (eos, eos), H + 1) == 0
            n += 3
            for i in range(len(x)):
                assert cfgspec.brute_weight(Q, ge, x[:i] + (eos,) + x[i:], H + 1) == 0
                assert cfgspec.brute_weight(Q, ge, x[:i] + (eos,) + x[i:] + (eos,), H + 1) == 0
                n += 2
        # next_weights / next_dist: PW(c.t) is the finite sum over the language; eos gets weight(c)
        total = sum(bw.values())
        for c in cfgspec.strings_upto(V, 3):
            w, exact = next_weights(Q, ge, c)
            assert exact
            for t in V:
                want = sum(v for x, v in bw.items() if x[:len(c) + 1] == c + (t,))
                assert w[t] == want, (g, c, t, w[t], want)
                assert cfgspec.viable(ge, c + (t,)) == (want != 0)
                n += 2
            assert w[eos] == bw[c]
            pw_c = sum(v for x, v in bw.items() if x[:len(c)] == c)
            assert sum(w.values()) == pw_c                     # telescoping
            d, _ = next_dist(Q, ge, c)
            assert (d is None) == (pw_c == 0)
            if d is not None:
                assert sum(d.values()) == 1
            n += 3
        # normalize: per-head sums one, total one, weights divided by Z
        gn, Z, exact = normalize(g)
        assert exact and Z[g.S] == total
        heads = {h for _, h, _ in gn.rules}
        for h in heads:
            assert sum(w for w, h2, _ in gn.rules if h2 == h) == 1
            n += 1
        for x in xs:
            got = cfgspec.brute_weight(Q, gn, x, H)
            if total != 0:
                assert got * total == bw[x], (x, got, total, bw[x])
            else:
                assert got == 0
            n += 1
        if total != 0:
            assert cfgspec.treesums(Q, gn)[0][gn.S] == 1
    assert abs(log_of(Fraction(1, 10 ** 400)) + 400 * math.log(10)) < 1e-9
    assert short(Fraction(1, 10 ** 5000)) == "~0.0" and short(Fraction(1, 3)) == "Fraction(1, 3)"
    return n


if __name__ == "__main__":
    print("lmspec selfcheck ok:", selfcheck(), "comparisons")

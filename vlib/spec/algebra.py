"""Semiring 'ops' used by the independent spec functions.  Nothing here imports genlm.

Every Ops object provides zero, one, add, mul, eq, close(a,b,tol), and a way to solve
x = M x + b (least solution) for a square matrix M: `closure(M)` returns M* = sum_k M^k.

QOps   : rationals (fractions.Fraction) - exact; closure by Gauss-Jordan on (I - M).
         Values may degrade to float when a *nonlinear* system had to be solved by Newton
         iteration (then `approx` is reported by the caller).
BoolOps, MaxTimesOps, MaxPlusOps : idempotent, bounded (a <= one), closure by iteration.
"""
from fractions import Fraction
import math


class Ops:
    name = "?"
    idempotent = False

    def sum(self, xs):
        t = self.zero
        for x in xs:
            t = self.add(t, x)
        return t

    def prod(self, xs):
        t = self.one
        for x in xs:
            t = self.mul(t, x)
        return t

    def is_zero(self, a):
        return self.eq(a, self.zero)

    def eq(self, a, b):
        return a == b

    def close(self, a, b, tol=1e-9):
        return self.eq(a, b)

    # matrices are dicts of dicts over an index list
    def closure(self, idx, M):
        """M* for the square matrix M[i][j] over indices idx (idempotent bounded default)."""
        n = len(idx)
        K = {i: {j: (self.one if i == j else self.zero) for j in idx} for i in idx}
        for _ in range(n + 1):
            new = {i: {j: (self.one if i == j else self.zero) for j in idx} for i in idx}
            for i in idx:
                for k in idx:
                    if self.is_zero(M[i][k]):
                        continue
                    for j in idx:
                        new[i][j] = self.add(new[i][j], self.mul(M[i][k], K[k][j]))
            if all(self.eq(new[i][j], K[i][j]) for i in idx for j in idx):
                return new
            K = new
        # bounded idempotent semirings converge in <= n rounds
        raise ArithmeticError("closure did not converge (weights above one in an idempotent semiring?)")


class QOps(Ops):
    name = "Q"
    zero = Fraction(0)
    one = Fraction(1)

    def add(self, a, b):
        return a + b

    def mul(self, a, b):
        return a * b

    def close(self, a, b, tol=1e-9):
        if a == b:
            return True
        a = float(a)
        b = float(b)
        if math.isnan(a) or math.isnan(b):
            return False
        return abs(a - b) <= tol * max(1.0, abs(a), abs(b))

    def closure(self, idx, M):
        # (I - M)^{-1} by exact Gauss-Jordan.  Equal to sum_k M^k iff the series converges
        # (spectral radius < 1); the domains scale weights so that it does, and
        # `converges(idx, M)` below is asserted by callers that need it.
        n = len(idx)
        A = [[(self.one if r == c else self.zero) - M[idx[r]][idx[c]] for c in range(n)] +
             [(self.one if r == c else self.zero) for c in range(n)] for r in range(n)]
        for col in range(n):
            piv = None
            for r in range(col, n):
                if A[r][col] != 0:
                    piv = r
                    break
            if piv is None:
                raise ArithmeticError("singular (I - M): divergent sum")
            A[col], A[piv] = A[piv], A[col]
            p = A[col][col]
            A[col] = [v / p for v in A[col]]
            for r in range(n):
                if r != col and A[r][col] != 0:
                    f = A[r][col]
                    A[r] = [a - f * b for a, b in zip(A[r], A[col])]
        return {idx[r]: {idx[c]: A[r][n + c] for c in range(n)} for r in range(n)}

    def converges(self, idx, M, rounds=200):
        """Cheap sufficient check that sum_k M^k converges: some power has max row sum < 1."""
        n = len(idx)
        if n == 0:
            return True
        P = [[float(abs(M[i][j])) for j in idx] for i in idx]
        cur = [row[:] for row in P]
        for _ in range(rounds):
            if max(sum(r) for r in cur) < 1 - 1e-12:
                return True
            cur = [[sum(cur[i][k] * P[k][j] for k in range(n)) for j in range(n)] for i in range(n)]
            if max(max(r) for r in cur) > 1e30:
                return False
        return False


class BoolOps(Ops):
    name = "Boolean"
    idempotent = True
    zero = False
    one = True

    def add(self, a, b):
        return a or b

    def mul(self, a, b):
        return a and b


class MaxTimesOps(Ops):
    """max / times on [0, 1] (weights above one would make the best derivation ill-defined)."""
    name = "MaxTimes"
    idempotent = True
    zero = Fraction(0)
    one = Fraction(1)

    def add(self, a, b):
        return max(a, b)

    def mul(self, a, b):
        return a * b

    def close(self, a, b, tol=1e-9):
        return a == b or abs(float(a) - float(b)) <= tol * max(1.0, abs(float(a)), abs(float(b)))


class MaxPlusOps(Ops):
    """max / plus on [-inf, 0]."""
    name = "MaxPlus"
    idempotent = True
    zero = -math.inf
    one = 0

    def add(self, a, b):
        return max(a, b)

    def mul(self, a, b):
        if a == -math.inf or b == -math.inf:
            return -math.inf
        return a + b

    def close(self, a, b, tol=1e-9):
        if a == b:
            return True
        if a == -math.inf or b == -math.inf:
            return False
        return abs(float(a) - float(b)) <= tol * max(1.0, abs(float(a)), abs(float(b)))


Q = QOps()
BOOL = BoolOps()
MAXTIMES = MaxTimesOps()
MAXPLUS = MaxPlusOps()

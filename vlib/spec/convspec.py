"""Independent specification helpers for the conversion properties C17, C18, C19.  No genlm import.

  utf8(ch) / encode(symbols) / decode(bs)   hand-written UTF-8 (RFC 3629) encoder and strict decoder
  segmentations(bs, symbols)                all symbol strings whose UTF-8 encoding is the byte string bs
  wfsa_language(ops, a, bound, size)        {string: weight} of ALL strings of size <= bound with non-zero weight
                                            (forward vectors, exact epsilon closure, zero-prefix pruning)
  cfg_language(g, bound, term_lang, size)   Boolean: for every nonterminal the set of all strings of size <= bound it
                                            derives (least fixed point of the rule equations on string sets)
  regex_language(pattern, sigma, n, flags)  {s in sigma^{<=n} : re.fullmatch(pattern, s)}  (brute force over all strings)
  strings_over(sigma, n)                    all tuples over sigma of length <= n
  strings_by_bytes(sigma, maxbytes)         all strs over sigma whose encoding has <= maxbytes bytes

A "string" is a tuple of symbols.  `size` maps a symbol to its length (1 by default; the number of UTF-8 bytes when the
bound is a byte bound).  `selfcheck()` validates every function against a brute-force definition / the shared spec.
"""
import itertools
import re
from collections import defaultdict

from . import fsaspec

EPS = fsaspec.EPS


# ---------------------------------------------------------------------------------------------- UTF-8
def utf8(ch):
    """UTF-8 encoding of one character, from the bit layout of RFC 3629 (not str.encode)."""
    cp = ord(ch)
    if cp < 0x80:
        return (cp,)
    if cp < 0x800:
        return (0xC0 | (cp >> 6), 0x80 | (cp & 0x3F))
    if cp < 0x10000:
        if 0xD800 <= cp <= 0xDFFF:
            raise ValueError("surrogate")
        return (0xE0 | (cp >> 12), 0x80 | ((cp >> 6) & 0x3F), 0x80 | (cp & 0x3F))
    return (0xF0 | (cp >> 18), 0x80 | ((cp >> 12) & 0x3F), 0x80 | ((cp >> 6) & 0x3F), 0x80 | (cp & 0x3F))


def encode(symbols):
    """Byte tuple of a sequence of symbols, each symbol a (possibly multi-character) str."""
    out = []
    for s in symbols:
        for ch in s:
            out.extend(utf8(ch))
    return tuple(out)


def decode(bs):
    """Strict decoder: the text whose encoding is bs, or None (truncated, stray continuation, overlong, > U+10FFFF)."""
    out = []
    i = 0
    n = len(bs)
    while i < n:
        b = bs[i]
        if b < 0x80:
            k, cp, lo = 0, b, 0
        elif 0xC0 <= b < 0xE0:
            k, cp, lo = 1, b & 0x1F, 0x80
        elif 0xE0 <= b < 0xF0:
            k, cp, lo = 2, b & 0x0F, 0x800
        elif 0xF0 <= b < 0xF8:
            k, cp, lo = 3, b & 0x07, 0x10000
        else:
            return None
        if i + k > n - 1:
            return None          # truncated character
        for j in range(1, k + 1):
            c = bs[i + j]
            if not 0x80 <= c < 0xC0:
                return None
            cp = (cp << 6) | (c & 0x3F)
        if cp < lo or cp > 0x10FFFF or 0xD800 <= cp <= 0xDFFF:
            return None
        out.append(chr(cp))
        i += k + 1
    return "".join(out)


def segmentations(bs, symbols):
    """All tuples over `symbols` (non-empty strs) whose encoding is exactly the byte tuple bs."""
    bs = tuple(bs)
    encs = [(s, encode((s,))) for s in sorted(set(symbols))]
    memo = {}

    def rec(i):
        if i == len(bs):
            return [()]
        if i in memo:
            return memo[i]
        out = []
        for s, e in encs:
            if e and bs[i:i + len(e)] == e:
                out.extend((s,) + rest for rest in rec(i + len(e)))
        memo[i] = out
        return out

    return rec(0)


def strings_over(sigma, n):
    sigma = sorted(set(sigma), key=repr)
    out = [()]
    frontier = [()]
    for _ in range(n):
        frontier = [s + (a,) for s in frontier for a in sigma]
        out.extend(frontier)
    return out


def strings_by_bytes(sigma, maxbytes, maxchars=None):
    """All strings (as str) over the characters sigma whose UTF-8 encoding has at most maxbytes bytes."""
    sizes = {c: len(utf8(c)) for c in set(sigma)}
    out = []

    def rec(s, used):
        out.append(s)
        if maxchars is not None and len(s) >= maxchars:
            return
        for c in sorted(sizes):
            if used + sizes[c] <= maxbytes:
                rec(s + c, used + sizes[c])

    rec("", 0)
    return out


# ---------------------------------------------------------------------------------------------- automata
def wfsa_language(ops, a, bound, size=None):
    """({string: weight != 0 for all strings of size <= bound}, number of strings whose forward vector was computed).

    A string absent from the result has weight zero: its forward vector (or that of a prefix) is the zero vector.
    """
    size = size or (lambda s: 1)
    idx, K = fsaspec.eps_closure(ops, a)
    Ks = {i: [(j, K[i][j]) for j in idx if not ops.is_zero(K[i][j])] for i in idx}
    by = defaultdict(lambda: defaultdict(list))
    for i, s, j, w in a.arcs:
        if s != EPS and not ops.is_zero(w):
            by[s][i].append((j, w))
    syms = sorted(by, key=repr)
    stop = {i: w for i, w in a.stop.items() if not ops.is_zero(w)}

    def close(v):
        out = {}
        for i, vi in v.items():
            for j, k in Ks[i]:
                t = ops.mul(vi, k)
                out[j] = ops.add(out[j], t) if j in out else t
        return {j: w for j, w in out.items() if not ops.is_zero(w)}

    lang = {}
    visited = [0]

    def rec(x, v, used):
        visited[0] += 1
        w = ops.zero
        for i, vi in v.items():
            if i in stop:
                w = ops.add(w, ops.mul(vi, stop[i]))
        if not ops.is_zero(w):
            lang[x] = w
        for s in syms:
            c = size(s)
            if used + c > bound:
                continue
            nxt = {}
            arcs = by[s]
            for i, vi in v.items():
                for j, aw in arcs.get(i, ()):
                    t = ops.mul(vi, aw)
                    nxt[j] = ops.add(nxt[j], t) if j in nxt else t
            nxt = {j: t for j, t in nxt.items() if not ops.is_zero(t)}
            if not nxt:
                visited[0] += 1
                continue
            rec(x + (s,), close(nxt), used + c)

    start = {i: w for i, w in a.start.items() if not ops.is_zero(w) and i in Ks}
    rec((), close(start), 0)
    return lang, visited[0]


# ---------------------------------------------------------------------------------------------- grammars
def cfg_language(g, bound, term_lang=None, size=None):
    """{nonterminal: set of strings of size <= bound} - the Boolean language of every nonterminal of g = (S, V, rules).

    term_lang: optional {terminal: set of strings it stands for} (default: the one-symbol string of the terminal).
    Weights are ignored except that rules are taken as present (the caller drops zero-weight rules).
    """
    size = size or (lambda s: 1)

    def ssize(x):
        return sum(size(s) for s in x)

    N = g.N
    L = {X: defaultdict(set) for X in N}          # X -> size -> strings

    tl = {}
    for t in g.V:
        d = defaultdict(set)
        for x in (term_lang[t] if term_lang is not None and t in term_lang else [(t,)]):
            k = ssize(x)
            if k <= bound:
                d[k].add(tuple(x))
        tl[t] = d

    def lang_of(y):
        return tl[y] if y in g.V else L[y]

    rules = [(h, b) for _, h, b in g.rules]
    changed = True
    while changed:
        changed = False
        for h, b in rules:
            cur = {0: {()}}
            for y in b:
                S = lang_of(y)
                nxt = defaultdict(set)
                for k1, us in cur.items():
                    for k2, vs in S.items():
                        if k1 + k2 > bound or not vs:
                            continue
                        tgt = nxt[k1 + k2]
                        if k1 == 0:
                            tgt |= vs
                        else:
                            for u in us:
                                for v in vs:
                                    tgt.add(u + v)
                cur = {k: s for k, s in nxt.items() if s}
                if not cur:
                    break
            for k, s in cur.items():
                new = s - L[h][k]
                if new:
                    L[h][k] |= new
                    changed = True
    return {X: set().union(*L[X].values()) if L[X] else set() for X in N}


def regex_language(pattern, sigma, n, flags=0):
    """All strings (as str) over sigma of length <= n fully matched by the Python regex."""
    rx = re.compile(pattern, flags)
    out = set()
    sigma = sorted(set(sigma))
    for k in range(n + 1):
        for t in itertools.product(sigma, repeat=k):
            s = "".join(t)
            if rx.fullmatch(s):
                out.add(s)
    return out


# ---------------------------------------------------------------------------------------------- self check
def selfcheck(fast=False):
    import random
    from fractions import Fraction as F
    from .algebra import Q, BOOL
    from .cfgspec import G, cfg_weight, strings_upto
    from .fsaspec import A, wfsa_weight

    # UTF-8: own encoder/decoder against str.encode / bytes.decode on every width and the boundaries
    cps = [0, 0x41, 0x7F, 0x80, 0xE9, 0x7FF, 0x800, 0x20AC, 0xD7FF, 0xE000, 0xFFFF, 0x10000, 0x1F600, 0x10FFFF]
    for cp in cps:
        assert bytes(utf8(chr(cp))) == chr(cp).encode("utf-8"), hex(cp)
    rng = random.Random(7)
    pool = [0x61, 0xC3, 0xA9, 0xE2, 0x82, 0xAC, 0xF0, 0x9F, 0x98, 0x80, 0xC0, 0xED, 0xA0, 0xF4, 0x90, 0xFF, 0x00]
    for n in range(0, 5):
        for bs in itertools.product(pool, repeat=n) if n <= 3 else [tuple(rng.choice(pool) for _ in range(4)) for _ in range(400 if fast else 4000)]:
            try:
                want = bytes(bs).decode("utf-8")
            except UnicodeDecodeError:
                want = None
            assert decode(bs) == want, (bs, decode(bs), want)
    # prefix-freeness (assumption of C17): no proper prefix of a character's encoding is an encoding of a text
    for cp in cps[3:]:
        e = utf8(chr(cp))
        for k in range(1, len(e)):
            assert decode(e[:k]) is None
    # segmentations against brute force
    syms = ["a", "b", "ab", "é", "aé"]
    table = defaultdict(list)                       # brute force: encode every symbol string of <= 6 symbols
    for y in strings_over(syms, 4 if fast else 6):
        table[encode(y)].append(y)
    for x in strings_over(syms, 2):
        bs = encode(x)
        if len(bs) <= (4 if fast else 6):
            assert sorted(segmentations(bs, syms)) == sorted(table[bs]), (x, bs)
    assert segmentations((0xC3,), syms) == [] and segmentations((), syms) == [()]

    # wfsa_language against wfsa_weight on all strings, automata with epsilon cycles
    for trial in range(8 if fast else 60):
        q = rng.randint(1, 3)
        st = list(range(q))
        arcs = [(rng.choice(st), rng.choice(["a", "b", EPS]), rng.choice(st), F(1, rng.choice([2, 3, 5, 7])))
                for _ in range(rng.randint(0, 5))]
        a = A(frozenset(st), {rng.choice(st): F(1, 2)}, {rng.choice(st): F(1, 3)}, arcs)
        for ops, aa in ((Q, a), (BOOL, A(a.states, {k: True for k in a.start}, {k: True for k in a.stop},
                                         [(i, s, j, True) for i, s, j, _ in arcs]))):
            try:
                lang, _ = wfsa_language(ops, aa, 4)
            except ArithmeticError:
                continue
            for x in strings_upto({"a", "b", "c"}, 4):
                w = wfsa_weight(ops, aa, x)
                assert (lang.get(x, ops.zero) == w), (trial, x, w, lang.get(x))
            assert all(not ops.is_zero(w) for w in lang.values())
    # byte-size bound
    a = A(frozenset([0]), {0: F(1)}, {0: F(1)}, [(0, "é", 0, F(1, 2)), (0, "a", 0, F(1, 3))])
    lang, _ = wfsa_language(Q, a, 3, size=lambda s: len(encode((s,))))
    assert set(lang) == {x for x in strings_upto({"a", "é"}, 3) if len(encode(x)) <= 3}

    # cfg_language against cfg_weight over BOOL on all strings (cyclic, nullable, left/right recursive shapes)
    for trial in range(10 if fast else 80):
        N = ["N0", "N1", "N2"][:rng.randint(1, 3)]
        V = ["a", "b"]
        rules = []
        for _ in range(rng.randint(1, 6)):
            ln = rng.choice([0, 1, 1, 2, 2, 3])
            rules.append((True, rng.choice(N), tuple(rng.choice(N + V) for _ in range(ln))))
        g = G("N0", frozenset(V), rules)
        L = cfg_language(g, 4)
        for x in strings_upto(set(V) | {"c"}, 4):
            w, _ = cfg_weight(BOOL, g, x)
            assert (x in L["N0"]) == bool(w), (trial, rules, x, w)
    # terminal languages and sizes
    g = G("S", frozenset(["T", "U"]), [(True, "S", ("T", "S")), (True, "S", ()), (True, "S", ("U",))])
    L = cfg_language(g, 3, term_lang={"T": {("a",), ("a", "b")}, "U": {()}})
    assert L["S"] == {(), ("a",), ("a", "a"), ("a", "b"), ("a", "a", "a"), ("a", "a", "b"), ("a", "b", "a")}
    assert regex_language("a*b?", "ab", 2) == {"", "a", "b", "aa", "ab"}
    assert sorted(strings_by_bytes("aé", 3)) == sorted("".join(x) for x in strings_over("aé", 3) if len(encode(x)) <= 3)
    return True


if __name__ == "__main__":
    selfcheck()
    print("convspec selfcheck ok")

"""Independent specification of weighted automata / transducer semantics.  No genlm import.

A(states, start, stop, arcs): start/stop dicts state->weight, arcs list of (i, label, j, w).
Labels: symbol or EPS ("") for automata; pairs (a, b) with EPS on either side for transducers.

  wfsa_weight(ops, A, x)         path-sum weight of x (epsilon closure exact: E* by ops.closure)
  wfsa_total(ops, A)             total weight of all accepting paths
  fst_weight(ops, T, x, y)       path-sum weight of the pair (x, y)
  to_matrices(A)                 epsilon-free linear representation over Q (start, {a: M}, stop)
  equivalent(A, B)               Tzeng over Q with exact Gaussian elimination: (True, None) or (False, witness)
  hankel_rank(A)                 dimension of the minimal linear representation
"""
from collections import namedtuple
from fractions import Fraction

EPS = ""
A = namedtuple("A", "states start stop arcs")


def _mat(ops, idx, entries):
    M = {i: {j: ops.zero for j in idx} for i in idx}
    for i, j, w in entries:
        M[i][j] = ops.add(M[i][j], w)
    return M


def _vecmat(ops, idx, v, M):
    out = {j: ops.zero for j in idx}
    for i in idx:
        if ops.is_zero(v[i]):
            continue
        for j in idx:
            if not ops.is_zero(M[i][j]):
                out[j] = ops.add(out[j], ops.mul(v[i], M[i][j]))
    return out


def eps_closure(ops, m, is_eps=lambda a: a == EPS):
    idx = sorted(m.states, key=repr)
    E = _mat(ops, idx, [(i, j, w) for i, a, j, w in m.arcs if is_eps(a)])
    if all(ops.is_zero(E[i][j]) for i in idx for j in idx):
        return idx, {i: {j: (ops.one if i == j else ops.zero) for j in idx} for i in idx}
    return idx, ops.closure(idx, E)


def wfsa_weight(ops, m, x):
    idx, K = eps_closure(ops, m)
    v = {i: m.start.get(i, ops.zero) for i in idx}
    v = _vecmat(ops, idx, v, K)
    for a in x:
        Ma = _mat(ops, idx, [(i, j, w) for i, b, j, w in m.arcs if b == a and b != EPS])
        v = _vecmat(ops, idx, _vecmat(ops, idx, v, Ma), K)
    return ops.sum(ops.mul(v[i], m.stop.get(i, ops.zero)) for i in idx)


def wfsa_total(ops, m):
    idx = sorted(m.states, key=repr)
    M = _mat(ops, idx, [(i, j, w) for i, a, j, w in m.arcs])
    K = ops.closure(idx, M)
    v = {i: m.start.get(i, ops.zero) for i in idx}
    v = _vecmat(ops, idx, v, K)
    return ops.sum(ops.mul(v[i], m.stop.get(i, ops.zero)) for i in idx)


def fst_weight(ops, t, x, y):
    """Arcs labelled (a, b); a or b may be EPS; (EPS, EPS) arcs are closed exactly per cell."""
    x = tuple(x)
    y = tuple(y)
    idx, K = eps_closure(ops, t, is_eps=lambda ab: ab == (EPS, EPS) or ab == EPS)
    cell = {}
    for i in range(len(x) + 1):
        for j in range(len(y) + 1):
            v = {q: ops.zero for q in idx}
            if i == 0 and j == 0:
                for q in idx:
                    v[q] = t.start.get(q, ops.zero)
            for p, ab, q, w in t.arcs:
                if ab == EPS or ab == (EPS, EPS):
                    continue
                a, b = ab
                if a != EPS and b != EPS:
                    if i > 0 and j > 0 and x[i - 1] == a and y[j - 1] == b:
                        v[q] = ops.add(v[q], ops.mul(cell[i - 1, j - 1][p], w))
                elif a != EPS:
                    if i > 0 and x[i - 1] == a:
                        v[q] = ops.add(v[q], ops.mul(cell[i - 1, j][p], w))
                else:
                    if j > 0 and y[j - 1] == b:
                        v[q] = ops.add(v[q], ops.mul(cell[i, j - 1][p], w))
            cell[i, j] = _vecmat(ops, idx, v, K)
    v = cell[len(x), len(y)]
    return ops.sum(ops.mul(v[q], t.stop.get(q, ops.zero)) for q in idx)


# ---------------------------------------------------------------- linear algebra over Q


def to_matrices(ops, m):
    """(alphabet, start row vector, {a: matrix}, stop column vector) with epsilon removed exactly."""
    idx, K = eps_closure(ops, m)
    n = len(idx)
    pos = {q: i for i, q in enumerate(idx)}
    Kd = [[K[p][q] for q in idx] for p in idx]
    s = [m.start.get(q, ops.zero) for q in idx]
    s = [sum((s[i] * Kd[i][j] for i in range(n)), Fraction(0)) for j in range(n)]
    alpha = sorted({a for _, a, _, _ in m.arcs if a != EPS}, key=repr)
    mats = {}
    for a in alpha:
        Ma = [[Fraction(0)] * n for _ in range(n)]
        for p, b, q, w in m.arcs:
            if b == a:
                Ma[pos[p]][pos[q]] += w
        mats[a] = [[sum((Ma[i][k] * Kd[k][j] for k in range(n)), Fraction(0)) for j in range(n)] for i in range(n)]
    f = [m.stop.get(q, ops.zero) for q in idx]
    return alpha, s, mats, f


class _Basis:
    """Row-echelon basis of a subspace of Q^n with exact arithmetic."""

    def __init__(self):
        self.rows = []  # (pivot, vector)

    def reduce(self, v):
        v = list(v)
        for piv, r in self.rows:
            if v[piv] != 0:
                f = v[piv] / r[piv]
                v = [a - f * b for a, b in zip(v, r)]
        return v

    def add(self, v):
        v = self.reduce(v)
        for i, a in enumerate(v):
            if a != 0:
                self.rows.append((i, v))
                return True
        return False


def _rowmat(v, M):
    n = len(v)
    m = len(M[0]) if M else 0
    return [sum((v[i] * M[i][j] for i in range(n)), Fraction(0)) for j in range(m)]


def equivalent(ops, a, b):
    """Decide [[a]](x) == [[b]](x) for ALL strings x (Tzeng / Schuetzenberger, exact over Q)."""
    al1, s1, m1, f1 = to_matrices(ops, a)
    al2, s2, m2, f2 = to_matrices(ops, b)
    n1, n2 = len(s1), len(s2)
    alpha = sorted(set(al1) | set(al2), key=repr)
    zero1 = [[Fraction(0)] * n1 for _ in range(n1)]
    zero2 = [[Fraction(0)] * n2 for _ in range(n2)]
    f = list(f1) + [-z for z in f2]
    basis = _Basis()
    work = [((), list(s1) + list(s2))]
    while work:
        w, v = work.pop()
        if not basis.add(v):
            continue
        if sum((x * y for x, y in zip(v, f)), Fraction(0)) != 0:
            return False, w
        for c in alpha:
            v1 = _rowmat(v[:n1], m1.get(c, zero1)) if n1 else []
            v2 = _rowmat(v[n1:], m2.get(c, zero2)) if n2 else []
            work.append((w + (c,), v1 + v2))
    # all reachable forward vectors are orthogonal to f: but the reduced (echelon) vectors are
    # combinations of reachable ones, so orthogonality of the basis suffices; check it explicitly
    for _, r in basis.rows:
        if sum((x * y for x, y in zip(r, f)), Fraction(0)) != 0:
            # a combination is non-orthogonal => some reachable vector is; find it by brute force
            return False, None
    return True, None


def hankel_rank(ops, a):
    al, s, mats, f = to_matrices(ops, a)
    n = len(s)
    if n == 0:
        return 0
    # forward space
    fb = _Basis()
    work = [list(s)]
    while work:
        v = work.pop()
        if fb.add(v):
            for c in al:
                work.append(_rowmat(v, mats[c]))
    F = [r for _, r in fb.rows]
    if not F:
        return 0
    # backward space projected through F:  rank of F * Bk where Bk spans the backward space
    bb = _Basis()
    work = [list(f)]
    cols = []
    while work:
        v = work.pop()
        if bb.add(v):
            cols.append(v)
            for c in al:
                M = mats[c]
                work.append([sum((M[i][j] * v[j] for j in range(n)), Fraction(0)) for i in range(n)])
    B = [r for _, r in bb.rows]
    if not B:
        return 0
    # rank of the matrix H = F B^T
    H = [[sum((x * y for x, y in zip(fr, br)), Fraction(0)) for br in B] for fr in F]
    hb = _Basis()
    return sum(1 for row in H if hb.add(row))

"""Least solutions of polynomial systems  X = sum_m coef_m * prod(symbols_m)  over an Ops.

eqs: dict unknown -> list of (coef, tuple_of_symbols); a symbol is either an unknown (key of
eqs) or a key of `known` (value given).  Returns (values, exact) where exact is False iff a
nonlinear strongly connected block had to be solved numerically (Newton, floats).
No genlm import.
"""
from fractions import Fraction


def sccs(nodes, succ):
    """Tarjan (iterative); returns SCCs in reverse topological order (callees first)."""
    index = {}
    low = {}
    on = set()
    st = []
    out = []
    counter = [0]
    for root in nodes:
        if root in index:
            continue
        work = [(root, iter(succ(root)))]
        index[root] = low[root] = counter[0]
        counter[0] += 1
        st.append(root)
        on.add(root)
        while work:
            v, it = work[-1]
            advanced = False
            for w in it:
                if w not in index:
                    index[w] = low[w] = counter[0]
                    counter[0] += 1
                    st.append(w)
                    on.add(w)
                    work.append((w, iter(succ(w))))
                    advanced = True
                    break
                elif w in on:
                    low[v] = min(low[v], index[w])
            if advanced:
                continue
            work.pop()
            if work:
                u = work[-1][0]
                low[u] = min(low[u], low[v])
            if low[v] == index[v]:
                comp = []
                while True:
                    w = st.pop()
                    on.discard(w)
                    comp.append(w)
                    if w == v:
                        break
                out.append(comp)
    return out


def solve(ops, eqs, known=None, newton_rounds=200):
    known = dict(known or {})
    unknowns = list(eqs)
    uset = set(unknowns)
    if ops.idempotent:
        val = {x: ops.zero for x in unknowns}

        def get(s):
            return val[s] if s in uset else known[s]

        for _ in range(len(unknowns) + 2):
            new = {}
            for x in unknowns:
                t = ops.zero
                for coef, syms in eqs[x]:
                    t = ops.add(t, ops.mul(coef, ops.prod(get(s) for s in syms)))
                new[x] = t
            if all(ops.eq(new[x], val[x]) for x in unknowns):
                return new, True
            val = new
        raise ArithmeticError("idempotent Kleene iteration did not converge")

    # numeric (Q) case
    def succ(x):
        return [s for _, syms in eqs[x] for s in syms if s in uset]

    val = {}
    exact = True

    def get(s):
        if s in val:
            return val[s]
        return known[s]

    for comp in sccs(unknowns, succ):
        cset = set(comp)
        # monomials with coefficient after substituting everything outside the block
        mon = {x: [] for x in comp}
        linear = True
        for x in comp:
            for coef, syms in eqs[x]:
                c = coef
                inside = []
                for s in syms:
                    if s in cset:
                        inside.append(s)
                    else:
                        c = c * get(s)
                if c == 0:
                    continue
                if len(inside) > 1:
                    linear = False
                mon[x].append((c, inside))
        if linear:
            M = {x: {y: ops.zero for y in comp} for x in comp}
            b = {x: ops.zero for x in comp}
            for x in comp:
                for c, inside in mon[x]:
                    if inside:
                        M[x][inside[0]] = M[x][inside[0]] + c
                    else:
                        b[x] = b[x] + c
            if all(M[x][y] == 0 for x in comp for y in comp):
                for x in comp:
                    val[x] = b[x]
            else:
                K = ops.closure(comp, M)
                for x in comp:
                    val[x] = sum((K[x][y] * b[y] for y in comp), ops.zero)
        else:
            exact = False
            n = len(comp)
            pos = {x: i for i, x in enumerate(comp)}
            fm = {x: [(float(c), [pos[s] for s in inside]) for c, inside in mon[x]] for x in comp}
            v = [0.0] * n
            for _ in range(newton_rounds):
                f = [0.0] * n
                J = [[0.0] * n for _ in range(n)]
                for x in comp:
                    i = pos[x]
                    for c, ins in fm[x]:
                        p = c
                        for s in ins:
                            p *= v[s]
                        f[i] += p
                        for t, s in enumerate(ins):
                            d = c
                            for t2, s2 in enumerate(ins):
                                if t2 != t:
                                    d *= v[s2]
                            J[i][s] += d
                # solve (I - J) d = f - v
                A = [[(1.0 if r == c else 0.0) - J[r][c] for c in range(n)] + [f[r] - v[r]] for r in range(n)]
                ok = True
                for col in range(n):
                    piv = max(range(col, n), key=lambda r: abs(A[r][col]))
                    if abs(A[piv][col]) < 1e-300:
                        ok = False
                        break
                    A[col], A[piv] = A[piv], A[col]
                    p = A[col][col]
                    A[col] = [a / p for a in A[col]]
                    for r in range(n):
                        if r != col and A[r][col] != 0.0:
                            g = A[r][col]
                            A[r] = [a - g * b2 for a, b2 in zip(A[r], A[col])]
                if not ok:
                    raise ArithmeticError("Newton: singular Jacobian (critical or divergent system)")
                d = [A[r][n] for r in range(n)]
                v = [a + b2 for a, b2 in zip(v, d)]
                if max(abs(z) for z in d) <= 1e-15 * max(1.0, max(abs(z) for z in v)):
                    break
            else:
                raise ArithmeticError("Newton iteration did not converge")
            if any(z < -1e-12 or z != z or z > 1e12 for z in v):
                raise ArithmeticError("Newton iteration left the non-negative orthant (divergent system)")
            for x in comp:
                val[x] = v[pos[x]]
    return val, exact


def kleene(ops, eqs, known=None, rounds=2000):
    """Plain Kleene iteration in floats (monotone lower bound); used to cross-check Newton."""
    known = dict(known or {})
    unknowns = list(eqs)
    uset = set(unknowns)
    val = {x: 0.0 for x in unknowns}
    for _ in range(rounds):
        new = {}
        for x in unknowns:
            t = 0.0
            for coef, syms in eqs[x]:
                p = float(coef)
                for s in syms:
                    p *= val[s] if s in uset else float(known[s])
                t += p
            new[x] = t
        if max((abs(new[x] - val[x]) for x in unknowns), default=0.0) < 1e-15:
            return new
        val = new
    return val

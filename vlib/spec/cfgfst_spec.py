"""Independent specification of  grammar o transducer  as RELATIONAL composition.  No genlm import.

    [[G o T]](y)  =  sum over input strings x of  [[G]](x) * [[T]](x, y)

The sum over x is infinite as soon as T can read input without writing (an x:eps arc on a cycle), so it is not
evaluated by enumeration.  Route (each step a textbook identity, none of them shared with the library's
construction, which keeps T's epsilon arcs and adds special rules `a -> eps a`, `Other(S) -> Other(S) eps`):

  1. T_y = fstcompose_spec.restrict(T, y, tape=1)   acceptor over the INPUT tape: T_y(x) = [[T]](x, y)
  2. eps_free(T_y)                                   exact epsilon removal (start E*, M_a E*): an epsilon-free linear
                                                     representation (alpha, {M_a}, omega) of the same series
  3. intersect_total(G, rep) = sum_x [[G]](x) rep(x) the classical Bar-Hillel system on an EPSILON-FREE automaton,
         Z[s, X, t] = sum_{X -> Y1..Yk (w)} w * sum_{s=u0,u1,..,uk=t} prod_i Z[u_{i-1}, Yi, ui],   Z[s, a, t] = M_a[s][t],
         total = sum_{s,t} alpha[s] Z[s, S, t] omega[t]
     (pairs (derivation, path) are in bijection with the monomials).  It is solved as a polynomial system: exactly when
     every strongly connected block is linear (polysys.solve), by monotone float iteration otherwise
     (returned flag exact=False -> compare with a tolerance).

Also here: substring_weights(ops, G, strings) - [[G]](s) for many strings from ONE cfgspec.inside_chart over a
superstring (an inside weight depends on the substring only), used to evaluate the neutral snapshot of a composed
grammar on all output strings without recomputing its null weights / unit closure per string.

selfcheck(): against  sum_{|x| <= B} cfg_weight(G, x) * fst_weight(T, x, y)  - equal on transducers whose input length is
bounded (acyclic), a converging lower bound otherwise; substring_weights against cfg_weight.
"""
from fractions import Fraction

from . import polysys
from . import cfgspec
from . import fstcompose_spec as fcs
from .fsaspec import A, EPS, fst_weight


def _support(ops, g, idx, supT):
    sup = {X: set() for X in g.N}

    def sup_of(Y):
        return supT.get(Y, set()) if Y in g.V else sup[Y]

    diag = {(s, s) for s in idx}
    changed = True
    while changed:
        changed = False
        for w, h, body in g.rules:
            if ops.is_zero(w):
                continue
            if not body:
                cur = diag
            else:
                cur = sup_of(body[0])
                for Y in body[1:]:
                    if not cur:
                        break
                    cur = _join(cur, sup_of(Y))
            if not cur <= sup[h]:
                sup[h] |= cur
                changed = True
    return sup, sup_of


def _join(P, Qs):
    by = {}
    for u, t in Qs:
        by.setdefault(u, []).append(t)
    return {(s, t) for s, u in P for t in by.get(u, ())}


def intersect_total(ops, g, rep):
    """sum_x [[g]](x) * rep(x) for an epsilon-free linear representation rep = (idx, alpha, mats, omega)."""
    idx, alpha, mats, omega = rep
    known = {}
    supT = {}
    for a, M in mats.items():
        for s, row in M.items():
            for t, w in row.items():
                if not ops.is_zero(w):
                    known[("T", a, s, t)] = w
                    supT.setdefault(a, set()).add((s, t))
    sup, sup_of = _support(ops, g, idx, supT)
    roots = [("Z", s, g.S, t) for (s, t) in sup[g.S] if not ops.is_zero(alpha[s]) and not ops.is_zero(omega[t])]
    if not roots:
        return ops.zero, True

    def sym(Y, s, t):
        return ("T", Y, s, t) if Y in g.V else ("Z", s, Y, t)

    eqs = {("Z", s, X, t): [] for X in sup for (s, t) in sup[X]}
    for ri, (w, h, body) in enumerate(g.rules):
        if ops.is_zero(w):
            continue
        if not body:
            for s in idx:
                eqs[("Z", s, h, s)].append((w, ()))
            continue
        pref = sup_of(body[0])
        left = lambda s, u, Y=body[0]: sym(Y, s, u)  # noqa: E731
        for m in range(2, len(body) + 1):
            Y = body[m - 1]
            nxt = sup_of(Y)
            by = {}
            for u, t in nxt:
                by.setdefault(u, []).append(t)
            new = {}
            for s, u in pref:
                for t in by.get(u, ()):
                    new.setdefault((s, t), []).append((ops.one, (left(s, u), sym(Y, u, t))))
            for (s, t), terms in new.items():
                eqs[("P", ri, m, s, t)] = terms
            pref = set(new)
            left = lambda s, u, ri=ri, m=m: ("P", ri, m, s, u)  # noqa: E731
        for s, t in pref:
            eqs[("Z", s, h, t)].append((w, (left(s, t),)))
    # keep what the roots need
    need = set()
    work = list(roots)
    while work:
        u = work.pop()
        if u in need:
            continue
        need.add(u)
        for _, syms in eqs[u]:
            for v in syms:
                if v in eqs and v not in need:
                    work.append(v)
    eqs = {u: eqs[u] for u in eqs if u in need}
    val, exact = solve(ops, eqs, known)
    tot = ops.zero
    for r in roots:
        _, s, _, t = r
        tot = ops.add(tot, ops.mul(ops.mul(alpha[s], val[r]), omega[t]))
    return tot, exact


def solve(ops, eqs, known):
    """Least solution: exact (polysys.solve) when idempotent or every SCC is linear; monotone float iteration otherwise."""
    if ops.idempotent:
        return polysys.solve(ops, eqs, known)
    uset = set(eqs)
    comp_of = {}
    for k, comp in enumerate(polysys.sccs(list(eqs), lambda x: [s for _, syms in eqs[x] for s in syms if s in uset])):
        for x in comp:
            comp_of[x] = k
    linear = all(sum(1 for s in syms if s in uset and comp_of[s] == comp_of[x]) <= 1 for x in eqs for _, syms in eqs[x])
    if linear:
        return polysys.solve(ops, eqs, known)
    order = sorted(eqs, key=lambda x: comp_of[x])          # callees first (reverse topological order of polysys.sccs)
    fe = {x: [(float(c), [s for s in syms if s in uset], _prod(float(known[s]) for s in syms if s not in uset))
              for c, syms in eqs[x]] for x in order}
    val = {x: 0.0 for x in order}
    for _ in range(20000):
        delta = 0.0
        for x in order:                                     # Gauss-Seidel sweep: still monotone from below
            t = 0.0
            for c, ins, k in fe[x]:
                p = c * k
                for s in ins:
                    p *= val[s]
                t += p
            if t > val[x]:
                delta = max(delta, (t - val[x]) / t)
                val[x] = t
        if delta <= 1e-16:
            return val, False
        if max(val.values()) > 1e12:
            break
    raise ArithmeticError("grammar/transducer intersection: divergent or too slowly convergent instance")


def _prod(xs):
    p = 1.0
    for x in xs:
        p *= x
    return p


def compose_weight(ops, g, t, y):
    """sum_x [[g]](x) * [[t]](x, y)  ->  (value, exact)."""
    m = fcs.restrict(ops, t, y, 1)
    if not m.states:
        return ops.zero, True
    return intersect_total(ops, g, fcs.eps_free(ops, m))


def acceptor_weight(ops, g, m):
    """sum_x [[g]](x) * [[m]](x) for an acceptor m (epsilon arcs allowed)  ->  (value, exact)."""
    m = fcs.trim(ops, m)
    if not m.states:
        return ops.zero, True
    return intersect_total(ops, g, fcs.eps_free(ops, m))


# ------------------------------------------------------------------ useless-symbol removal (textbook; keeps [[G]])
def trimmed(ops, g):
    """Rules whose head is reachable from S through generating rules and whose body symbols all generate
    (cfgspec.generating_reachable); zero-weight rules dropped.  [[trimmed(G)]] = [[G]]."""
    gen, reach = cfgspec.generating_reachable(cfgspec.G(g.S, g.V, [r for r in g.rules if not ops.is_zero(r[0])]))
    return cfgspec.G(g.S, g.V, [(w, h, b) for w, h, b in g.rules
                                if not ops.is_zero(w) and h in reach and all(y in gen for y in b)])


# ------------------------------------------------------------------ many strings from one chart
def superstring(strs):
    """A string containing every given string as a contiguous substring (greedy overlap merge)."""
    strs = sorted({tuple(s) for s in strs}, key=lambda s: (-len(s), repr(s)))
    cur = ()

    def contains(big, s):
        n = len(s)
        return any(big[i:i + n] == s for i in range(len(big) - n + 1))

    for s in strs:
        if contains(cur, s):
            continue
        k = min(len(cur), len(s))
        while k > 0 and cur[len(cur) - k:] != s[:k]:
            k -= 1
        cur = cur + s[k:]
    return cur


def substring_weights(ops, g, strs):
    """({s: [[g]](s)}, exact) from one inside chart over superstring(strs); strings with a symbol outside g.V get zero."""
    strs = [tuple(s) for s in strs]
    ok = [s for s in strs if all(a in g.V for a in s)]
    big = superstring(ok)
    c, e, exact = cfgspec.inside_chart(ops, g, big)
    out = {}
    for s in strs:
        if s not in ok:
            out[s] = ops.zero
        elif not s:
            out[s] = e[g.S]
        else:
            n = len(s)
            i = next(i for i in range(len(big) - n + 1) if big[i:i + n] == s)
            out[s] = c[(i, g.S, i + n)]
    return out, exact


# ------------------------------------------------------------------ validation
def _layered_fst(rng, V, outs, q, primes):
    """Acyclic transducer reading most strings of length < q: arcs between consecutive layers for most input symbols,
    some eps-input / eps-output / eps:eps arcs and skip arcs, several initial and final states."""
    arcs = []
    for i in range(q - 1):
        for a in V:
            if rng.random() < 0.8:
                arcs.append((i, (a, EPS if rng.random() < 0.4 else rng.choice(outs)), i + 1))
        if rng.random() < 0.4:
            arcs.append((i, (EPS, rng.choice(outs)), i + 1))
        if rng.random() < 0.25:
            arcs.append((i, (EPS, EPS), i + 1))
        if i + 2 < q and rng.random() < 0.4:
            arcs.append((i, (rng.choice(V), rng.choice(outs)), i + 2))
    start = [0] + ([1] if q > 2 and rng.random() < 0.3 else [])
    stop = sorted({q - 1} | {i for i in range(q) if rng.random() < 0.4})
    ps = rng.sample(primes, len(arcs) + len(start) + len(stop))
    it = iter(Fraction(1, 2 * p) for p in ps)
    return A(frozenset(range(q)), {s: next(it) for s in start}, {s: next(it) for s in stop},
             [(i, ab, j, next(it)) for i, ab, j in arcs])


def _close(a, b):
    if a == b:
        return True
    a, b = float(a), float(b)
    return abs(a - b) <= 1e-9 * max(abs(a), abs(b)) + 1e-15


def selfcheck(n=40, seed=0, verbose=False):
    import random
    from .algebra import Q, BOOL, MAXTIMES
    from .. import domains
    rng = random.Random(seed)
    primes = domains.PRIMES
    gs = []
    corpus = domains.grammar_corpus()
    for name in ("abc", "palindrome", "catalan", "left_rec", "unary_cycle", "null_cycle", "hidden_unary", "repeat_sym",
                 "terminal_mix", "nullable_prefix", "eps_only", "no_rules", "useless", "catalan_null", "unprod_start",
                 "unprod_partner", "empty_lang"):
        g = corpus[name]
        s = domains.convergent_scale(g, Q)
        if s is not None:
            gs.append((name, domains.reweight(g, max(s, 2))))
    for i in range(n):
        g = domains.random_grammar(rng, 3, 2, 5, 3)
        s = domains.convergent_scale(g, Q)
        if s is not None:
            gs.append((f"r{i}", domains.reweight(g, max(s, 2), rng)))
    # 0. substring_weights == cfg_weight
    sub = 0
    for name, g in gs:
        strs = cfgspec.strings_upto(g.V, 3)
        got, _ = substring_weights(Q, g, strs)
        got2, _ = substring_weights(Q, trimmed(Q, g), strs)
        for s in strs:
            w, _ = cfgspec.cfg_weight(Q, g, s)
            assert _close(got[s], w), ("substring_weights != cfg_weight", name, s, got[s], w)
            assert _close(got2[s], w), ("trimmed grammar changes a weight", name, s, got2[s], w)
            sub += 1
    # 1. acyclic transducers: |x| <= #states - 1, the defining sum is finite
    fin = nz = nzx = 0
    for k, (name, g) in enumerate(gs):
        for rep_ in range(3):
            t = _layered_fst(rng, sorted(g.V), "xy"[:1 + rep_ % 2], rng.randint(2, 4), primes[:30])
            B = len(t.states) - 1
            xs = cfgspec.strings_upto(g.V, B)
            gw = {x: cfgspec.cfg_weight(Q, g, x) for x in xs}
            for y in fcs._strings("xy", 2):
                want = sum((gw[x][0] * fst_weight(Q, t, x, y) for x in xs), Fraction(0))
                got, exact = compose_weight(Q, g, t, y)
                if exact and all(gw[x][1] for x in xs):
                    assert got == want, ("compose_weight != finite defining sum", name, t, y, got, want)
                else:
                    assert _close(got, want), ("compose_weight !~ finite defining sum", name, t, y, float(got), float(want))
                fin += 1
                nz += want != 0
                nzx += want != 0 and not exact
                # idempotent semirings on the same shapes
                for ops, conv in ((BOOL, lambda w: w != 0), (MAXTIMES, lambda w: w)):
                    g2 = g.map_weights(conv)
                    t2 = A(t.states, {q: conv(w) for q, w in t.start.items()}, {q: conv(w) for q, w in t.stop.items()},
                           [(p, ab, q, conv(w)) for p, ab, q, w in t.arcs])
                    want2 = ops.sum(ops.mul(cfgspec.cfg_weight(ops, g2, x)[0], fst_weight(ops, t2, x, y)) for x in xs)
                    got2, _ = compose_weight(ops, g2, t2, y)
                    assert got2 == want2, ("compose_weight != finite defining sum", ops.name, name, t, y, got2, want2)
    # 2. cyclic transducers (input-consuming cycles without output): truncated sums converge from below
    cyc = 0
    for k, (name, g) in enumerate(gs[:20]):
        t = fcs._rand_fst(rng, rng.randint(1, 3), sorted(g.V), "x", 5, 0.5, False, primes[:25])
        for y in fcs._strings("x", 1):
            got, exact = compose_weight(Q, g, t, y)
            part = Fraction(0)
            parts = []
            for L in range(0, 7):
                for x in cfgspec.strings_upto(g.V, L):
                    if len(x) == L:
                        part += cfgspec.cfg_weight(Q, g, x)[0] * fst_weight(Q, t, x, y)
                parts.append(part)
            assert float(parts[-1]) <= float(got) * (1 + 1e-9) + 1e-15, ("truncated sum exceeds compose_weight", name, t, y)
            gap = float(got) - float(parts[-1])
            assert gap <= 2e-3 * float(got) + 1e-12, ("truncated sum does not approach compose_weight", name, t, y, float(got), float(parts[-1]))
            cyc += got != 0
    if verbose:
        print(f"cfgfst_spec.selfcheck: {sub} substring weights, {fin} finite-sum comparisons ({nz} non-zero, {nzx} of them by float iteration), {cyc} cyclic non-zero limits")
    return fin


if __name__ == "__main__":
    selfcheck(verbose=True)

"""Independent oracle for the weight-weighted total string length of a weighted CFG (no genlm import).

    total_length(g)  =  sum_x |x| * [[g]](x)  =  sum over derivation trees d from S of  w(d) * |yield(d)|

Derivation: let t[X] be the tree sums (cfgspec.treesums; t[a] = 1 for terminals) and
l[X] = sum_d w(d)*|yield(d)| over the trees rooted in X (l[a] = 1).  Splitting the yield length of a tree by
the child that contributes each token gives the LINEAR system

    l[X] = sum_{r: X -> b_1..b_k} w_r * sum_i ( l[b_i] * prod_{j != i} t[b_j] )

whose matrix is the Jacobian of the grammar equations at t; it is solved exactly by QOps.closure
((I - J)^-1, exact over Fractions when t is exact).  This is the "derivative trick": d/dz of the tree sum of
the grammar whose terminals weigh z, at z = 1.

amplification(g) = max row sum of (I - J)^-1 at the least solution: the factor by which a perturbation of one
equation (an update dropped by a stopping tolerance) can move a total weight (used to scale tolerances).

selfcheck(): against brute-force truncated sums  sum_{|x| <= L} |x| * cfg_weight(g, x)  (equality on finite
languages, monotone lower bound converging geometrically otherwise) and against a numeric derivative.
"""
from fractions import Fraction

from . import algebra, cfgspec


def _jacobian(g, ops, t):
    """J[X][Y] = d(rhs of X)/dY at t, c[X] = contribution of the terminal positions."""
    N = sorted(g.N, key=repr)

    def tv(y):
        return ops.one if y in g.V else t[y]

    J = {X: {Y: ops.zero for Y in N} for X in N}
    c = {X: ops.zero for X in N}
    for w, h, b in g.rules:
        for i, y in enumerate(b):
            rest = w
            for j, z in enumerate(b):
                if j != i:
                    rest = rest * tv(z)
            if y in g.V:
                c[h] = c[h] + rest          # l[a] = 1
            else:
                J[h][y] = J[h][y] + rest
    return N, J, c


def total_length(g, ops=algebra.Q):
    """Returns (value, exact).  Raises ArithmeticError when the sums diverge."""
    t, exact = cfgspec.treesums(ops, g)
    N, J, c = _jacobian(g, ops, t)
    if isinstance(ops, algebra.QOps) and not ops.converges(N, J):
        raise ArithmeticError("length series diverges (spectral radius of the Jacobian >= 1)")
    K = ops.closure(N, J)
    val = ops.zero
    for Y in N:
        val = val + K[g.S][Y] * c[Y]
    return val, exact


def amplification(g, ops=algebra.Q):
    """max row sum of (I - J)^-1 at the least solution: how much a perturbation of one equation (e.g. an update
    dropped by a stopping tolerance) can move a total weight.  Raises ArithmeticError when (near-)critical."""
    t, _ = cfgspec.treesums(ops, g)
    gf = g.map_weights(float)
    tf = {k: float(v) for k, v in t.items()}
    N, J, _ = _jacobian(gf, algebra.Q, tf)
    if not algebra.Q.converges(N, J):
        raise ArithmeticError("critical system")
    K = algebra.Q.closure(N, J)
    return max((sum(abs(float(K[X][Y])) for Y in N) for X in N), default=1.0)


def truncated(g, L, ops=algebra.Q):
    """(sum_{|x|<=L} [[g]](x), sum_{|x|<=L} |x| [[g]](x))"""
    tot = ops.zero
    ln = ops.zero
    for x in cfgspec.strings_upto(g.V, L):
        w, _ = cfgspec.cfg_weight(ops, g, x)
        tot = tot + w
        ln = ln + len(x) * w
    return tot, ln


def selfcheck():
    import random
    from .. import domains
    rng = random.Random(11)
    shapes = list(domains.grammar_corpus().items()) + [(f"r{i}", domains.random_grammar(rng)) for i in range(80)]
    n_fin = n_inf = 0
    for name, shp in shapes:
        s = domains.convergent_scale(shp, algebra.Q)
        if s is None or len(shp.V) > 2:
            continue
        g = domains.reweight(shp, s)
        try:
            val, exact = total_length(g)
            ts, _ = cfgspec.treesums(algebra.Q, g)
        except ArithmeticError:
            continue
        prev = None
        for L in (2, 4, 6):
            tot, ln = truncated(g, L)
            assert float(ln) <= float(val) * (1 + 1e-9) + 1e-12, (name, L, ln, val)
            assert prev is None or ln >= prev
            prev = ln
        tot, ln = truncated(g, 6)
        if abs(float(tot) - float(ts[g.S])) <= 1e-12 * max(1.0, float(tot)):   # (numerically) finite language: exact
            assert abs(float(ln) - float(val)) <= 1e-9 * max(1.0, float(val)), (name, ln, val)
            n_fin += 1
        else:
            # tail bound: the missing mass decays geometrically; the length gap must shrink with L
            g4 = float(val) - float(truncated(g, 4)[1])
            g6 = float(val) - float(ln)
            assert g6 <= g4 + 1e-12, (name, g4, g6)
            n_inf += 1
        # numeric derivative: terminals weigh z -> rule weight w * z^(#terminals)
        if float(val) > 0:
            def ts_at(z):
                gz = cfgspec.G(g.S, g.V, [(float(w) * z ** sum(1 for y in b if y in g.V), h, b) for w, h, b in g.rules])
                return float(cfgspec.treesums(algebra.Q, gz)[0][g.S])
            try:
                h = 1e-5
                d = (ts_at(1 + h) - ts_at(1 - h)) / (2 * h)
                assert abs(d - float(val)) <= 1e-5 * max(1.0, abs(float(val))), (name, d, float(val))
            except ArithmeticError:
                pass
    g = domains.reweight(domains.grammar_corpus()["left_rec"], 1)      # N0 -> N0 a (1/2) | b (1/3): (1 - 1/2)^-1 = 2
    assert abs(amplification(g) - 2.0) < 1e-12
    assert n_fin >= 5 and n_inf >= 10, (n_fin, n_inf)
    return n_fin, n_inf


if __name__ == "__main__":
    print("lenspec selfcheck ok:", selfcheck())

"""Spec-side rational operations on weighted languages (property C12).  No genlm import.

Two independent levels:

(1) STRING LEVEL - the property statement itself, on truncated formal power series
    (dict: string tuple -> weight, for ALL strings of length <= n over an alphabet V):
        series(ops, a, V, n)           the series of a spec automaton (by fsaspec.wfsa_weight)
        s_add, s_mul, s_star, s_plus, s_rev, s_zero, s_one, s_word
    Every operation is length-local (the value at x only needs operand values at strings no longer than x),
    so truncation is exact.  s_star uses the scalar star of the empty-string coefficient:
        S = 1 + A.S   =>   S(x) = a0* ( [x = eps] + sum_{x = uv, u != eps} A(u) S(v) ),   a0 = A(eps)
    which is the sum over all factorisations (empty factors included) whenever that sum converges.

(2) AUTOMATON LEVEL - constructions on fsaspec.A used with fsaspec.equivalent to decide an identity on ALL
    strings of one instance:  union, concat, star, plus, reverse, one, zero, lift, word, words.
    They are deliberately not the library's constructions (concat/plus go through a fresh middle state,
    star through a fresh initial-and-final hub state).

selfcheck() validates (2) against (1), and (1)'s star/product against brute-force enumeration of
factorisations, on all strings of length <= 5.
"""
import itertools
from fractions import Fraction

from .fsaspec import A, EPS, wfsa_weight


def strings_upto(V, n):
    V = sorted(V, key=repr)
    out = []
    for k in range(n + 1):
        out.extend(itertools.product(V, repeat=k))
    return out


def scalar_star(ops, a0):
    """a0* = sum_k a0^k (ArithmeticError when the sum diverges over Q)."""
    if not ops.idempotent:
        if not abs(a0) < 1:
            raise ArithmeticError("scalar star diverges")
    return ops.closure([0], {0: {0: a0}})[0][0]


# ------------------------------------------------------------------ (1) string level
def series(ops, a, V, n):
    return {x: wfsa_weight(ops, a, x) for x in strings_upto(V, n)}


def s_zero(ops, V, n):
    return {x: ops.zero for x in strings_upto(V, n)}


def s_word(ops, V, n, word, w=None):
    s = s_zero(ops, V, n)
    word = tuple(word)
    if word in s:
        s[word] = ops.add(s[word], ops.one if w is None else w)
    return s


def s_one(ops, V, n):
    return s_word(ops, V, n, ())


def s_add(ops, s, t):
    return {x: ops.add(s[x], t[x]) for x in s}


def s_mul(ops, s, t):
    return {x: ops.sum(ops.mul(s[x[:k]], t[x[k:]]) for k in range(len(x) + 1)) for x in s}


def s_rev(ops, s):
    return {x: s[x[::-1]] for x in s}


def s_star(ops, s):
    st = scalar_star(ops, s[()])
    out = {}
    for x in sorted(s, key=len):
        acc = ops.one if x == () else ops.zero
        for k in range(1, len(x) + 1):
            acc = ops.add(acc, ops.mul(s[x[:k]], out[x[k:]]))
        out[x] = ops.mul(st, acc)
    return out


def s_plus(ops, s):
    return s_mul(ops, s, s_star(ops, s))


# ------------------------------------------------------------------ (2) automaton level
def _tag(t, a):
    return A(frozenset((t, q) for q in a.states), {(t, q): w for q, w in a.start.items()},
             {(t, q): w for q, w in a.stop.items()}, [((t, i), l, (t, j), w) for i, l, j, w in a.arcs])


def zero():
    return A(frozenset(), {}, {}, [])


def one(ops):
    return A(frozenset([0]), {0: ops.one}, {0: ops.one}, [])


def word(ops, xs, w=None):
    xs = tuple(xs)
    n = len(xs)
    return A(frozenset(range(n + 1)), {0: ops.one}, {n: ops.one if w is None else w},
             [(i, xs[i], i + 1, ops.one) for i in range(n)])


def lift(ops, a, w):
    return A(frozenset([0, 1]), {0: ops.one}, {1: ops.one}, [(0, a, 1, w)])


def union(ops, a, b):
    a, b = _tag("L", a), _tag("R", b)
    start = dict(a.start)
    start.update(b.start)
    stop = dict(a.stop)
    stop.update(b.stop)
    return A(a.states | b.states, start, stop, list(a.arcs) + list(b.arcs))


def words(ops, Xs):
    """Weight one on every *distinct* string of Xs (a set of strings)."""
    out = zero()
    for xs in sorted({tuple(x) for x in Xs}):
        out = union(ops, out, word(ops, xs))
    return out


def concat(ops, a, b):
    a, b = _tag("L", a), _tag("R", b)
    mid = ("M", 0)
    arcs = list(a.arcs) + list(b.arcs)
    arcs += [(f, EPS, mid, w) for f, w in a.stop.items()]
    arcs += [(mid, EPS, i, w) for i, w in b.start.items()]
    return A(a.states | b.states | {mid}, dict(a.start), dict(b.stop), arcs)


def star(ops, a):
    a = _tag("S", a)
    hub = ("H", 0)
    arcs = list(a.arcs)
    arcs += [(hub, EPS, i, w) for i, w in a.start.items()]
    arcs += [(f, EPS, hub, w) for f, w in a.stop.items()]
    return A(a.states | {hub}, {hub: ops.one}, {hub: ops.one}, arcs)


def plus(ops, a):
    a = _tag("P", a)
    mid = ("M", 0)
    arcs = list(a.arcs)
    arcs += [(f, EPS, mid, w) for f, w in a.stop.items()]
    arcs += [(mid, EPS, i, w) for i, w in a.start.items()]
    return A(a.states | {mid}, dict(a.start), dict(a.stop), arcs)


def reverse(ops, a):
    return A(a.states, dict(a.stop), dict(a.start), [(j, l, i, w) for i, l, j, w in a.arcs])


def eps_converges(a):
    """Does the epsilon-path sum of the (rational, non-negative) automaton converge?"""
    from .algebra import Q
    idx = sorted(a.states, key=repr)
    E = {i: {j: Fraction(0) for j in idx} for i in idx}
    any_eps = False
    for i, l, j, w in a.arcs:
        if l == EPS:
            E[i][j] += w
            any_eps = True
    return (not any_eps) or Q.converges(idx, E)


def total_converges(a):
    """Does the sum over ALL paths (any labels) converge?"""
    from .algebra import Q
    idx = sorted(a.states, key=repr)
    E = {i: {j: Fraction(0) for j in idx} for i in idx}
    for i, l, j, w in a.arcs:
        E[i][j] += w
    return Q.converges(idx, E)


# ------------------------------------------------------------------ validation
def _compositions(x):
    """All ways to write x as a concatenation of NON-EMPTY factors."""
    if not x:
        yield ()
        return
    for k in range(1, len(x) + 1):
        for rest in _compositions(x[k:]):
            yield (x[:k],) + rest


def _brute_star_nonempty(ops, s, x):
    """sum over factorisations of x into non-empty factors (exact definition when s[()] == 0)."""
    return ops.sum(ops.prod(s[u] for u in comp) for comp in _compositions(x))


def _brute_star_truncated(s, x, K):
    """float sum over factorisations into k <= K possibly empty factors (definition, truncated)."""
    n = len(x)
    total = 0.0
    for k in range(0, K + 1):
        if k == 0:
            total += 1.0 if n == 0 else 0.0
            continue
        # cut points 0 <= c1 <= ... <= c_{k-1} <= n
        for cuts in itertools.combinations_with_replacement(range(n + 1), k - 1):
            pts = (0,) + cuts + (n,)
            p = 1.0
            for i in range(k):
                p *= float(s[x[pts[i]:pts[i + 1]]])
                if p == 0.0:
                    break
            total += p
    return total


def selfcheck(n=5, verbose=False, trunc=True):
    """Validate the automaton-level constructions against the string-level definitions and the string-level
    star against brute-force factorisation sums.  Returns the number of identities checked."""
    import random
    from .algebra import Q, BOOL, MAXTIMES
    from .. import domains
    F = Fraction
    rng = random.Random(7)
    pool = [a for _, a in domains.wfsa_corpus().items()]
    pool += [domains.random_wfsa(rng, 3, 2, 5) for _ in range(12)]
    V = ("a", "b")
    checked = 0

    def conv(ops, a):
        if ops is BOOL:
            return A(a.states, {q: w != 0 for q, w in a.start.items()}, {q: w != 0 for q, w in a.stop.items()},
                     [(i, l, j, w != 0) for i, l, j, w in a.arcs])
        return a

    for ops in (Q, BOOL, MAXTIMES):
        for k, a in enumerate(pool):
            if not eps_converges(a):
                continue
            b = pool[(k * 7 + 3) % len(pool)]
            if not eps_converges(b):
                continue
            ao, bo = conv(ops, a), conv(ops, b)
            sa, sb = series(ops, ao, V, n), series(ops, bo, V, n)
            pairs = [("union", union(ops, ao, bo), s_add(ops, sa, sb)),
                     ("concat", concat(ops, ao, bo), s_mul(ops, sa, sb)),
                     ("reverse", reverse(ops, ao), s_rev(ops, sa)),
                     ("one", one(ops), s_one(ops, V, n)),
                     ("zero", zero(), s_zero(ops, V, n)),
                     ("lift", lift(ops, "a", ao.start and list(ao.start.values())[0] or ops.one),
                      s_word(ops, V, n, ("a",), ao.start and list(ao.start.values())[0] or ops.one)),
                     ("word", word(ops, ("a", "b", "a")), s_word(ops, V, n, ("a", "b", "a"))),
                     ("words", words(ops, [("a",), ("a", "b"), ("a",), ()]),
                      s_add(ops, s_add(ops, s_word(ops, V, n, ("a",)), s_word(ops, V, n, ("a", "b"))), s_one(ops, V, n)))]
            st = star(ops, ao)
            if ops.idempotent or (eps_converges(st) and abs(sa[()]) < 1):
                pairs.append(("star", st, s_star(ops, sa)))
                pairs.append(("plus", plus(ops, ao), s_plus(ops, sa)))
                # nested: (a + b)* . b
                u = union(ops, ao, bo)
                su = star(ops, u)
                if ops.idempotent or (eps_converges(su) and abs(s_add(ops, sa, sb)[()]) < 1):
                    pairs.append(("nested", concat(ops, su, bo), s_mul(ops, s_star(ops, s_add(ops, sa, sb)), sb)))
            for name, aut, want in pairs:
                got = series(ops, aut, V, n)
                for x in want:
                    assert ops.eq(got[x], want[x]), (ops.name, name, k, x, got[x], want[x])
                checked += 1
            # string-level star against the definition
            if ops is Q and abs(sa[()]) < 1 and eps_converges(st):
                S = s_star(ops, sa)
                if sa[()] == 0:
                    for x in strings_upto(V, min(n, 4)):
                        assert S[x] == _brute_star_nonempty(ops, sa, x), ("star-def", k, x)
                elif trunc:
                    for x in strings_upto(V, min(n, 2)):
                        approx = _brute_star_truncated(sa, x, 40)
                        assert abs(float(S[x]) - approx) <= 1e-9 * max(1.0, abs(approx)), ("star-def-trunc", k, x, S[x], approx)
                checked += 1
            # product against the split definition written out naively
            if ops is Q:
                P = s_mul(ops, sa, sb)
                for x in strings_upto(V, min(n, 3)):
                    tot = F(0)
                    for cut in range(len(x) + 1):
                        tot += sa[x[:cut]] * sb[x[cut:]]
                    assert P[x] == tot
                checked += 1
    if verbose:
        print("ratspec selfcheck: identities checked:", checked)
    return checked


if __name__ == "__main__":
    selfcheck(verbose=True)

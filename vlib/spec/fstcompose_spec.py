"""Independent specification of the RELATIONAL semantics of transducer composition.  No genlm import.

    (f @ g)(x, z)  =  sum over intermediate strings y of  [[f]](x, y) * [[g]](y, z)

The sum over y is infinite as soon as f has a cycle that writes y-symbols or g one that reads them, and a
naive product of the two machines counts one pair of paths several times when both sides have epsilon moves
(that is what the library's epsilon filter is for).  The definition is therefore evaluated here WITHOUT a
product-with-filter construction, straight from the textbook identities

  1. restrict(f, x, tape=0)   acceptor F_x over the shared tape:  F_x(y) = [[f]](x, y)   (position-indexed copy,
                              arcs whose shared-tape label is empty become epsilon arcs of the acceptor)
  2. restrict(g, z, tape=1)   acceptor G_z over the shared tape:  G_z(y) = [[g]](y, z)
  3. eps_free(.)              exact epsilon removal  (start * E*,  M_a * E*) with E* from ops.closure, so that every
                              string y has its paths in F_x and in G_z summed, each once
  4. hadamard_total(F, G)     sum_y F(y) * G(y) for two EPSILON-FREE acceptors: the accepting paths of the plain
                              product are in bijection with the pairs (path of F, path of G) reading the same y;
                              its total weight is the least solution of a linear system (polysys.solve: exact
                              (I-M)^-1 per strongly connected block over Q, finite iteration when idempotent).

Nothing here depends on the order in which the two machines move, so there is nothing to double count.

Other relational operations used by the C10 check:
  project_weight(ops, t, s, tape)   sum over the other tape's strings of [[t]] with tape `tape` fixed to s
  transpose(t), from_pairs_weight(pairs, x, y) (counting definition)

selfcheck(): compose_weight == brute-force enumeration of all path pairs on random ACYCLIC machines (all placements
of epsilon, several initial/final states), and on cyclic machines the truncated sum over |y| <= L is a lower
bound that converges to it.
"""
from fractions import Fraction

from . import polysys
from .fsaspec import A, EPS, eps_closure, fst_weight


def _label(ab):
    """Arc label of a transducer as a pair; a bare EPS label counts as (EPS, EPS)."""
    if ab == EPS:
        return EPS, EPS
    a, b = ab
    return a, b


def transpose(t):
    out = []
    for p, ab, q, w in t.arcs:
        a, b = _label(ab)
        out.append((p, (b, a), q, w))
    return A(t.states, dict(t.start), dict(t.stop), out)


def alphabets(t):
    ins, outs = set(), set()
    for _, ab, _, _ in t.arcs:
        a, b = _label(ab)
        if a != EPS:
            ins.add(a)
        if b != EPS:
            outs.add(b)
    return ins, outs


def trim(ops, m):
    """Keep states on some start->stop path (structure only; zero-weight arcs do not count)."""
    arcs = [(p, a, q, w) for p, a, q, w in m.arcs if not ops.is_zero(w)]
    fw = {}
    bw = {}
    for p, a, q, w in arcs:
        fw.setdefault(p, []).append(q)
        bw.setdefault(q, []).append(p)

    def reach(seed, nxt):
        seen = set(seed)
        work = list(seen)
        while work:
            u = work.pop()
            for v in nxt.get(u, ()):
                if v not in seen:
                    seen.add(v)
                    work.append(v)
        return seen

    acc = reach([q for q, w in m.start.items() if not ops.is_zero(w)], fw)
    coacc = reach([q for q, w in m.stop.items() if not ops.is_zero(w)], bw)
    keep = acc & coacc
    return A(frozenset(keep), {q: w for q, w in m.start.items() if q in keep},
             {q: w for q, w in m.stop.items() if q in keep},
             [(p, a, q, w) for p, a, q, w in arcs if p in keep and q in keep])


def restrict(ops, t, s, tape):
    """Acceptor over the other tape: fix tape `tape` (0 input, 1 output) of transducer t to the string s.
    States (q, j): j symbols of s consumed.  Labels: the other tape's symbol or EPS."""
    s = tuple(s)
    n = len(s)
    arcs = []
    for p, ab, q, w in t.arcs:
        a, b = _label(ab)
        fixed, free = (a, b) if tape == 0 else (b, a)
        if fixed == EPS:
            for j in range(n + 1):
                arcs.append(((p, j), free, (q, j), w))
        else:
            for j in range(n):
                if s[j] == fixed:
                    arcs.append(((p, j), free, (q, j + 1), w))
    states = frozenset((q, j) for q in t.states for j in range(n + 1))
    m = A(states, {(q, 0): w for q, w in t.start.items()}, {(q, n): w for q, w in t.stop.items()}, arcs)
    return trim(ops, m)


def eps_free(ops, m):
    """(idx, alpha, {a: {i: {j: w}}}, omega): exact epsilon removal, alpha = start E*, M_a = arcs_a E*."""
    idx, K = eps_closure(ops, m)
    alpha = {j: ops.zero for j in idx}
    for i, w in m.start.items():
        if ops.is_zero(w):
            continue
        for j in idx:
            if not ops.is_zero(K[i][j]):
                alpha[j] = ops.add(alpha[j], ops.mul(w, K[i][j]))
    mats = {}
    for p, a, q, w in m.arcs:
        if a == EPS or ops.is_zero(w):
            continue
        row = mats.setdefault(a, {}).setdefault(p, {})
        for j in idx:
            if not ops.is_zero(K[q][j]):
                row[j] = ops.add(row.get(j, ops.zero), ops.mul(w, K[q][j]))
    omega = {i: m.stop.get(i, ops.zero) for i in idx}
    return idx, alpha, mats, omega


def hadamard_total(ops, F, G):
    """sum_y F(y) G(y) for two epsilon-free linear representations as returned by eps_free."""
    idx1, a1, m1, o1 = F
    idx2, a2, m2, o2 = G
    starts = [(s, t) for s in idx1 if not ops.is_zero(a1[s]) for t in idx2 if not ops.is_zero(a2[t])]
    eqs = {}
    work = list(starts)
    seen = set(starts)
    labels = [b for b in m1 if b in m2]
    while work:
        s, t = st = work.pop()
        terms = []
        c = ops.mul(o1[s], o2[t])
        if not ops.is_zero(c):
            terms.append((c, ()))
        for b in labels:
            r1 = m1[b].get(s)
            r2 = m2[b].get(t)
            if not r1 or not r2:
                continue
            for s2, w1 in r1.items():
                for t2, w2 in r2.items():
                    w = ops.mul(w1, w2)
                    if ops.is_zero(w):
                        continue
                    terms.append((w, ((s2, t2),)))
                    if (s2, t2) not in seen:
                        seen.add((s2, t2))
                        work.append((s2, t2))
        eqs[st] = terms
    if not eqs:
        return ops.zero
    val, exact = polysys.solve(ops, eqs)
    assert exact  # the system is linear
    return ops.sum(ops.mul(ops.mul(a1[s], a2[t]), val[(s, t)]) for s, t in starts)


class Composer:
    """compose_weight with the restricted / epsilon-removed acceptors cached per string."""

    def __init__(self, ops, f, g):
        self.ops, self.f, self.g = ops, f, g
        self._fx = {}
        self._gz = {}

    def weight(self, x, z):
        x, z = tuple(x), tuple(z)
        if x not in self._fx:
            self._fx[x] = eps_free(self.ops, restrict(self.ops, self.f, x, 0))
        if z not in self._gz:
            self._gz[z] = eps_free(self.ops, restrict(self.ops, self.g, z, 1))
        return hadamard_total(self.ops, self._fx[x], self._gz[z])


def compose_weight(ops, f, g, x, z):
    """sum_y [[f]](x, y) [[g]](y, z), exact over Q (needs convergence) and over the idempotent ops."""
    return Composer(ops, f, g).weight(x, z)


def accept_weight(ops, rep, u):
    """Weight of the string u under an epsilon-free linear representation (as returned by eps_free)."""
    idx, alpha, mats, omega = rep
    v = {i: w for i, w in alpha.items() if not ops.is_zero(w)}
    for c in u:
        M = mats.get(c)
        if not M or not v:
            return ops.zero
        nv = {}
        for i, w in v.items():
            for j, w2 in M.get(i, {}).items():
                nv[j] = ops.add(nv.get(j, ops.zero), ops.mul(w, w2))
        v = nv
    return ops.sum(ops.mul(w, omega[i]) for i, w in v.items())


class Relation:
    """[[t]](x, y) by the route restrict -> eps_free -> accept_weight (second implementation next to
    fsaspec.fst_weight, cached per x; selfcheck compares the two)."""

    def __init__(self, ops, t):
        self.ops, self.t = ops, t
        self._x = {}

    def weight(self, x, y):
        x = tuple(x)
        if x not in self._x:
            self._x[x] = eps_free(self.ops, restrict(self.ops, self.t, x, 0))
        return accept_weight(self.ops, self._x[x], tuple(y))


def project_weight(ops, t, s, tape):
    """sum over all strings u of the other tape of [[t]] with tape `tape` fixed to s (total weight of the restriction)."""
    m = restrict(ops, t, s, tape)
    if not m.states:
        return ops.zero
    eqs = {q: [] for q in m.states}
    for q, w in m.stop.items():
        if not ops.is_zero(w):
            eqs[q].append((w, ()))
    for p, _, q, w in m.arcs:
        eqs[p].append((w, (q,)))
    val, _ = polysys.solve(ops, eqs)
    return ops.sum(ops.mul(w, val[q]) for q, w in m.start.items())


def from_pairs_weight(ops, pairs, x, y):
    """Relational semantics of 'the transducer accepting the given string pairs with weight one' (a multiset:
    a pair listed k times has weight one added k times)."""
    t = ops.zero
    for xs, ys in pairs:
        if tuple(xs) == tuple(x) and tuple(ys) == tuple(y):
            t = ops.add(t, ops.one)
    return t


# ------------------------------------------------------------------ validation
def _paths(ops, t):
    """All accepting paths of an ACYCLIC transducer as (x, y, weight)."""
    out = []
    by = {}
    for p, ab, q, w in t.arcs:
        by.setdefault(p, []).append((_label(ab), q, w))

    def go(p, x, y, w, depth):
        assert depth < 50, "not acyclic"
        if p in t.stop:
            out.append((x, y, ops.mul(w, t.stop[p])))
        for (a, b), q, w2 in by.get(p, ()):
            go(q, x + ((a,) if a != EPS else ()), y + ((b,) if b != EPS else ()), ops.mul(w, w2), depth + 1)

    for q, w in t.start.items():
        go(q, (), (), w, 0)
    return out


def brute_compose(ops, f, g):
    """dict (x, z) -> sum over pairs (path of f labelled x:y, path of g labelled y:z) of the weight product."""
    out = {}
    pg = {}
    for y, z, w in _paths(ops, g):
        pg.setdefault(y, []).append((z, w))
    for x, y, w1 in _paths(ops, f):
        for z, w2 in pg.get(y, ()):
            out[x, z] = ops.add(out.get((x, z), ops.zero), ops.mul(w1, w2))
    return out


def _rand_fst(rng, q, ins, outs, m, p_eps, acyclic, primes):
    states = list(range(q))
    arcs = []
    for _ in range(rng.randint(min(3, m), m)):
        i, j = rng.choice(states), rng.choice(states)
        if acyclic:
            if i == j:
                if q == 1:
                    continue
                j = (i + 1) % q
            i, j = min(i, j), max(i, j)
        a = EPS if rng.random() < p_eps else rng.choice(ins)
        b = EPS if rng.random() < p_eps else rng.choice(outs)
        arcs.append((i, (a, b), j))
    start = rng.sample(states, rng.randint(1, min(2, q)))
    stop = rng.sample(states, rng.randint(1, min(2, q)))
    ps = rng.sample(primes, len(arcs) + len(start) + len(stop))
    it = iter(Fraction(1, 2 * p) for p in ps)
    return A(frozenset(states), {s: next(it) for s in start}, {s: next(it) for s in stop},
             [(i, ab, j, next(it)) for i, ab, j in arcs])


def _strings(alpha, n):
    out = [()]
    fr = [()]
    for _ in range(n):
        fr = [s + (a,) for s in fr for a in alpha]
        out.extend(fr)
    return out


def selfcheck(n=150, seed=0, verbose=False):
    import random
    from .algebra import Q, BOOL, MAXTIMES
    primes = [2, 3, 5, 7, 11, 13, 17, 19, 23, 29, 31, 37, 41, 43, 47, 53, 59, 61, 67, 71, 73, 79, 83, 89, 97]
    rng = random.Random(seed)
    checked = nonzero = 0
    # 0. the textbook double-counting trap: output-epsilon in f, input-epsilon in g; exactly one pair of paths
    h = Fraction(1, 2)
    f = A(frozenset([0, 1, 2]), {0: h}, {2: h}, [(0, ("a", EPS), 1, h / 3), (1, ("a", "x"), 2, h / 5)])
    g = A(frozenset([0, 1, 2]), {0: h}, {2: h}, [(0, (EPS, "u"), 1, h / 7), (1, ("x", "v"), 2, h / 11)])
    assert compose_weight(Q, f, g, "aa", "uv") == h ** 8 / (3 * 5 * 7 * 11)
    assert compose_weight(Q, f, g, "a", "uv") == 0 == compose_weight(Q, f, g, "aa", "vu")
    # eps:eps self loops on both sides: geometric factors 1/(1-w), once each
    f2 = A(f.states, f.start, f.stop, f.arcs + [(1, (EPS, EPS), 1, h)])
    g2 = A(g.states, g.start, g.stop, g.arcs + [(1, EPS, 1, h / 2)])
    assert compose_weight(Q, f2, g2, "aa", "uv") == h ** 8 / (3 * 5 * 7 * 11) * 2 * Fraction(4, 3)
    # 1. acyclic machines: every (x, z) against the enumeration of path pairs, three semirings
    for k in range(n):
        f = _rand_fst(rng, rng.randint(1, 4), "ab", "xy", 6, 0.4, True, primes)
        g = _rand_fst(rng, rng.randint(1, 4), "xy", "uv", 6, 0.4, True, primes)
        for ops, conv in ((Q, lambda w: w), (BOOL, lambda w: True), (MAXTIMES, lambda w: w)):
            fs = A(f.states, {q: conv(w) for q, w in f.start.items()}, {q: conv(w) for q, w in f.stop.items()},
                   [(p, ab, q, conv(w)) for p, ab, q, w in f.arcs])
            gs = A(g.states, {q: conv(w) for q, w in g.start.items()}, {q: conv(w) for q, w in g.stop.items()},
                   [(p, ab, q, conv(w)) for p, ab, q, w in g.arcs])
            want = brute_compose(ops, fs, gs)
            comp = Composer(ops, fs, gs)
            pairs = set(want) | {(x, z) for x in _strings("ab", 2) for z in _strings("uv", 1)}
            for x, z in pairs:
                got = comp.weight(x, z)
                exp = want.get((x, z), ops.zero)
                assert got == exp, ("compose_weight != path-pair enumeration", ops.name, f, g, x, z, got, exp)
                checked += 1
                nonzero += not ops.is_zero(exp)
            # the single-machine identities used by C10
            for x, y, _ in _paths(ops, fs)[:4]:
                wx = ops.sum(w for x2, _, w in _paths(ops, fs) if x2 == x)
                assert project_weight(ops, fs, x, 0) == wx
                wy = ops.sum(w for _, y2, w in _paths(ops, fs) if y2 == y)
                assert project_weight(ops, fs, y, 1) == wy
                wxy = ops.sum(w for x2, y2, w in _paths(ops, fs) if (x2, y2) == (x, y))
                assert fst_weight(ops, fs, x, y) == wxy == fst_weight(ops, transpose(fs), y, x)
                assert Relation(ops, fs).weight(x, y) == wxy
    # 2. cyclic machines: truncated sum over the intermediate string is a lower bound converging to compose_weight
    cyc = 0
    for k in range(max(10, n // 5)):
        f = _rand_fst(rng, rng.randint(1, 3), "a", "xy", 5, 0.35, False, primes)
        g = _rand_fst(rng, rng.randint(1, 3), "xy", "u", 5, 0.35, False, primes)
        comp = Composer(Q, f, g)
        for x in _strings("a", 1):
            for z in _strings("u", 1):
                exact = comp.weight(x, z)
                rel = Relation(Q, f)
                for y in _strings("xy", 2):
                    assert rel.weight(x, y) == fst_weight(Q, f, x, y), ("Relation != fst_weight", f, x, y)
                part = [Fraction(0)]
                for L in range(0, 7):
                    s = sum((fst_weight(Q, f, x, y) * fst_weight(Q, g, y, z) for y in _strings("xy", L) if len(y) == L),
                            Fraction(0))
                    part.append(part[-1] + s)
                assert part[-1] <= exact, ("truncated sum exceeds compose_weight", f, g, x, z)
                gap6, gap3 = exact - part[-1], exact - part[4]
                assert gap6 <= gap3 and (exact == 0 or float(gap6) <= 1e-3 * float(exact) + 1e-12), \
                    ("truncated sum does not converge to compose_weight", f, g, x, z, float(exact), float(part[-1]))
                cyc += exact != 0
    if verbose:
        print(f"fstcompose_spec.selfcheck: {checked} acyclic comparisons ({nonzero} non-zero), {cyc} cyclic non-zero limits")
    return checked


if __name__ == "__main__":
    selfcheck(verbose=True)

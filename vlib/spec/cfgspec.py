"""Independent specification of weighted-CFG semantics.  No genlm import, no normal forms.

A grammar is a `G(S, V, rules)` with rules = [(w, head, body_tuple)] over an Ops (algebra.py).
All functions work on the *original* rules (any arity, nullary, unary, cycles).

  null_weights(G)      e[X]  = total weight of derivations X =>* empty string
  cfg_weight(G, x)     derivation-sum weight of the string x               [[G]](x)
  treesums(G)          t[X]  = total weight of all derivations from X (terminals count 1)
  prefix_weight(G, p)  sum over all strings s with prefix p of [[G]](s)
  viable(G, p)         Boolean version of prefix_weight
  brute_weight(G,x,H)  derivation enumeration up to height H (validation of the above)

Each numeric function returns (value, exact); exact=False when a nonlinear block was solved by
Newton iteration in floats (then compare with a tolerance).
"""
from collections import namedtuple, defaultdict
from . import polysys

_G = namedtuple("G", "S V rules")


class G(_G):
    __slots__ = ()

    @property
    def N(self):
        n = {self.S}
        for _, h, b in self.rules:
            n.add(h)
            for y in b:
                if y not in self.V:
                    n.add(y)
        return n

    def map_weights(self, f):
        return G(self.S, self.V, [(f(w), h, b) for w, h, b in self.rules])


def null_weights(ops, g):
    N = g.N
    eqs = {X: [] for X in N}
    for w, h, b in g.rules:
        if any(y in g.V for y in b):
            continue
        eqs[h].append((w, tuple(b)))
    return polysys.solve(ops, eqs)


def treesums(ops, g):
    N = g.N
    eqs = {X: [] for X in N}
    for w, h, b in g.rules:
        eqs[h].append((w, tuple(y for y in b if y not in g.V)))
    return polysys.solve(ops, eqs)


def _unit_closure(ops, g, N, e, left_null_only=False, t=None):
    """K = M* where M[X][Y] = sum over rules X -> b and positions p with b[p] = Y (nonterminal) of
    w * prod_{q<p} e[b[q]] * prod_{q>p} (e[b[q]]  or, for prefix weights, t[b[q]])."""
    idx = sorted(N, key=repr)
    M = {X: {Y: ops.zero for Y in idx} for X in idx}
    for w, h, b in g.rules:
        for p, Y in enumerate(b):
            if Y in g.V:
                continue
            c = w
            ok = True
            for q, Z in enumerate(b):
                if q == p:
                    continue
                if q < p or not left_null_only:
                    if Z in g.V:
                        ok = False
                        break
                    c = ops.mul(c, e[Z])
                else:
                    c = ops.mul(c, ops.one if Z in g.V else t[Z])
            if ok:
                M[h][Y] = ops.add(M[h][Y], c)
    return idx, ops.closure(idx, M)


def inside_chart(ops, g, x):
    """c[(i, X, k)] for all 0 <= i < k <= n and nonterminals X, plus e (null weights)."""
    n = len(x)
    N = g.N
    e, exact = null_weights(ops, g)
    idx, K = _unit_closure(ops, g, N, e)
    c = {}

    def val(Y, a, b, i, k):
        # weight of symbol Y deriving x[a:b], *excluding* a nonterminal taking the whole span (i,k)
        if Y in g.V:
            return ops.one if (b == a + 1 and x[a] == Y) else ops.zero
        if a == b:
            return e[Y]
        if a == i and b == k:
            return ops.zero
        return c.get((a, Y, b), ops.zero)

    for span in range(1, n + 1):
        for i in range(n - span + 1):
            k = i + span
            b = {X: ops.zero for X in idx}
            for w, h, body in g.rules:
                if not body:
                    continue
                # forward DP over body positions: F[j] = weight of body[:p] deriving x[i:j]
                F = {i: ops.one}
                for Y in body:
                    F2 = {}
                    for j, fw in F.items():
                        if ops.is_zero(fw):
                            continue
                        for j2 in range(j, k + 1):
                            v = val(Y, j, j2, i, k)
                            if ops.is_zero(v):
                                continue
                            F2[j2] = ops.add(F2.get(j2, ops.zero), ops.mul(fw, v))
                    F = F2
                    if not F:
                        break
                if k in F:
                    b[h] = ops.add(b[h], ops.mul(w, F[k]))
            for X in idx:
                t = ops.zero
                for Y in idx:
                    if not ops.is_zero(K[X][Y]) and not ops.is_zero(b[Y]):
                        t = ops.add(t, ops.mul(K[X][Y], b[Y]))
                c[(i, X, k)] = t
    return c, e, exact


def cfg_weight(ops, g, x):
    x = tuple(x)
    if any(a not in g.V for a in x):
        return ops.zero, True
    c, e, exact = inside_chart(ops, g, x)
    if len(x) == 0:
        return e[g.S], exact
    return c[(0, g.S, len(x))], exact


def prefix_weight(ops, g, p):
    """Sum of [[G]](s) over all s that start with p (requires finite treesums)."""
    p = tuple(p)
    t, ex1 = treesums(ops, g)
    if len(p) == 0:
        return t[g.S], ex1
    if any(a not in g.V for a in p):
        return ops.zero, True
    n = len(p)
    N = g.N
    c, e, ex2 = inside_chart(ops, g, p)
    idx, K = _unit_closure(ops, g, N, e, left_null_only=True, t=t)
    P = {}

    def inside(Y, a, b):
        if Y in g.V:
            return ops.one if (b == a + 1 and p[a] == Y) else ops.zero
        if a == b:
            return e[Y]
        return c.get((a, Y, b), ops.zero)

    for i in range(n - 1, -1, -1):
        b = {X: ops.zero for X in idx}
        for w, h, body in g.rules:
            # F[j] = weight of body[:q] deriving p[i:j] exactly
            F = {i: ops.one}
            for q, Y in enumerate(body):
                # Y is the symbol whose yield contains the last prefix token p[n-1]
                rest = ops.one
                for Z in body[q + 1:]:
                    rest = ops.mul(rest, ops.one if Z in g.V else t[Z])
                if not ops.is_zero(rest):
                    for j, fw in F.items():
                        if ops.is_zero(fw) or j >= n:
                            continue
                        if Y in g.V:
                            cover = ops.one if (j == n - 1 and p[j] == Y) else ops.zero
                        elif j == i:
                            cover = ops.zero  # same-position unknown: handled by K
                        else:
                            cover = P[(j, Y)]
                        if not ops.is_zero(cover):
                            b[h] = ops.add(b[h], ops.mul(ops.mul(w, fw), ops.mul(cover, rest)))
                # advance F past Y (Y derives p[j:j2] exactly, j2 <= n-1 so that the last token is still ahead)
                F2 = {}
                for j, fw in F.items():
                    if ops.is_zero(fw):
                        continue
                    for j2 in range(j, n):
                        v = inside(Y, j, j2)
                        if ops.is_zero(v):
                            continue
                        F2[j2] = ops.add(F2.get(j2, ops.zero), ops.mul(fw, v))
                F = F2
                if not F:
                    break
        for X in idx:
            tt = ops.zero
            for Y in idx:
                if not ops.is_zero(K[X][Y]) and not ops.is_zero(b[Y]):
                    tt = ops.add(tt, ops.mul(K[X][Y], b[Y]))
            P[(i, X)] = tt
    return P[(0, g.S)], (ex1 and ex2)


def viable(g, p):
    from .algebra import BOOL
    gb = g.map_weights(lambda w: True)
    v, _ = prefix_weight(BOOL, gb, p)
    return bool(v)


def generating_reachable(g):
    """(generating symbols, useful nonterminals) computed the textbook way."""
    gen = set(g.V)
    changed = True
    while changed:
        changed = False
        for _, h, b in g.rules:
            if h not in gen and all(y in gen for y in b):
                gen.add(h)
                changed = True
    reach = set()
    if g.S in gen:
        reach.add(g.S)
        work = [g.S]
        while work:
            X = work.pop()
            for _, h, b in g.rules:
                if h == X and all(y in gen for y in b):
                    for y in b:
                        if y not in reach:
                            reach.add(y)
                            if y not in g.V:
                                work.append(y)
    return gen, reach


def brute_weight(ops, g, x, H):
    """Sum over derivation trees of height <= H (exhaustive enumeration; validation only)."""
    x = tuple(x)
    by_head = defaultdict(list)
    for w, h, b in g.rules:
        by_head[h].append((w, b))
    memo = {}

    def sym(Y, a, b, h):
        if Y in g.V:
            return ops.one if (b == a + 1 and x[a] == Y) else ops.zero
        if h <= 0:
            return ops.zero
        key = (Y, a, b, h)
        if key in memo:
            return memo[key]
        tot = ops.zero
        for w, body in by_head[Y]:
            tot = ops.add(tot, ops.mul(w, seq(body, a, b, h - 1)))
        memo[key] = tot
        return tot

    def seq(body, a, b, h):
        if not body:
            return ops.one if a == b else ops.zero
        tot = ops.zero
        for m in range(a, b + 1):
            v = sym(body[0], a, m, h)
            if ops.is_zero(v):
                continue
            tot = ops.add(tot, ops.mul(v, seq(body[1:], m, b, h)))
        return tot

    return sym(g.S, 0, len(x), H)


def strings_upto(V, n):
    V = sorted(V, key=repr)
    out = [()]
    frontier = [()]
    for _ in range(n):
        frontier = [s + (a,) for s in frontier for a in V]
        out.extend(frontier)
    return out

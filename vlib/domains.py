"""Bounded input domains (DESIGN 2.5).  No genlm import: neutral forms from vlib.spec.

Grammars  G(S, V, rules)  with rules (w, head, body);   nonterminals 'N0','N1',..  terminals 'a','b',..
Automata  A(states, start, stop, arcs)

Weights are *generic* rationals: w_k = 1 / (prime_k * scale) so that algebraic coincidences have
measure zero; `scale` is chosen per instance so that all infinite sums converge comfortably.
"""
import itertools
import random
from fractions import Fraction

from .spec.cfgspec import G
from .spec.fsaspec import A, EPS

PRIMES = [2, 3, 5, 7, 11, 13, 17, 19, 23, 29, 31, 37, 41, 43, 47, 53, 59, 61, 67, 71, 73, 79, 83, 89, 97,
          101, 103, 107, 109, 113, 127, 131, 137, 139, 149, 151, 157, 163, 167, 173, 179, 181, 191, 193]


def generic_weights(n, scale=1, rng=None):
    ps = PRIMES[:max(n, 1) + 3]
    if rng is not None:
        ps = rng.sample(PRIMES[:max(n, 1) + 8], n)
    return [Fraction(1, p * scale) for p in ps[:n]]


def nts(n):
    return [f"N{i}" for i in range(n)]


def terms(t):
    return list("abcdefg"[:t])


def reweight(g, scale=1, rng=None):
    ws = generic_weights(len(g.rules), scale, rng)
    return G(g.S, g.V, [(ws[i], h, b) for i, (_, h, b) in enumerate(g.rules)])


def shape(S, V, *rules):
    """rules given as 'N0 -> N1 a' strings (weight filled in later)."""
    out = []
    for r in rules:
        h, b = r.split("->")
        out.append((None, h.strip(), tuple(b.split())))
    return G(S, frozenset(V), out)


# ------------------------------------------------------------------ corpus of adversarial shapes
def grammar_corpus():
    c = {}
    c["abc"] = shape("N0", "ab", "N0 -> a N0 b", "N0 ->")
    c["palindrome"] = shape("N0", "ab", "N0 -> a N0 a", "N0 -> b N0 b", "N0 ->", "N0 -> a", "N0 -> b")
    c["catalan"] = shape("N0", "a", "N0 -> N0 N0", "N0 -> a")
    c["catalan_null"] = shape("N0", "a", "N0 -> N0 N0", "N0 -> a", "N0 ->")
    c["left_rec"] = shape("N0", "ab", "N0 -> N0 a", "N0 -> b")
    c["right_rec"] = shape("N0", "ab", "N0 -> a N0", "N0 -> b")
    c["unary_chain"] = shape("N0", "a", "N0 -> N1", "N1 -> N2", "N2 -> a", "N0 -> a N0")
    c["unary_cycle"] = shape("N0", "ab", "N0 -> N1", "N1 -> N0", "N1 -> a", "N0 -> b N0")
    c["unary_self"] = shape("N0", "a", "N0 -> N0", "N0 -> a", "N0 -> a N0")
    c["unary_cycle3"] = shape("N0", "ab", "N0 -> N1", "N1 -> N2", "N2 -> N0", "N2 -> a", "N1 -> b N1 b", "N0 -> N2 N2")
    c["null_cycle"] = shape("N0", "a", "N0 -> N1 N1", "N1 -> N0", "N1 ->", "N0 -> a")
    c["null_unary_mix"] = shape("N0", "a", "N0 ->", "N0 -> N0 N0", "N0 -> N1 N1", "N1 -> N0 N0 N1", "N1 -> a", "N1 -> N1")
    c["hidden_unary"] = shape("N0", "ab", "N0 -> N1 N2", "N1 ->", "N1 -> a", "N2 -> N0", "N2 -> b")
    c["start_on_rhs"] = shape("N0", "ab", "N0 -> a N0 b", "N0 -> N0 N0", "N0 -> a")
    c["dup_rules"] = shape("N0", "a", "N0 -> a", "N0 -> a", "N0 -> N0 N0", "N0 -> N0 N0")
    c["repeat_sym"] = shape("N0", "ab", "N0 -> N1 N1 N1", "N1 -> a", "N1 -> b", "N1 ->")
    c["useless"] = shape("N0", "ab", "N0 -> a", "N1 -> b", "N0 -> N2 a", "N2 -> N2 b")
    c["unprod_start"] = shape("N0", "a", "N0 -> N1 N2", "N1 -> a")
    c["unprod_start_self"] = shape("N0", "a", "N0 -> N0 N0", "N1 -> a")
    c["unprod_partner"] = shape("N0", "ab", "N0 -> a", "N0 -> N1 N2", "N1 -> b", "N2 -> N2 a")
    c["empty_lang"] = shape("N0", "a", "N0 -> N0 a")
    c["eps_only"] = shape("N0", "a", "N0 ->")
    c["eps_only_deep"] = shape("N0", "a", "N0 -> N1 N1", "N1 ->", "N1 -> N1 N1")
    c["no_rules"] = shape("N0", "ab")
    c["long_body"] = shape("N0", "abc", "N0 -> a N1 b N1 c", "N1 -> N0", "N1 ->", "N1 -> c")
    c["all_null_long"] = shape("N0", "a", "N0 -> N1 N1 N1 N1", "N1 ->", "N1 -> a")
    c["mutual"] = shape("N0", "ab", "N0 -> a N1", "N1 -> b N0", "N1 -> b", "N0 -> N1 N0")
    c["two_scc"] = shape("N0", "ab", "N0 -> N1 N2", "N1 -> a N1", "N1 -> a", "N2 -> N2 b", "N2 -> b", "N2 -> N1")
    c["terminal_mix"] = shape("N0", "ab", "N0 -> a N1 b", "N1 -> a b", "N1 -> N1 N1", "N1 ->")
    c["nullable_prefix"] = shape("N0", "ab", "N0 -> N1 N2 a", "N1 ->", "N1 -> b", "N2 ->", "N2 -> N1 N1")
    c["unary_to_terminal"] = shape("N0", "ab", "N0 -> N1", "N1 -> a", "N1 -> N2", "N2 -> b", "N2 -> N1 N1")
    c["deep_unary_cycle_null"] = shape("N0", "a", "N0 -> N1 N2", "N1 ->", "N2 -> N0", "N2 -> a", "N1 -> a")
    c["bot_clash"] = shape("N0", "a", "N0 ->", "N0 -> N0 N0", "N0 -> N1 N1", "N1 -> N0 N0 N1", "N1 -> a", "N1 -> N1")
    c["order_tie"] = shape("N0", "a", "N0 -> N0 a", "N0 -> a N1", "N0 -> a", "N1 -> N1 N0", "N1 -> N0 N1", "N1 ->")
    c["single_terminal"] = shape("N0", "a", "N0 -> a")
    c["unused_terminal"] = shape("N0", "ab", "N0 -> a N0", "N0 -> a")
    c["sss"] = shape("N0", "a", "N0 -> N0 N0 N0", "N0 -> a", "N0 ->")
    c["x_unary_null"] = shape("N0", "ab", "N0 -> N1", "N1 -> N2", "N2 ->", "N2 -> a N0", "N1 -> b")
    # no terminal at all: the language is {empty string}, its weight an infinite sum through nullable rules; the prefix machinery
    # runs on a transducer whose only states have no arcs (seeded change C03-8)
    c["empty_vocabulary"] = shape("N0", "", "N0 -> N1 N1", "N1 ->", "N1 -> N1 N1", "N0 ->")
    c["empty_vocabulary_unary"] = shape("N0", "", "N0 -> N1", "N1 -> N0", "N1 ->")
    # a pure terminal class (all rules X -> t) one of whose terminals is also written literally inside a longer rule: the class
    # must not be reused as the preterminal of that literal (seeded changes C06-3, C01-6)
    c["terminal_class"] = shape("N0", "abc", "N0 -> N1 c N2", "N0 -> a N2", "N1 -> a", "N1 -> b", "N2 -> c", "N2 -> b c")
    # indirect left recursion through two nonterminals with a further left corner on the side, in several rule orders (the parsers
    # number nonterminals in rule order, and left-corner closures are traversed in that order): a closure that is memoised before
    # its cycle is complete loses predictions (strengthened after seeded changes C01-4, C02-3, C05-4)
    ilr = {
        "indirect_lr_null": ("abc", ["N0 ->", "N0 -> b", "N0 -> N1 N1 c", "N1 -> a", "N1 -> N0"]),
        "indirect_lr_two_entries": ("ab", ["N0 -> a N1 a", "N0 -> b N2 b", "N3 -> a", "N1 -> N2 a", "N1 -> N3 b", "N2 -> N1 b", "N2 -> a"]),
        "indirect_lr_lone_member": ("ab", ["N0 -> a N2", "N1 -> N2 a", "N2 -> N1 b", "N1 -> N3 b", "N3 -> a", "N0 -> N1", "N2 -> b"]),
    }
    # overlapping UNARY cycles on four nonterminals (a node reaches far back on the DFS stack before it sees a nearer one): the
    # component structure must not depend on the visiting order (seeded changes C15-3, C11-5, C07-12)
    ilr["unary_overlap4"] = ("ab", ["N0 -> N1", "N1 -> N2", "N2 -> N3", "N3 -> N1", "N3 -> N0", "N2 -> N0", "N0 -> a", "N3 -> b"])
    ilr["unary_overlap4b"] = ("ab", ["N0 -> N1", "N1 -> N2", "N2 -> N0", "N2 -> N3", "N3 -> N2", "N3 -> N1", "N1 -> a", "N3 -> b N3"])
    prm = random.Random(20240917)
    for nm, (V, rules) in ilr.items():
        c[nm] = shape("N0", V, *rules)
        for k in range(5):
            rs = list(rules)
            prm.shuffle(rs)
            c[f"{nm}_p{k}"] = shape("N0", V, *rs)
    return c


def random_grammar(rng, n=3, t=2, r=5, L=3, p_term=0.45):
    N = nts(n)
    V = terms(t)
    k = rng.randint(1, r)
    rules = []
    for _ in range(k):
        h = rng.choice(N)
        ln = min(rng.choice([0, 1, 1, 2, 2, 2, 3]), L)
        b = tuple(rng.choice(V) if rng.random() < p_term else rng.choice(N) for _ in range(ln))
        rules.append((None, h, b))
    return G("N0", frozenset(V), rules)


def enumerate_grammars(n=2, t=2, r=3, L=2):
    """All rule multisets (as sets: no duplicate rules) of size <= r over n nonterminals, t terminals,
    bodies of length <= L.  Used exhaustively in thorough tiers."""
    N = nts(n)
    V = terms(t)
    syms = N + V
    all_rules = []
    for h in N:
        for ln in range(L + 1):
            for b in itertools.product(syms, repeat=ln):
                all_rules.append((None, h, tuple(b)))
    for k in range(0, r + 1):
        for combo in itertools.combinations(all_rules, k):
            yield G("N0", frozenset(V), list(combo))


def convergent_scale(g, ops_q, candidates=(1, 2, 4, 8, 16), keep_weights=False):
    """Smallest scale for which the grammar's total weight converges comfortably (Kleene check).
    keep_weights: test the grammar with the weights it already carries (scale 1 only)."""
    from .spec import polysys
    for s in candidates:
        gw = g if keep_weights else reweight(g, s)
        eqs = {X: [] for X in gw.N}
        for w, h, b in gw.rules:
            eqs[h].append((w, tuple(y for y in b if y not in gw.V)))
        val = {x: 0.0 for x in eqs}
        ok = True
        prev_delta = None
        for it in range(400):
            new = {}
            for x in eqs:
                tot = 0.0
                for c, syms in eqs[x]:
                    p = float(c)
                    for y in syms:
                        p *= val[y]
                    tot += p
                new[x] = tot
            delta = max((abs(new[x] - val[x]) for x in eqs), default=0.0)
            val = new
            if delta < 1e-13:
                break
            if max(val.values(), default=0) > 1e6:
                ok = False
                break
            prev_delta = delta
        else:
            ok = False
        if ok:
            return s
    return None


def grammar_domain(tier, seed, n_random=None, params=(3, 2, 5, 3)):
    """List of (name, weighted grammar over Q) - corpus plus seeded random samples."""
    from .spec.algebra import Q
    rng = random.Random(seed)
    out = []
    for name, g in grammar_corpus().items():
        s = convergent_scale(g, Q)
        if s is None:
            continue
        out.append((name, reweight(g, s)))
    if n_random is None:
        n_random = 300 if tier == "quick" else 5000
    n, t, r, L = params if tier == "quick" else (4, 3, 7, 3)
    i = 0
    tries = 0
    while i < n_random and tries < 20 * n_random:
        tries += 1
        g = random_grammar(rng, n, t, r, L)
        s = convergent_scale(g, Q)
        if s is None:
            continue
        gw = reweight(g, s, rng)
        # the random prime assignment differs from the one the scale was chosen with: re-test the weights actually returned
        if convergent_scale(gw, Q, candidates=(1,), keep_weights=True) is None:
            gw = reweight(g, s)
        out.append((f"rand{seed}_{i}", gw))
        i += 1
    return out


# ------------------------------------------------------------------ automata
def random_wfsa(rng, q=3, sigma=2, m=5, eps=True, p_eps=0.25, acyclic=False):
    states = list(range(q))
    syms = terms(sigma)
    arcs = []
    k = rng.randint(1, m)
    for _ in range(k):
        i = rng.choice(states)
        j = rng.choice(states)
        if acyclic:
            if i == j:
                continue
            i, j = min(i, j), max(i, j)
        a = EPS if (eps and rng.random() < p_eps) else rng.choice(syms)
        arcs.append((i, a, j))
    ni = rng.randint(1, min(2, q))
    nf = rng.randint(1, min(2, q))
    start = rng.sample(states, ni)
    stop = rng.sample(states, nf)
    n = len(arcs) + ni + nf
    ws = generic_weights(n, scale=2, rng=rng)
    it = iter(ws)
    return A(frozenset(states), {s: next(it) for s in start}, {s: next(it) for s in stop},
             [(i, a, j, next(it)) for (i, a, j) in arcs])


def wfsa_corpus():
    F = Fraction
    c = {}
    c["single"] = A(frozenset([0, 1]), {0: F(1)}, {1: F(1)}, [(0, "a", 1, F(1, 2))])
    c["loop"] = A(frozenset([0]), {0: F(1)}, {0: F(1, 3)}, [(0, "a", 0, F(1, 2))])
    c["eps_loop"] = A(frozenset([0, 1]), {0: F(1)}, {1: F(1, 3)}, [(0, EPS, 0, F(1, 5)), (0, "a", 1, F(1, 2)), (1, EPS, 0, F(1, 7))])
    c["eps_cycle2"] = A(frozenset([0, 1, 2]), {0: F(1, 2)}, {2: F(1, 3)},
                        [(0, EPS, 1, F(1, 3)), (1, EPS, 0, F(1, 5)), (1, "a", 2, F(1, 2)), (2, "b", 0, F(1, 7)), (0, "a", 2, F(1, 11))])
    c["parallel"] = A(frozenset([0, 1]), {0: F(1)}, {1: F(1)}, [(0, "a", 1, F(1, 2)), (0, "a", 1, F(1, 3)), (0, "b", 1, F(1, 5))])
    c["two_init"] = A(frozenset([0, 1, 2]), {0: F(1, 2), 1: F(1, 3)}, {2: F(1), 1: F(1, 5)},
                      [(0, "a", 2, F(1, 2)), (1, "a", 2, F(1, 3)), (1, "b", 1, F(1, 7))])
    c["dead"] = A(frozenset([0, 1, 2, 3]), {0: F(1)}, {1: F(1)}, [(0, "a", 1, F(1, 2)), (0, "a", 2, F(1, 3)), (3, "b", 1, F(1, 5))])
    c["empty_lang"] = A(frozenset([0, 1]), {0: F(1)}, {}, [(0, "a", 1, F(1, 2))])
    c["no_states"] = A(frozenset(), {}, {}, [])
    c["init_final"] = A(frozenset([0]), {0: F(1, 2)}, {0: F(1, 3)}, [])
    c["shared_prefix"] = A(frozenset([0, 1, 2, 3, 4]), {0: F(1)}, {3: F(1, 2), 4: F(1, 3)},
                           [(0, "a", 1, F(1, 2)), (0, "a", 2, F(1, 3)), (1, "b", 3, F(1, 5)), (2, "b", 4, F(1, 7)), (2, "a", 4, F(1, 11))])
    c["eps_to_final"] = A(frozenset([0, 1, 2]), {0: F(1)}, {2: F(1, 2)}, [(0, "a", 1, F(1, 3)), (1, EPS, 2, F(1, 5)), (0, EPS, 2, F(1, 7))])
    return c


def wfsa_domain(tier, seed, n_random=None, **kw):
    rng = random.Random(seed)
    out = list(wfsa_corpus().items())
    if n_random is None:
        n_random = 300 if tier == "quick" else 5000
    q, sigma, m = (3, 2, 5) if tier == "quick" else (4, 2, 8)
    for i in range(n_random):
        out.append((f"rand{seed}_{i}", random_wfsa(rng, q, sigma, m, **kw)))
    return out


def random_fst(rng, q=3, sigma=2, m=5, p_eps=0.3):
    states = list(range(q))
    ins = terms(sigma)
    outs = list("xyz"[:sigma])
    arcs = []
    k = rng.randint(1, m)
    for _ in range(k):
        i = rng.choice(states)
        j = rng.choice(states)
        a = EPS if rng.random() < p_eps else rng.choice(ins)
        b = EPS if rng.random() < p_eps else rng.choice(outs)
        arcs.append((i, (a, b), j))
    ni = rng.randint(1, min(2, q))
    nf = rng.randint(1, min(2, q))
    start = rng.sample(states, ni)
    stop = rng.sample(states, nf)
    n = len(arcs) + ni + nf
    ws = generic_weights(n, scale=2, rng=rng)
    it = iter(ws)
    return A(frozenset(states), {s: next(it) for s in start}, {s: next(it) for s in stop},
             [(i, ab, j, next(it)) for (i, ab, j) in arcs])

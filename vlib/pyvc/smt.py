"""Discharge one VC: assumptions |= goal.  z3 first, cvc5 takes z3's `unknown`s (DESIGN 2.2)."""
import os
import subprocess
import tempfile
import time

import z3

Z3_TIMEOUT_MS = int(os.environ.get("VERIF_Z3_TIMEOUT_MS", "10000"))
CVC5_TIMEOUT_MS = int(os.environ.get("VERIF_CVC5_TIMEOUT_MS", "20000"))


def prove(assumptions, goal, timeout_ms=None, want_model=True, try_cvc5=True):
    """Returns dict(verdict='proved'|'refuted'|'unknown', backend, ms, model)."""
    t0 = time.perf_counter()
    s = z3.Solver()
    s.set("timeout", timeout_ms or Z3_TIMEOUT_MS)
    for a in assumptions:
        s.add(a)
    s.add(z3.Not(goal))
    r = s.check()
    ms = (time.perf_counter() - t0) * 1000
    if r == z3.unsat:
        return dict(verdict="proved", backend="z3", ms=ms, model=None)
    if r == z3.sat:
        m = s.model() if want_model else None
        return dict(verdict="refuted", backend="z3", ms=ms, model=m)
    if try_cvc5:
        r2 = _cvc5(s.to_smt2())
        ms = (time.perf_counter() - t0) * 1000
        if r2 == "unsat":
            return dict(verdict="proved", backend="cvc5", ms=ms, model=None)
        if r2 == "sat":
            return dict(verdict="refuted", backend="cvc5", ms=ms, model=None)
    return dict(verdict="unknown", backend="z3+cvc5" if try_cvc5 else "z3", ms=ms, model=None,
                reason=s.reason_unknown())


def _cvc5(smt2):
    exe = "/usr/bin/cvc5"
    if not os.path.exists(exe):
        return "unknown"
    with tempfile.NamedTemporaryFile("w", suffix=".smt2", delete=False) as f:
        f.write("(set-logic ALL)\n" + smt2)
        p = f.name
    try:
        out = subprocess.run([exe, "--lang", "smt2", f"--tlimit={CVC5_TIMEOUT_MS}", p], capture_output=True, text=True,
                             timeout=CVC5_TIMEOUT_MS / 1000 + 10)
        first = (out.stdout.strip().splitlines() or ["unknown"])[0].strip()
        return first if first in ("sat", "unsat") else "unknown"
    except Exception:  # noqa: BLE001
        return "unknown"
    finally:
        os.unlink(p)


def sat(formulas, timeout_ms=2000):
    s = z3.Solver()
    s.set("timeout", timeout_ms)
    for f in formulas:
        s.add(f)
    return s.check()


def model_value(m, e):
    v = m.eval(e, model_completion=True)
    if z3.is_rational_value(v):
        from fractions import Fraction
        return Fraction(v.numerator_as_long(), v.denominator_as_long())
    if z3.is_int_value(v):
        return v.as_long()
    if z3.is_true(v):
        return True
    if z3.is_false(v):
        return False
    if z3.is_algebraic_value(v):
        from fractions import Fraction
        a = v.approx(20)
        return Fraction(a.numerator_as_long(), a.denominator_as_long())
    return str(v)

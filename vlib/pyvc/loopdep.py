"""Loop-carried state of rule loops.

The generic-rule proof rule ("execute the body of `for r in self` once, for one arbitrary rule") is sound only when an iteration's
effect does not depend on what earlier iterations did.  carried(fn) lists, for every loop of `fn` whose iterable mentions `self`,
the variables that are bound before the loop and written (rebound, subscript/attribute-stored or mutated through a method call)
inside it.  A harness must either see an empty list, or name each carried variable as one it models explicitly (a hook / a contract
for it), or execute the loop for two generic rules in one run."""
import ast

from .frames import MUTATORS

GRAMMAR_BUILD = {"add", "add_arc", "add_I", "add_F", "add_state"}


def _bound_in(stmts):
    out = set()
    for st in stmts:
        for n in ast.walk(st):
            if isinstance(n, ast.Name) and isinstance(n.ctx, ast.Store):
                out.add(n.id)
            elif isinstance(n, (ast.FunctionDef, ast.ClassDef)):
                out.add(n.name)
            elif isinstance(n, ast.arg):
                out.add(n.arg)
    return out


def _root(e):
    while isinstance(e, (ast.Attribute, ast.Subscript, ast.Call)):
        e = e.value if not isinstance(e, ast.Call) else e.func
    return e.id if isinstance(e, ast.Name) else None


def carried(fn, iter_pred=lambda src: "self" in src):
    """[(lineno, iterable source, sorted carried names)]"""
    out = []
    for loop in ast.walk(fn):
        if not isinstance(loop, (ast.For, ast.ListComp, ast.SetComp, ast.DictComp, ast.GeneratorExp)):
            continue
        if not isinstance(loop, ast.For):
            continue
        src = ast.unparse(loop.iter)
        if not iter_pred(src):
            continue
        inner = _bound_in(loop.body) | _bound_in([ast.Expr(loop.target)]) | {n.id for n in ast.walk(loop.target) if isinstance(n, ast.Name)}
        # names first bound inside the loop body are per-iteration unless they are also bound before the loop
        before = set()
        for st in ast.walk(fn):
            if st is loop:
                continue
            if hasattr(st, "lineno") and st.lineno < loop.lineno:
                if isinstance(st, ast.Name) and isinstance(st.ctx, ast.Store):
                    before.add(st.id)
                elif isinstance(st, ast.arg):
                    before.add(st.arg)
        written = {}
        comp_bound = set()
        for n in ast.walk(ast.Module(body=loop.body, type_ignores=[])):
            if isinstance(n, ast.comprehension):
                comp_bound |= {m.id for m in ast.walk(n.target) if isinstance(m, ast.Name)}
        before -= comp_bound - {a.arg for a in fn.args.args}
        # nested functions called from the loop body write through their free variables
        nested = {d.name: d for d in ast.walk(fn) if isinstance(d, ast.FunctionDef) and d is not fn}
        body_nodes = list(ast.walk(ast.Module(body=loop.body, type_ignores=[])))
        for n in list(body_nodes):
            if isinstance(n, ast.Call) and isinstance(n.func, ast.Name) and n.func.id in nested:
                d = nested[n.func.id]
                local = _bound_in(d.body) | {a.arg for a in d.args.args}
                for m in ast.walk(ast.Module(body=d.body, type_ignores=[])):
                    r = None
                    if isinstance(m, (ast.Subscript, ast.Attribute)) and isinstance(m.ctx, (ast.Store, ast.Del)):
                        r = _root(m)
                    elif isinstance(m, ast.Call) and isinstance(m.func, ast.Attribute) and m.func.attr in MUTATORS and m.func.attr != "add":
                        r = _root(m.func.value)
                    elif isinstance(m, ast.Nonlocal):
                        for nm in m.names:
                            written.setdefault(nm, f"nonlocal in {d.name}()")
                    if r is not None and r not in local:
                        written.setdefault(r, f"written by {d.name}()")
        for n in body_nodes:
            if isinstance(n, ast.Name) and isinstance(n.ctx, ast.Store) and n.id in before:
                # rebinding matters only if the iteration can read the previous iteration's value: first occurrence is a read
                occ = sorted(((m.lineno, m.col_offset, isinstance(m.ctx, ast.Load)) for m in ast.walk(ast.Module(body=loop.body, type_ignores=[]))
                              if isinstance(m, ast.Name) and m.id == n.id), key=lambda t: t[:2])
                if occ and occ[0][2]:
                    written.setdefault(n.id, "rebound after read")
            elif isinstance(n, (ast.Subscript, ast.Attribute)) and isinstance(n.ctx, (ast.Store, ast.Del)):
                r = _root(n)
                if r is not None and (r in before or r not in inner):
                    written.setdefault(r, "store " + ast.unparse(n)[:40])
            elif isinstance(n, ast.AugAssign):
                r = _root(n.target)
                if r is not None and (r in before or r not in inner):
                    written.setdefault(r, "augmented " + ast.unparse(n.target)[:40])
            elif isinstance(n, ast.Call) and isinstance(n.func, ast.Attribute) and n.func.attr in MUTATORS | GRAMMAR_BUILD:
                r = _root(n.func.value)
                if r is not None and (r in before or r not in inner):
                    if n.func.attr in GRAMMAR_BUILD or (n.func.attr == "add" ):
                        written.setdefault(r, "build ." + n.func.attr)
                    else:
                        written.setdefault(r, "mutated ." + n.func.attr)
        out.append((loop.lineno, src, sorted((k, v) for k, v in written.items())))
    return out

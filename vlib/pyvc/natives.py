"""Models of the external functions the code under contract calls (assumption A7), for the interpreter."""
import math
import re as _re
from fractions import Fraction

import z3

from .interp import Native, Z, XR, POS_INF, NEG_INF, to_real, OutOfSubset, PyRaise, is_numlike
from .explog import EXP, LOG


class NullContext:
    pyvc_null_context = True


class NumpyStub:
    """np.exp / np.log / np.log1p / np.expm1 / np.log2 / np.inf on mathematical (extended) reals."""

    def __pyvc_getattr__(self, interp, name, node):
        if name == "inf":
            return POS_INF
        if name == "errstate":
            return Native("np.errstate", lambda i2, a, k: NullContext())
        if name in ("multiply", "add"):
            import ast as _ast
            op = _ast.Mult() if name == "multiply" else _ast.Add()
            return Native("np." + name, lambda i2, a, k, op=op: i2.binop(op, a[0], a[1]))   # scalars; fixed-width wrap of int64 is NOT modelled (A1)
        if name in ("exp", "log", "log1p", "log2", "expm1"):
            return Native("np." + name, getattr(self, "_" + name))
        raise OutOfSubset("numpy." + name)

    @staticmethod
    def _concrete(v):
        return isinstance(v, (int, Fraction, float)) and not isinstance(v, bool)

    def _exp(self, interp, args, kw):
        (x,) = args
        if self._concrete(x):
            return Fraction(math.exp(float(x))) if x != 0 else Fraction(1)
        x = XR.of(x)
        interp.path.side.append(("exp-finite", z3.Not(x.pos), None))
        return Z(z3.If(x.neg, z3.RealVal(0), EXP(x.val)))

    def _log(self, interp, args, kw):
        (u,) = args
        if self._concrete(u):
            if u < 0:
                raise PyRaise("ValueError", "log of negative")
            if u == 0:
                return NEG_INF
            return Fraction(math.log(float(u))) if u != 1 else Fraction(0)
        if isinstance(u, XR):
            raise OutOfSubset("log of extended real")
        u = to_real(u)
        interp.path.side.append(("log-domain", u >= 0, None))
        return XR(u == 0, z3.BoolVal(False), LOG(u))

    def _log1p(self, interp, args, kw):
        (y,) = args
        return self._log(interp, [interp.binop(__import__("ast").Add(), 1, y)], {})

    def _expm1(self, interp, args, kw):
        (y,) = args
        return interp.binop(__import__("ast").Sub(), self._exp(interp, [y], {}), 1)

    def _log2(self, interp, args, kw):
        (u,) = args
        if self._concrete(u):
            return Fraction(math.log2(float(u)))
        raise OutOfSubset("np.log2 on symbolic value")


class ReStub:
    def __pyvc_getattr__(self, interp, name, node):
        if name == "findall":
            def f(interp, args, kw):
                if not all(isinstance(a, str) for a in args):
                    raise OutOfSubset("re.findall on symbolic string")
                return [tuple(m) if isinstance(m, tuple) else m for m in _re.findall(*args)]
            return Native("re.findall", f)
        raise OutOfSubset("re." + name)


def standard_natives():
    return {"numpy": NumpyStub(), "re": ReStub()}

"""Harness for loop-generic ("guarded insertion") verification of grammar-building functions.

`for r in self` over a symbolic grammar yields ONE generic rule, so the loop body is executed once for an
arbitrary element; every `new.add(...)` is recorded with the path condition.  A postcondition of the form
"for every rule of the result: phi(rule)" then holds if it holds at every recorded add site - sound as long
as the loop-carried state the body reads is abstracted by its invariant (done per function by the caller).
"""
import ast

import z3

from . import interp as I, symstruct as S, smt

W = z3.DeclareSort("W")
wadd = z3.Function("wadd", W, W, W)
wmul = z3.Function("wmul", W, W, W)
w0 = z3.Const("R_zero", W)
w1 = z3.Const("R_one", W)
UF = {("W", "Add"): wadd, ("W", "Mult"): wmul}


class Bag:
    def __init__(self, **kw):
        self.__dict__["f"] = dict(kw)

    def __pyvc_getattr__(self, interp, name, node):
        if name in self.f:
            return self.f[name]
        raise I.PyRaise("AttributeError", f"no attribute {name}", node)

    def __pyvc_setattr__(self, interp, name, v):
        self.f[name] = v


class OnRhs(S.SymSet):
    """{y for r in G for y in r.body}: membership predicate; every body symbol of every rule of G is a member."""


class GramRec:
    """A grammar under construction (result of spawn / CFG(...)): records add() calls."""

    fork_on_zero = True

    def __init__(self, name, S_sym, V, R):
        self.name = name
        self.adds = []            # dict(w, head, body, guard)
        self.f = dict(S=S_sym, V=V, R=R)

    def __pyvc_getattr__(self, interp, name, node):
        if name == "add":
            def add(it, args, kw):
                w, head, body = S.collect_body(args)
                # contract of CFG.add (verified separately): stores Rule(w, head, body) iff w != R.zero, returns it (else None)
                wz = I.zexpr(w)
                z = I.zexpr(it.getattr(self.f["R"], "zero"))
                is_zero = (wz == z) if wz.sort() == z.sort() else (I.to_real(w) == I.to_real(it.getattr(self.f["R"], "zero")))
                if self.fork_on_zero:
                    if it.path.decide(is_zero):
                        return None
                    guard = None
                else:
                    guard = z3.Not(is_zero)   # caller ignores the return value: record the rule under its guard
                rec = dict(w=w, head=head, body=body, guard=guard)
                self.adds.append(rec)
                return S.RuleVal(w, head, body)
            return I.Native(self.name + ".add", add)
        if name in self.f:
            return self.f[name]
        raise I.PyRaise("AttributeError", f"'CFG' object has no attribute '{name}'", node)

    def __pyvc_setattr__(self, interp, name, v):
        self.f[name] = v


class VCopy:
    """set(self.V): a fresh set object with the same members (spawn's contract: V is copied, not aliased)."""

    def __init__(self, base):
        self.base = base
        self.extra = []

    def __pyvc_contains__(self, interp, x):
        cs = [self.base.mem(I.zexpr(x))] + [I.zexpr(x) == I.zexpr(e) for e in self.extra]
        return I.Z(z3.Or(*cs)) if len(cs) > 1 else I.Z(cs[0])

    def __pyvc_getattr__(self, interp, name, node):
        if name == "add":
            return I.Native("V.add", lambda it, a, k: self.extra.append(a[0]))
        raise I.OutOfSubset("V." + name)


class GramRecNoFork(GramRec):
    fork_on_zero = False


class GramSelf:
    """The symbolic input grammar `self`."""
    rec_class = GramRec

    def __init__(self, path, name="G", wsort=None, extra_methods=None):
        self.name = name
        self.wsort = W if wsort is None else wsort
        self.path = path
        self.S = S.sym(f"S_{name}")
        self.V = S.SymSet(f"V_{name}")
        self.N = S.SymSet(f"N_{name}")
        self.onrhs = OnRhs(f"rhs_{name}")
        zero = I.Z(w0) if self.wsort == W else 0
        one = I.Z(w1) if self.wsort == W else 1
        self.R = Bag(zero=zero, one=one)
        self.generic = []
        self.spawned = []
        self.methods = dict(extra_methods or {})
        self.counter = 0
        if self.wsort == W:
            path.assume(w0 != w1)
        # CFG.wf: the start symbol is a nonterminal
        path.assume(self.N.mem(self.S.e))
        path.assume(z3.Not(self.V.mem(self.S.e)))

    def new_rule(self, tag="r"):
        self.counter += 1
        nm = f"{tag}{self.counter}_{self.name}"
        w = I.Z(z3.Const(f"w_{nm}", self.wsort))
        head = S.sym(f"head_{nm}")
        body = S.BaseSeq(f"body_{nm}")
        self.path.assume(body.L >= 0)
        # CFG.wf: heads are nonterminals (in N, not in V); stored rules have non-zero weight
        self.path.assume(self.N.mem(head.e))
        self.path.assume(z3.Not(self.V.mem(head.e)))
        if self.wsort == W:
            self.path.assume(w.e != w0)
        else:
            self.path.assume(w.e != 0)
        r = S.RuleVal(w, head, body)
        self.generic.append(r)
        return r

    def __pyvc_iter__(self, interp):
        return [self.new_rule()]

    def __pyvc_getattr__(self, interp, name, node):
        if name in self.methods:
            return self.methods[name]
        if name == "S":
            return self.S
        if name == "V":
            return self.V
        if name == "N":
            return self.N
        if name == "R":
            return self.R
        if name == "rules":
            return self
        if name == "is_terminal":
            return I.Native("is_terminal", lambda it, a, k: self.V.__pyvc_contains__(it, a[0]))
        if name == "is_nonterminal":
            return I.Native("is_nonterminal", lambda it, a, k: it.negate(self.V.__pyvc_contains__(it, a[0])))
        if name == "spawn":
            def spawn(it, args, kw):
                g = self.rec_class(f"new{len(self.spawned)}", kw.get("S") if kw.get("S") is not None else self.S,
                            kw.get("V") if kw.get("V") is not None else VCopy(self.V),
                            kw.get("R") if kw.get("R") is not None else self.R)
                self.spawned.append(g)
                return g
            return I.Native("spawn", spawn)
        raise I.OutOfSubset(f"CFG.{name} has no contract in this harness")


def gen_nt_native(gs, log):
    """_gen_nt(): returns a symbol that is fresh (assumption: not a symbol of the grammar, never returned before)."""
    def f(it, args, kw):
        s = S.fresh("gen_nt")
        it.path.assume(z3.Not(gs.V.mem(s)))
        it.path.assume(z3.Not(gs.N.mem(s)))
        it.path.assume(z3.Not(gs.onrhs.mem(s)))
        it.path.assume(s != gs.S.e)
        for o in log:
            it.path.assume(s != o)
        log.append(s)
        return I.Z(s)
    return I.Native("_gen_nt", f)


def rule_native():
    def f(it, args, kw):
        w, head, body = args
        return S.RuleVal(w, head, S.as_seq(body))
    return I.Native("Rule", f)


def semiring_axioms(terms):
    """Ground instances used by shape proofs: 0 annihilates (so a non-zero product has non-zero factors)."""
    ax = []
    seen = set()

    def rec(e):
        if e.get_id() in seen:
            return
        seen.add(e.get_id())
        if z3.is_app(e):
            if e.decl().eq(wmul):
                a, b = e.arg(0), e.arg(1)
                ax.append(z3.Implies(z3.Or(a == w0, b == w0), e == w0))
            for c in e.children():
                rec(c)

    for t in terms:
        rec(t)
    return ax


def prove_all(path, goals, extra=()):
    """Each goal under the path condition (+ annihilation instances).  Returns (verdict, ms, model_of_first_failure)."""
    ms = 0.0
    for g in goals:
        if g is True:
            continue
        ge = z3.BoolVal(False) if g is False else (g.e if isinstance(g, I.Z) else g)
        fs = list(path.pc) + list(extra)
        ax = semiring_axioms(fs + [ge])
        r = smt.prove(fs + ax, ge)
        ms += r["ms"]
        if r["verdict"] != "proved":
            return r["verdict"], ms, r.get("model"), ge
    return "proved", ms, None, None

"""Symbolic data structures for loop-generic verification (DESIGN 2.2 'guarded insertion').

Symbols (nonterminals, terminals, states, labels) are z3 Ints (an uninterpreted infinite carrier; only
equality is used, A3).  Sequences of symbols with *symbolic length* are lazy objects whose elements are
produced on demand at a (possibly symbolic) index, so every VC stays quantifier-free:

  BaseSeq(name)      uninterpreted: length L_name >= 0, element elem_name(i)
  TupleSeq([...])    concrete length, symbolic elements (also what python tuples of symbols coerce to)
  ConcatSeq(parts)   a ++ b ++ ...
  SliceSeq(s, lo, hi)
  MapSeq(s, fn)      (fn(y) for y in s)  - fn is evaluated lazily at the demanded index

Quantified facts met on a path (e.g. `set(p.body) <= symbols` being true) are registered on the path as
instantiation schemas and instantiated at the generic indices the postcondition talks about.
"""
import ast
import itertools

import z3

from .interp import Z, OutOfSubset, PyRaise, zexpr, Obj

SYM = z3.IntSort()
_ids = itertools.count()


def fresh(prefix, sort=None):
    return z3.Const(f"{prefix}!{next(_ids)}", SYM if sort is None else sort)


def sym(name):
    return Z(z3.Const(name, SYM))


class Star:
    """Marker for a *seq argument in a call."""

    def __init__(self, seq):
        self.seq = seq


class LSeq:
    is_lseq = True

    # ---- protocol used by the interpreter
    def __pyvc_len__(self, interp):
        n = self.length()
        return n if isinstance(n, int) else Z(n)

    def __pyvc_getitem__(self, interp, k, node):
        if isinstance(k, slice):
            if k.step is not None:
                raise OutOfSubset("slice step on symbolic sequence")
            return SliceSeq(self, k.start, k.stop)
        n = self.length()
        if isinstance(k, int) and k < 0:
            k = (n + k) if isinstance(n, int) else Z(n + k)
        ke = zexpr(k)
        ne = n if not isinstance(n, int) else z3.IntVal(n)
        if not interp.path.decide(z3.And(ke >= 0, ke < ne)):
            raise PyRaise("IndexError", "sequence index out of range", node)
        return self.at(interp, k)

    def __pyvc_iter__(self, interp):
        n = self.length()
        if isinstance(n, int):
            return [self.at(interp, i) for i in range(n)]
        k = forced_value(interp.path, n)
        if k is not None:
            return [self.at(interp, i) for i in range(k)]
        raise OutOfSubset("iteration over a sequence of symbolic length (needs a loop contract)")

    def __pyvc_unpack__(self, interp, n):
        L = self.length()
        if isinstance(L, int):
            if L != n:
                raise PyRaise("ValueError", f"unpack: expected {n} values")
        elif not interp.path.decide(L == n):
            raise PyRaise("ValueError", f"unpack: expected {n} values")
        return [self.at(interp, i) for i in range(n)]

    def __pyvc_binop__(self, interp, op, other, reflected, node):
        if isinstance(op, ast.Add):
            o = as_seq(other)
            return ConcatSeq([o, self] if reflected else [self, o])
        raise OutOfSubset("operator on symbolic sequence")

    def __pyvc_truth__(self, interp):
        n = self.length()
        if isinstance(n, int):
            return n > 0
        return interp.path.decide(n > 0)

    def __pyvc_eq__(self, interp, other):
        if isinstance(other, tuple) and len(other) == 0:
            n = self.length()
            return (n == 0) if isinstance(n, int) else Z(n == 0)
        if other is self:
            return True
        raise OutOfSubset("equality of symbolic sequences")

    def __pyvc_contains__(self, interp, x):
        n = self.length()
        if isinstance(n, int):
            cs = [interp.equals(x, self.at(interp, i)) for i in range(n)]
            cs = [c for c in cs if c is not False]
            if any(c is True for c in cs):
                return True
            return Z(z3.Or(*[c.e for c in cs])) if cs else False
        raise OutOfSubset("membership in a sequence of symbolic length")


def forced_value(path, n, upto=4):
    """If the path condition forces the integer term n to one value in 0..upto, return it."""
    s = z3.Solver()
    s.set("timeout", 500)
    for c in path.pc:
        s.add(c)
    for k in range(upto + 1):
        s.push()
        s.add(n != k)
        r = s.check()
        s.pop()
        if r == z3.unsat:
            return k
    return None


def as_seq(v):
    if isinstance(v, LSeq):
        return v
    if isinstance(v, (tuple, list)):
        return TupleSeq(list(v))
    raise OutOfSubset(f"cannot use {type(v).__name__} as a symbol sequence")


class BaseSeq(LSeq):
    def __init__(self, name, path=None, maxlen=None):
        self.name = name
        self.L = z3.Int(f"len_{name}")
        self.elem = z3.Function(f"elem_{name}", z3.IntSort(), SYM)
        self.constraints = [self.L >= 0]

    def length(self):
        return self.L

    def at(self, interp, i):
        return Z(self.elem(zexpr(i)))

    def __repr__(self):
        return f"BaseSeq({self.name})"


class TupleSeq(LSeq):
    def __init__(self, items):
        self.items = list(items)

    def length(self):
        return len(self.items)

    def at(self, interp, i):
        if isinstance(i, int):
            return self.items[i]
        ie = zexpr(i)
        for k in range(len(self.items)):
            if interp.path.decide(ie == k):
                return self.items[k]
        raise PyRaise("IndexError", "index out of range")

    def __repr__(self):
        return f"TupleSeq({self.items})"


class ConcatSeq(LSeq):
    def __init__(self, parts):
        ps = []
        for p in parts:
            p = as_seq(p)
            if isinstance(p, ConcatSeq):
                ps.extend(p.parts)
            elif isinstance(p, TupleSeq) and not p.items:
                continue
            else:
                ps.append(p)
        self.parts = ps

    def length(self):
        n = 0
        for p in self.parts:
            n = n + p.length()
        return z3.simplify(n) if not isinstance(n, int) else n

    def at(self, interp, i):
        off = 0
        ie = zexpr(i)
        for k, p in enumerate(self.parts):
            pl = p.length()
            last = k == len(self.parts) - 1
            if last or interp.path.decide(ie < off + pl):
                j = ie - off
                j = z3.simplify(j)
                return p.at(interp, j.as_long() if z3.is_int_value(j) else Z(j))
            off = off + pl
        raise PyRaise("IndexError", "index out of range")


class SliceSeq(LSeq):
    def __init__(self, base, lo, hi):
        self.base = as_seq(base)
        n = self.base.length()

        def norm(v, default):
            if v is None:
                return default
            if isinstance(v, int) and v < 0:
                return n + v
            return v if isinstance(v, int) else zexpr(v)

        self.lo = norm(lo, 0)
        self.hi = norm(hi, n)

    def _bounds(self):
        n = self.base.length()
        lo, hi = self.lo, self.hi
        if all(isinstance(x, int) for x in (n, lo, hi)):
            lo2 = min(max(lo, 0), n)
            hi2 = min(max(hi, lo2), n)
            return lo2, hi2
        lo_e = lo if not isinstance(lo, int) else z3.IntVal(lo)
        hi_e = hi if not isinstance(hi, int) else z3.IntVal(hi)
        n_e = n if not isinstance(n, int) else z3.IntVal(n)
        lo2 = z3.If(lo_e < 0, 0, z3.If(lo_e > n_e, n_e, lo_e))
        hi2 = z3.If(hi_e < lo2, lo2, z3.If(hi_e > n_e, n_e, hi_e))
        return lo2, hi2

    def length(self):
        lo, hi = self._bounds()
        n = hi - lo
        return n if isinstance(n, int) else z3.simplify(n)

    def at(self, interp, i):
        lo, _ = self._bounds()
        j = (lo + i) if isinstance(lo, int) and isinstance(i, int) else z3.simplify((lo if not isinstance(lo, int) else z3.IntVal(lo)) + zexpr(i))
        if not isinstance(j, int) and z3.is_int_value(j):
            j = j.as_long()
        return self.base.at(interp, j if isinstance(j, int) else Z(j))


class MapSeq(LSeq):
    def __init__(self, base, fn):
        self.base = as_seq(base)
        self.fn = fn  # python callable (interp, element) -> value

    def length(self):
        return self.base.length()

    def at(self, interp, i):
        return self.fn(interp, self.base.at(interp, i))


# ------------------------------------------------------------------ sets and maps of symbols
class SymSet:
    """Symbolic set of symbols given by a membership predicate."""

    def __init__(self, name):
        self.name = name
        self.mem = z3.Function(f"in_{name}", SYM, z3.BoolSort())

    def __pyvc_iter__(self, interp):
        # `for Y in <set>`: one generic member
        y = fresh(f"member_{self.name}")
        interp.path.assume(self.mem(y))
        return [Z(y)]

    def __pyvc_contains__(self, interp, x):
        return Z(self.mem(zexpr(x)))

    def __repr__(self):
        return f"SymSet({self.name})"


class SeqAsSet:
    """set(seq)"""

    def __init__(self, seq):
        self.seq = as_seq(seq)

    def __pyvc_cmp__(self, interp, op, other, reflected, node):
        if isinstance(op, ast.LtE) and not reflected and isinstance(other, SymSet):
            n = self.seq.length()
            if isinstance(n, int):
                cs = [other.mem(zexpr(self.seq.at(interp, i))) for i in range(n)]
                return Z(z3.And(*cs)) if cs else True
            b = fresh("subset", z3.BoolSort())
            seq = self.seq
            # b  <=>  forall i. 0 <= i < len  =>  seq[i] in other ; registered as instantiation schema (=> direction when true)
            interp.path.qfacts.append(("subset", b, seq, other))
            return Z(b)
        raise OutOfSubset("set comparison")


class SymMap:
    """Total symbolic map Sym -> value sort (a Chart / dict read; missing keys are covered by the contract)."""

    def __init__(self, name, vsort, keys=1):
        self.name = name
        self.f = z3.Function(f"map_{name}", *([SYM] * keys), vsort)
        self.keys = keys

    def __pyvc_getitem__(self, interp, k, node):
        if self.keys == 1:
            return Z(self.f(zexpr(k)))
        return Z(self.f(*[zexpr(x) for x in k]))

    def __pyvc_getattr__(self, interp, name, node):
        if name == "get":
            from .interp import Native
            return Native("get", lambda it, args, kw: self.__pyvc_getitem__(it, args[0], None))
        raise OutOfSubset(f"SymMap.{name}")


# ------------------------------------------------------------------ generic rule and recording grammar
def generic_rule(interp, env, name="r", wsort=None):
    """A generic element of a rule list: Rule object built through the real Rule class when available."""
    w = Z(z3.Const(f"w_{name}", wsort)) if wsort is not None else None
    head = sym(f"head_{name}")
    body = BaseSeq(f"body_{name}")
    return RuleVal(w, head, body)


class RuleVal:
    """Immutable view of a Rule (fields w, head, body); the real Rule.__init__ only stores them (+ a hash)."""

    def __init__(self, w, head, body):
        self.w = w
        self.head = head
        self.body = body

    def __pyvc_getattr__(self, interp, name, node):
        if name in ("w", "head", "body"):
            return getattr(self, name)
        raise PyRaise("AttributeError", f"'Rule' object has no attribute '{name}'", node)


class Recorder:
    """A spawned result object: records the calls made on it together with the path condition."""

    def __init__(self, name, methods):
        self.name = name
        self.methods = methods
        self.calls = []   # (method, args, kwargs, pc snapshot)
        self.fields = {}

    def __pyvc_getattr__(self, interp, name, node):
        from .interp import Native
        if name in self.fields:
            return self.fields[name]
        if name in self.methods:
            def f(it, args, kw, name=name):
                self.calls.append((name, list(args), dict(kw), list(it.path.pc)))
                h = self.methods[name]
                return h(it, self, args, kw) if h is not None else None
            return Native(f"{self.name}.{name}", f)
        raise PyRaise("AttributeError", f"'{self.name}' object has no attribute '{name}'", node)

    def __pyvc_setattr__(self, interp, name, v):
        self.fields[name] = v


def collect_body(args):
    """Turn the positional args of new.add(w, head, *body) into (w, head, LSeq body)."""
    w, head, rest = args[0], args[1], args[2:]
    parts = []
    cur = []
    for a in rest:
        if isinstance(a, Star):
            if cur:
                parts.append(TupleSeq(cur))
                cur = []
            parts.append(a.seq)
        else:
            cur.append(a)
    if cur:
        parts.append(TupleSeq(cur))
    if len(parts) == 1:
        return w, head, parts[0]
    return w, head, ConcatSeq(parts)


def instantiate_qfacts(interp, path, index_terms):
    """Instances of the quantified facts registered on the path, at the given (seq, index) pairs."""
    out = []
    for kind, b, seq, other in getattr(path, "qfacts", []):
        if kind == "subset":
            n = seq.length()
            ne = n if not isinstance(n, int) else z3.IntVal(n)
            for idx in index_terms:
                ie = zexpr(idx)
                # evaluating seq.at may fork; callers instantiate only on BaseSeq/Slice/Concat chains
                v = seq.at(interp, idx)
                out.append(z3.Implies(z3.And(b, ie >= 0, ie < ne), other.mem(zexpr(v))))
    return out


class SymDict:
    """A dict whose keys are symbolic symbols: lookup decides equality with the stored keys (forks)."""

    def __init__(self):
        self.items = []

    def __pyvc_contains__(self, interp, x):
        cs = [zexpr(x) == zexpr(k) for k, _ in self.items]
        if not cs:
            return False
        return Z(z3.Or(*cs)) if len(cs) > 1 else Z(cs[0])

    def __pyvc_getitem__(self, interp, k, node):
        for key, val in self.items:
            if interp.path.decide(zexpr(k) == zexpr(key)):
                return val
        raise PyRaise("KeyError", repr(k), node)

    def __pyvc_setitem__(self, interp, k, v):
        for i, (key, _) in enumerate(self.items):
            if z3.is_true(z3.simplify(zexpr(k) == zexpr(key))):
                self.items[i] = (key, v)
                return
        self.items.append((k, v))

    def __pyvc_getattr__(self, interp, name, node):
        if name == "get":
            from .interp import Native

            def get(it, a, kw):
                for key, val in self.items:
                    if it.path.decide(zexpr(a[0]) == zexpr(key)):
                        return val
                return a[1] if len(a) > 1 else None
            return Native("get", get)
        raise OutOfSubset("SymDict." + name)

"""Frame / ownership checker (DESIGN 2.4): proves `modifies` clauses of the real functions from their AST.

For each function the checker walks the body once (all branches, loops included - the analysis is
flow-insensitive inside loops and conservative) and classifies every *store* :

    x.f = v   x[k] = v   x[k] op= v   x op= v (on a mutable)   del x[k]
    x.append/add/update/extend/insert/pop/popitem/clear/remove/discard/setdefault/sort/reverse(...)
    f(..., x, ...) where the callee's contract says it writes through that argument

A store is allowed iff its root object is OWNED (created in this activation: constructor call, literal,
comprehension, copy, result of a callee whose contract returns a fresh object - including the *fields*
that the constructor contract makes fresh) or the written location is listed in the function's `modifies`.
Reads through defaultdict-style containers (`d[k]` inserting a default) are view-preserving and are not stores.
Anything the checker cannot classify is an undischarged obligation (never a pass).
"""
import ast

MUTATORS = {"append", "add", "update", "extend", "insert", "pop", "popitem", "clear", "remove", "discard",
            "setdefault", "sort", "reverse", "appendleft", "popleft", "difference_update", "intersection_update",
            "symmetric_difference_update"}

DUNDER_WRITERS = {"__setattr__", "__delattr__", "__setitem__", "__delitem__", "__iadd__", "__isub__", "__imul__", "__ior__", "__iand__",
                  "__ixor__", "__itruediv__", "__ifloordiv__", "__imod__", "__ipow__", "__imatmul__", "__ilshift__", "__irshift__"}
NUMPY_WRITERS = {"put", "place", "copyto", "fill_diagonal", "putmask", "put_along_axis", "at", "shuffle", "seed"}

# constructors / calls that return a fresh object (no aliasing of their arguments' identity as the returned container)
FRESH_CALLS = {"set", "list", "dict", "tuple", "frozenset", "defaultdict", "Counter", "deque", "sorted", "reversed", "zip", "enumerate",
               "range", "Rule", "Derivation", "Column", "Node", "LocatorMaxHeap", "Integerizer", "WeightedGraph", "frozendict",
               "Chart", "Simple", "product", "iter", "map", "filter", "str", "int", "float", "bool", "len", "max", "min", "sum", "abs",
               "any", "all", "isinstance", "hash", "repr", "format", "getattr", "type", "print", "Boolean", "Expectation", "Slash",
               "Other", "NotNull", "_gen_nt", "slash", "f", "bot", "Digraph", "WFSA", "FST", "CFG", "EarleyLM", "Earley", "CKYLM",
               "IncrementalCKY", "_CKYModel", "Entropy", "Real", "MaxPlus", "MaxTimes", "Log", "name", "rename", "Semiring",
               "prefix_transducer", "epsilon_filter_fst", "ValueError", "NotImplementedError", "AssertionError", "TypeError", "KeyError",
               "locally_normalize", "add_EOS", "interegular_to_wfsa", "scc_decomposition", "approx_equal", "proj", "super", "next", "zip_longest"}

# methods that return a fresh object whatever the receiver (receiver not modified)
FRESH_METHODS = {"spawn", "copy", "chart", "items", "keys", "values", "split", "strip", "encode", "join", "format", "replace",
                 "union", "intersection", "difference", "get", "trim", "cotrim", "_trim", "rename", "renumber", "map_values",
                 "unaryremove", "unarycycleremove", "nullaryremove", "separate_start", "separate_terminals", "binarize", "_fold",
                 "_push_null_weights", "null_weight", "agenda", "naive_bottom_up", "_bottom_up_step", "derivative", "derivatives",
                 "truncate_length", "materialize", "to_bytes", "to_cfg", "to_fst", "language", "derivations", "_derivations_list",
                 "dependency_graph", "_unary_graph", "_unary_graph_transpose", "closure", "closure_scc_based", "closure_reference",
                 "solve_left", "solve_right", "_closure", "filter", "project", "normalize", "sort", "sort_descending", "top",
                 "product", "sum", "metric", "star", "from_string", "from_strings", "lift", "diag", "arcs", "_blocks",
                 "_compose_bottom_up_epsilon", "treesum", "has_unary_cycle", "in_cnf", "_find_invalid_cnf_rule", "is_terminal",
                 "is_nonterminal", "_parse_chart", "null_weight_start", "prefix_weight", "unfold", "Yield", "weight", "startswith",
                 "isupper", "lower", "upper", "index", "count", "issubset", "most_common", "popitem_", "accessible", "co_accessible",
                 "rename_apart", "_augment_epsilon_transitions", "_compose", "_pruned_compose", "prune_to_alphabet", "coarsen",
                 "kleene_plus", "total_weight", "threshold", "counterexample", "forward_conjugate", "backward_conjugate",
                 "forward_basis", "to_wfsa", "multiplicity", "convert", "char_cfg", "byte_cfg", "_char_cfg", "to_regexp",
                 "parse_pattern", "to_fsm", "islive", "findall", "log", "exp", "log1p", "full", "zeros", "hstack", "array", "pinv",
                 "allclose", "p_next", "logp_next", "next_token_weights", "_helper", "__getitem__", "from_pairs", "load_grammar",
                 "build", "compile", "GrammarBuilder", "Parser", "graphviz", "assert_equal", "warn", "rescale", "log_rescale", "logp",
                 "p_next_seq", "sample", "expand_alphabet", "preterminal", "join", "update_", "argmax", "argmin", "max", "min",
                 "next_column", "extend_chart", "chain", "prefix_grammar", "cnf", "_cnf", "rhs"}


def _exits(stmts):
    """Does this statement list always leave the enclosing block (return / raise / continue / break)?"""
    return bool(stmts) and isinstance(stmts[-1], (ast.Return, ast.Raise, ast.Continue, ast.Break))


class Spec:
    """modifies: allowed written locations, as source prefixes ('self._chart', 'self._trim_cache', 'param:col' ...).
    owns_fields: for callee contracts: which fields of a fresh result are fresh (default: all)."""

    def __init__(self, modifies=(), writes_args=None, returns="fresh", note=""):
        self.modifies = tuple(modifies)
        self.writes_args = writes_args or {}
        self.returns = returns
        self.note = note


class Finding:
    def __init__(self, lineno, what, loc=None):
        self.lineno = lineno
        self.what = what
        self.loc = loc          # source text of the written location (`self._q`, `self.cfg.rules`, `col.i_chart`) when known

    def __repr__(self):
        return f"line {self.lineno}: {self.what}"


class FrameChecker(ast.NodeVisitor):
    """One function.  callee_specs: name -> Spec for repo methods called on possibly external receivers."""

    def __init__(self, fn, spec, callee_specs, aliasing_ctor_params=("V",), cached_self=False, resolver=None, depth=0):
        self.resolver = resolver  # name -> FunctionDef of a sibling method (`self.<name>(..)` with no contract is analysed in place)
        self.depth = depth
        self.fn = fn
        self.spec = spec
        self.callees = callee_specs
        self.owned = set()        # local names bound to objects created in this activation
        self.alias_V = set()      # fresh grammars whose V field aliases an external set
        self.elem_owned = set()   # owned containers all of whose (nested) elements were also created here
        self.findings = []
        self.unclassified = []
        self.params = [a.arg for a in fn.args.posonlyargs + fn.args.args + fn.args.kwonlyargs]
        if fn.args.vararg:
            self.params.append(fn.args.vararg.arg)
        if fn.args.kwarg:
            self.params.append(fn.args.kwarg.arg)
        self.nested = {}
        self.alias = {}
        self.deferred = []

    # ---------------------------------------------------------------- ownership of expressions
    def is_owned_expr(self, e):
        """Does evaluating e yield an object created in this activation (so writing to it is invisible outside)?"""
        if isinstance(e, (ast.List, ast.Dict, ast.Set, ast.Tuple, ast.ListComp, ast.SetComp, ast.DictComp, ast.GeneratorExp,
                          ast.Constant, ast.JoinedStr, ast.BinOp, ast.UnaryOp, ast.Compare, ast.BoolOp, ast.Lambda)):
            return True
        if isinstance(e, ast.IfExp):
            return self.is_owned_expr(e.body) and self.is_owned_expr(e.orelse)
        if isinstance(e, ast.Name):
            return e.id in self.owned
        if isinstance(e, ast.Call):
            f = e.func
            if isinstance(f, ast.Name):
                return f.id in FRESH_CALLS or f.id in self.nested or f.id == "cls"
            if isinstance(f, ast.Attribute):
                if f.attr in ("__class__",):
                    return True
                if isinstance(f.value, ast.Attribute) and f.value.attr == "__class__":
                    return True
                if f.attr == "chart":
                    # R.chart() / semiring.chart() create a Chart; <parser>.chart(prefix) returns the *memoised* list
                    r = ast.unparse(f.value)
                    return r.split(".")[-1] in ("R", "semiring", "WeightType", "Float", "cls")
                if f.attr in FRESH_METHODS:
                    return True
                if isinstance(f.value, ast.Name) and f.value.id == "self" and self.resolver is not None and self.depth < 3 and f.attr not in self.callees:
                    callee = self.resolver(f.attr)
                    if callee is not None and callee is not self.fn:
                        # sibling helper without a contract: fresh iff every `return` of it yields an object it created
                        sub = FrameChecker(callee, Spec(modifies=self.spec.modifies), self.callees, resolver=self.resolver, depth=self.depth + 1)
                        sub.check()
                        rets = [n for n in ast.walk(callee) if isinstance(n, ast.Return)]
                        return bool(rets) and all(r.value is not None and sub.is_owned_expr(r.value) for r in rets)
                if f.attr in MUTATORS and f.attr in ("pop", "popitem", "setdefault"):
                    return False      # element of a container: ownership unknown -> external
            return False
        if isinstance(e, ast.Attribute):
            # field of an owned object: owned, except V of a grammar constructed with an aliased V
            base = e.value
            if isinstance(base, ast.Name) and base.id in self.owned:
                if e.attr == "V" and base.id in self.alias_V:
                    return False
                return True
            if isinstance(base, ast.Attribute):
                return self.is_owned_expr(base)
            return False
        if isinstance(e, ast.Subscript):
            # element of an owned container: owned only if the container's elements were all created in this activation
            b = e
            while isinstance(b, ast.Subscript):
                b = b.value
            return isinstance(b, ast.Name) and b.id in self.elem_owned
        return False

    def elements_owned(self, value):
        """Is `value` a container expression whose elements are all created here (defaultdict(factory), literals of owned, R.chart())?"""
        if isinstance(value, (ast.List, ast.Tuple, ast.Set)):
            return all(self.is_owned_expr(x) for x in value.elts)
        if isinstance(value, ast.Dict):
            return all(self.is_owned_expr(x) for x in value.values)
        if isinstance(value, (ast.ListComp, ast.SetComp)):
            return self.is_owned_expr(value.elt)
        if isinstance(value, ast.DictComp):
            return self.is_owned_expr(value.value)
        if isinstance(value, ast.Call):
            fn = ast.unparse(value.func)
            if fn == "defaultdict" or fn.endswith(".chart") or fn in ("dict", "list", "set") and not value.args:
                return True
        if isinstance(value, ast.Subscript):
            return self.is_owned_expr(value)
        return False

    def root_allowed(self, target):
        """Is a store whose receiver expression is `target` allowed?"""
        src = ast.unparse(target)
        for m in self.spec.modifies:
            if m.startswith("param:"):
                p = m[6:]
                if src == p or src.startswith(p + ".") or src.startswith(p + "["):
                    return True
            elif src == m or src.startswith(m + ".") or src.startswith(m + "["):
                return True
        return self.is_owned_expr(target)

    # ---------------------------------------------------------------- bindings
    def bind(self, target, value):
        if isinstance(target, ast.Name):
            if value is not None and self.is_owned_expr(value):
                self.owned.add(target.id)
                if self.elements_owned(value):
                    self.elem_owned.add(target.id)
                else:
                    self.elem_owned.discard(target.id)
                if isinstance(value, ast.Call):
                    for kw in value.keywords:
                        if kw.arg == "V" and not self.is_owned_expr(kw.value):
                            self.alias_V.add(target.id)
                    fname = ast.unparse(value.func)
                    if fname.endswith("__class__") or fname in ("CFG", "cls"):
                        # positional V (third argument of CFG(R, S, V))
                        if len(value.args) >= 3 and not self.is_owned_expr(value.args[2]):
                            self.alias_V.add(target.id)
            else:
                self.owned.discard(target.id)
                self.elem_owned.discard(target.id)
        elif isinstance(target, (ast.Tuple, ast.List)):
            for t in target.elts:
                self.bind(t, None)
        elif isinstance(target, ast.Starred):
            self.bind(target.value, None)

    # ---------------------------------------------------------------- visitors
    def check(self):
        for st in self.fn.body:
            self.visit(st)
        # nested helpers share the activation's objects: analysed last, with the final ownership facts
        while self.deferred:
            node = self.deferred.pop()
            for a in node.args.args:
                self.owned.discard(a.arg)
            for st in node.body:
                self.visit(st)
        return self.findings, self.unclassified

    def visit_FunctionDef(self, node):
        if node is self.fn:
            self.generic_visit(node)
            return
        # nested helper: analysed in place (it shares the enclosing activation's objects)
        self.nested[node.name] = node
        self.deferred.append(node)

    def visit_Lambda(self, node):
        self.generic_visit(node)

    def store(self, receiver, node, what):
        if not self.root_allowed(receiver):
            loc = ast.unparse(receiver)
            if what == "attribute store" and isinstance(node, (ast.Assign, ast.AugAssign, ast.AnnAssign)):
                ts = node.targets if isinstance(node, ast.Assign) else [node.target]
                for t in ts:
                    if isinstance(t, ast.Attribute) and ast.unparse(t.value) == loc:
                        loc = ast.unparse(t)
            self.findings.append(Finding(node.lineno, f"{what} `{ast.unparse(node)[:90]}` writes to `{ast.unparse(receiver)}`, which is neither created in this call nor in modifies {list(self.spec.modifies)}", loc=loc))

    def visit_Assign(self, node):
        self.visit(node.value)
        for t in node.targets:
            self.assign_target(t, node.value, node)

    def visit_AnnAssign(self, node):
        if node.value is not None:
            self.visit(node.value)
            self.assign_target(node.target, node.value, node)

    def assign_target(self, t, value, node):
        if isinstance(t, ast.Name):
            self.bind(t, value)
            if isinstance(value, ast.Attribute):
                self.alias[t.id] = value.attr      # e.g. is_terminal = self.cfg.is_terminal
        elif isinstance(t, (ast.Tuple, ast.List)):
            if isinstance(value, (ast.Tuple, ast.List)) and len(value.elts) == len(t.elts):
                for x, v in zip(t.elts, value.elts):
                    self.assign_target(x, v, node)
            else:
                for x in t.elts:
                    self.assign_target(x, None, node)
        elif isinstance(t, ast.Attribute):
            self.store(t.value, node, "attribute store")
        elif isinstance(t, ast.Subscript):
            self.store(t.value, node, "item store")
        elif isinstance(t, ast.Starred):
            self.assign_target(t.value, None, node)

    def visit_AugAssign(self, node):
        self.visit(node.value)
        t = node.target
        if isinstance(t, ast.Name) and t.id not in self.owned and isinstance(node.value, (ast.List, ast.ListComp, ast.Set, ast.SetComp, ast.Dict)):
            # x += [..] / x |= {..}: in-place extension of a container that was not created here
            self.findings.append(Finding(node.lineno, f"in-place `{ast.unparse(node)[:80]}` extends `{t.id}`, which was not created in this call"))
        elif isinstance(t, ast.Name):
            # x op= v on a local: for mutable containers (|= on sets) this mutates in place
            if isinstance(node.op, (ast.BitOr, ast.BitAnd, ast.Sub, ast.Add)) and t.id not in self.owned and t.id in self.params:
                # numbers / tuples are rebinding; sets / lists are in-place: only parameters can leak
                if t.id != "self":
                    self.unclassified.append(Finding(node.lineno, f"augmented assignment on parameter `{t.id}` (in place if it is a mutable container)"))
        elif isinstance(t, ast.Attribute):
            self.store(t.value, node, "augmented attribute store")
        elif isinstance(t, ast.Subscript):
            self.store(t.value, node, "augmented item store")

    def visit_Delete(self, node):
        for t in node.targets:
            if isinstance(t, ast.Subscript):
                self.store(t.value, node, "del item")
            elif isinstance(t, ast.Attribute):
                self.store(t.value, node, "del attribute")

    def visit_If(self, node):
        # ownership facts must hold on every path: a name is owned after the `if` only if it is owned after both branches
        if isinstance(node.test, ast.Constant):      # `if 0:` / `if True:` - only the live branch is code that runs
            for st in (node.body if node.test.value else node.orelse):
                self.visit(st)
            return
        self.visit(node.test)
        before_o, before_e = set(self.owned), set(self.elem_owned)
        for st in node.body:
            self.visit(st)
        o1, e1 = set(self.owned), set(self.elem_owned)
        self.owned, self.elem_owned = set(before_o), set(before_e)
        for st in node.orelse:
            self.visit(st)
        o2, e2 = set(self.owned), set(self.elem_owned)
        if _exits(node.body):
            self.owned, self.elem_owned = o2, e2
        elif _exits(node.orelse):
            self.owned, self.elem_owned = o1, e1
        else:
            self.owned, self.elem_owned = o1 & o2, e1 & e2

    def visit_For(self, node):
        self.visit(node.iter)
        self.bind(node.target, None)
        # loop bodies are visited twice so that ownership facts established late in the body reach earlier statements
        for _ in range(2):
            for st in node.body:
                self.visit(st)
        for st in node.orelse:
            self.visit(st)

    def visit_While(self, node):
        self.visit(node.test)
        for _ in range(2):
            for st in node.body:
                self.visit(st)
        for st in node.orelse:
            self.visit(st)

    def visit_With(self, node):
        for it in node.items:
            if it.optional_vars is not None:
                self.bind(it.optional_vars, None)
        for st in node.body:
            self.visit(st)

    def visit_comprehension(self, node):
        self.visit(node.iter)
        for c in node.ifs:
            self.visit(c)

    def visit_Call(self, node):
        for a in node.args:
            self.visit(a)
        for k in node.keywords:
            self.visit(k.value)
        f = node.func
        if isinstance(f, ast.Attribute):
            self.visit(f.value)
            recv = f.value
            if f.attr in MUTATORS:
                # receiver.pop() on dict/list/set/heap etc.
                self.store(recv, node, f"mutating call .{f.attr}()")
                if isinstance(recv, ast.Name) and recv.id in self.elem_owned and f.attr in ("append", "add", "extend", "insert", "update"):
                    if not all(self.is_owned_expr(a) for a in node.args):
                        self.elem_owned.discard(recv.id)
                return
            if f.attr in DUNDER_WRITERS:
                # x.__setattr__(..) / object.__setattr__(x, ..) / x.__iadd__(..): writes to the receiver, or to the first argument
                # when the receiver is a class
                target = node.args[0] if (isinstance(recv, ast.Name) and (recv.id == "object" or recv.id[:1].isupper()) and node.args) else recv
                self.store(target, node, f"mutating call .{f.attr}()")
                return
            spec = self.callees.get(f.attr)
            if spec is not None:
                # callee writes through some of its arguments / its receiver
                if spec.writes_args.get("self") and not self.root_allowed(recv):
                    allowed = any(m == "callee:" + f.attr for m in self.spec.modifies)
                    if not allowed:
                        self.findings.append(Finding(node.lineno, f"call `{ast.unparse(node)[:80]}`: callee {f.attr} writes to its receiver `{ast.unparse(recv)}` which is not owned here"))
                for idx in spec.writes_args.get("args", ()):
                    if idx < len(node.args) and not self.root_allowed(node.args[idx]):
                        self.findings.append(Finding(node.lineno, f"call `{ast.unparse(node)[:80]}`: callee {f.attr} writes through argument {idx} `{ast.unparse(node.args[idx])}` which is not owned here"))
                return
            if f.attr in FRESH_METHODS or f.attr.startswith("__") or f.attr in ("add_arc", "add_I", "add_F", "add_state", "set_arc", "set_I", "set_F"):
                if f.attr in ("add_arc", "add_I", "add_F", "add_state", "set_arc", "set_I", "set_F", "add_rule"):
                    self.store(recv, node, f"mutating call .{f.attr}()")
                return
            if isinstance(recv, ast.Name) and recv.id in ("np", "numpy", "math") and f.attr not in NUMPY_WRITERS:
                return      # module-level numeric function: reads its arguments only
            if isinstance(recv, ast.Name) and recv.id == "self" and self.resolver is not None and self.depth < 3:
                callee = self.resolver(f.attr)
                if callee is not None and callee is not self.fn:
                    # a sibling method without a contract of its own (e.g. a helper extracted by a refactoring): analysed in place
                    # with the caller's modifies clause; its stores are the caller's stores
                    sub = FrameChecker(callee, Spec(modifies=self.spec.modifies), self.callees, resolver=self.resolver, depth=self.depth + 1)
                    fs, us = sub.check()
                    for x in fs:
                        self.findings.append(Finding(node.lineno, f"via {f.attr}(): {x.what}", loc=x.loc))
                    for x in us:
                        self.unclassified.append(Finding(node.lineno, f"via {f.attr}(): {x.what}"))
                    return
            self.unclassified.append(Finding(node.lineno, f"call of `{ast.unparse(f)}` has no frame contract"))
        elif isinstance(f, ast.Name):
            if f.id in self.alias and f.id not in self.callees:
                an = self.alias[f.id]
                if an in FRESH_METHODS or an in self.callees and not self.callees[an].writes_args:
                    return
            if f.id in self.owned:
                return      # calling an object created here (e.g. an Integerizer): it can only write to itself
            spec = self.callees.get(f.id)
            if spec is not None:
                for idx in spec.writes_args.get("args", ()):
                    if idx < len(node.args) and not self.root_allowed(node.args[idx]):
                        self.findings.append(Finding(node.lineno, f"call `{ast.unparse(node)[:80]}`: callee {f.id} writes through argument {idx}"))
                return
            if f.id in FRESH_CALLS or f.id in self.nested or f.id in self.params:
                return
            self.unclassified.append(Finding(node.lineno, f"call of `{f.id}` has no frame contract"))
        else:
            self.visit(f)

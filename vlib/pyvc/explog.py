"""Ground instantiation of the exp/log axioms (DESIGN 2.2 'Axiom instantiation', assumption on numpy's functions).

EXP, LOG are uninterpreted Real->Real functions.  Axioms (true of the real functions):
  exp(x) > 0;  log(exp x) = x;  u > 0 => exp(log u) = u;  exp(s + t) = exp s * exp t;  exp 0 = 1; log 1 = 0;
  exp strictly increasing;  log strictly increasing on positives.
`instances(formulas)` returns the finite set of instances of these axioms on the terms occurring in the
formulas (saturated `rounds` times); the VC is then sent quantifier-free.
"""
import z3

R = z3.RealSort()
EXP = z3.Function("EXP", R, R)
LOG = z3.Function("LOG", R, R)


def _apps(e, acc, seen):
    i = e.get_id()
    if i in seen:
        return
    seen.add(i)
    if z3.is_app(e):
        d = e.decl()
        if d.eq(EXP) or d.eq(LOG):
            acc[i] = e
        for c in e.children():
            _apps(c, acc, seen)


def _linear(t):
    """t as (dict atom_id -> (atom, coeff Fraction-like int), const) when it is a +/- combination; else atom itself."""
    from fractions import Fraction
    out = {}
    const = Fraction(0)

    def add(e, k):
        nonlocal const
        if z3.is_rational_value(e) or z3.is_int_value(e):
            const += k * Fraction(e.numerator_as_long(), e.denominator_as_long()) if z3.is_rational_value(e) else k * e.as_long()
            return
        if z3.is_app(e):
            kind = e.decl().kind()
            if kind == z3.Z3_OP_ADD:
                for c in e.children():
                    add(c, k)
                return
            if kind == z3.Z3_OP_SUB:
                ch = e.children()
                add(ch[0], k)
                for c in ch[1:]:
                    add(c, -k)
                return
            if kind == z3.Z3_OP_UMINUS:
                add(e.children()[0], -k)
                return
            if kind == z3.Z3_OP_MUL:
                ch = e.children()
                nums = [c for c in ch if z3.is_rational_value(c)]
                rest = [c for c in ch if not z3.is_rational_value(c)]
                if len(rest) == 1 and nums:
                    f = Fraction(1)
                    for n in nums:
                        f *= Fraction(n.numerator_as_long(), n.denominator_as_long())
                    add(rest[0], k * f)
                    return
            if kind == z3.Z3_OP_TO_REAL:
                pass
        i = e.get_id()
        if i in out:
            out[i] = (e, out[i][1] + k)
        else:
            out[i] = (e, k)

    add(t, Fraction(1))
    return {i: v for i, v in out.items() if v[1] != 0}, const


def instances(formulas, seeds=(), rounds=3):
    ax = []
    done = set()
    exps, logs = {}, {}

    def scan(fs):
        acc = {}
        seen = set()
        for f in fs:
            _apps(f, acc, seen)
        for i, e in acc.items():
            (exps if e.decl().eq(EXP) else logs)[i] = e

    scan(list(formulas))
    for s in seeds:
        e = EXP(s)
        exps[e.get_id()] = e
        scan([s])
    ax.append(EXP(z3.RealVal(0)) == 1)
    ax.append(LOG(z3.RealVal(1)) == 0)
    if exps or logs:
        e0, l1 = EXP(z3.RealVal(0)), LOG(z3.RealVal(1))
        exps[e0.get_id()] = e0          # so that monotonicity relates every exp term to exp(0) = 1
        logs[l1.get_id()] = l1
    for _ in range(rounds):
        new = []
        for i, e in list(exps.items()):
            if ("e", i) in done:
                continue
            done.add(("e", i))
            t = e.arg(0)
            new.append(e > 0)
            lin, const = _linear(z3.simplify(t))
            if len(lin) == 1 and const == 0 and list(lin.values())[0][1] == 1:
                atom = list(lin.values())[0][0]
                if z3.is_app(atom) and atom.decl().eq(LOG):
                    u = atom.arg(0)
                    new.append(z3.Implies(u > 0, e == u))
                if not z3.eq(atom, t):
                    new.append(e == EXP(atom))
                continue
            if all(c.denominator == 1 and abs(c) <= 3 for _, c in lin.values()):
                lhs = e
                rhs = z3.RealVal(1)
                if const != 0:
                    rhs = rhs * EXP(z3.RealVal(str(const)))
                for atom, c in lin.values():
                    ea = EXP(atom)
                    for _k in range(abs(int(c))):
                        if c > 0:
                            rhs = rhs * ea
                        else:
                            lhs = lhs * ea
                new.append(lhs == rhs)
        for i, l in list(logs.items()):
            if ("l", i) in done:
                continue
            done.add(("l", i))
            u = l.arg(0)
            new.append(z3.Implies(u > 0, EXP(l) == u))
            if z3.is_app(u) and u.decl().eq(EXP):
                new.append(l == u.arg(0))
        ax.extend(new)
        scan(new)
    es = list(exps.values())
    for a in range(len(es)):
        for b in range(a + 1, len(es)):
            x, y = es[a].arg(0), es[b].arg(0)
            ax.append((x < y) == (es[a] < es[b]))
            ax.append((x == y) == (es[a] == es[b]))
    ls = list(logs.values())
    for a in range(len(ls)):
        for b in range(a + 1, len(ls)):
            x, y = ls[a].arg(0), ls[b].arg(0)
            ax.append(z3.Implies(z3.And(x > 0, y > 0), (x < y) == (ls[a] < ls[b])))
            ax.append(z3.Implies(z3.And(x > 0, y > 0), (x == y) == (ls[a] == ls[b])))
    return ax

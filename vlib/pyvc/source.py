"""Locate functions of /repo's *current working tree* by qualified name and hash their source."""
import ast
import hashlib
import os

from .. import report


def repo_path(rel):
    return os.path.join(report.REPO, rel)


_cache = {}


def module_source(rel):
    p = repo_path(rel)
    with open(p, encoding="utf-8") as f:
        return f.read()


def module_ast(rel):
    src = module_source(rel)
    key = (rel, hashlib.sha1(src.encode()).hexdigest())
    if key not in _cache:
        _cache[key] = ast.parse(src)
    return _cache[key]


def find(rel, qualname):
    """ast node of `Class.method` / `function` / `Class` in module file `rel`."""
    node = module_ast(rel)
    for part in qualname.split("."):
        for ch in node.body:
            if isinstance(ch, (ast.FunctionDef, ast.ClassDef, ast.AsyncFunctionDef)) and ch.name == part:
                node = ch
                break
        else:
            raise KeyError(f"{qualname} not found in {rel}")
    return node


def sha(node):
    """Hash of the function *as extracted*: docstrings dropped (DESIGN 1.3)."""
    n = ast.parse(ast.unparse(node))
    for sub in ast.walk(n):
        if isinstance(sub, (ast.FunctionDef, ast.ClassDef, ast.Module)) and sub.body:
            b = sub.body[0]
            if isinstance(b, ast.Expr) and isinstance(b.value, ast.Constant) and isinstance(b.value.value, str):
                sub.body = sub.body[1:] or [ast.Pass()]
    return hashlib.sha1(ast.unparse(n).encode()).hexdigest()[:12]


def loops(fn, kinds=(ast.For, ast.While)):
    """Loops of a function in source order, not descending into nested defs."""
    out = []

    def rec(n):
        for ch in ast.iter_child_nodes(n):
            if isinstance(ch, (ast.FunctionDef, ast.Lambda, ast.ClassDef)):
                continue
            if isinstance(ch, kinds):
                out.append(ch)
            rec(ch)

    rec(fn)
    return out

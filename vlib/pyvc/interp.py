"""pyvc - symbolic interpreter over the *real* Python AST of /repo (DESIGN 2.2).

The interpreter executes the repository's own function bodies (parsed from the working tree on
every run) on symbolic values and produces z3 terms.  Paths are explored by re-execution with a
decision prefix (no state copying, so the mutable heap is exact).  What is supported is what the
functions under contract need; anything else raises OutOfSubset naming the construct, which the
caller reports as `out-of-subset` (never silently skipped).

Value model
  Python ints/bools/str/None/tuples/lists/dicts/sets    concrete values stay concrete
  fractions.Fraction                                    float literals (A1: floats are mathematical reals)
  Z(expr)                                               z3 term: Int, Real, Bool, or an uninterpreted sort (W, Sym)
  XR(neg, pos, val)                                     extended real  -inf / finite / +inf   (MaxPlus, Log)
  Obj(cls, fields)                                      instance of a class interpreted from source (identity = Python identity)
  ClassObj / FuncObj / BoundMethod                      classes and functions interpreted from source
"""
import ast
import itertools
from fractions import Fraction

import z3


class OutOfSubset(Exception):
    pass


class Infeasible(Exception):
    pass


class PyRaise(Exception):
    """A Python-level exception raised by the interpreted code (AssertionError, TypeError, ...)."""

    def __init__(self, kind, msg="", node=None):
        super().__init__(f"{kind}: {msg}")
        self.kind = kind
        self.msg = msg
        self.node = node


class _Return(Exception):
    def __init__(self, v):
        self.v = v


class _Break(Exception):
    pass


class _Continue(Exception):
    pass


# ------------------------------------------------------------------------------------------ values
class Z:
    __slots__ = ("e",)

    def __init__(self, e):
        self.e = e

    @property
    def sort(self):
        return self.e.sort()

    def is_bool(self):
        return z3.is_bool(self.e)

    def is_int(self):
        return z3.is_int(self.e)

    def is_real(self):
        return z3.is_real(self.e)

    def is_num(self):
        return z3.is_int(self.e) or z3.is_real(self.e)

    def __repr__(self):
        return f"Z({self.e})"


class XR:
    """Extended real: exactly one of neg (-inf), pos (+inf), finite (val)."""
    __slots__ = ("neg", "pos", "val")

    def __init__(self, neg, pos, val):
        self.neg = neg
        self.pos = pos
        self.val = val

    @staticmethod
    def of(v):
        if isinstance(v, XR):
            return v
        return XR(z3.BoolVal(False), z3.BoolVal(False), to_real(v))

    def __repr__(self):
        return f"XR({self.neg},{self.pos},{self.val})"


NEG_INF = XR(z3.BoolVal(True), z3.BoolVal(False), z3.RealVal(0))
POS_INF = XR(z3.BoolVal(False), z3.BoolVal(True), z3.RealVal(0))


class Obj:
    def __init__(self, cls):
        self.cls = cls
        self.fields = {}

    def __repr__(self):
        return f"<{self.cls.name} {self.fields}>"


class ClassObj:
    def __init__(self, name, bases, module):
        self.name = name
        self.bases = bases
        self.attrs = {}
        self.module = module

    def mro(self):
        out = [self]
        for b in self.bases:
            if isinstance(b, ClassObj):
                for c in b.mro():
                    if c not in out:
                        out.append(c)
        return out

    def lookup(self, name):
        for c in self.mro():
            if name in c.attrs:
                return c.attrs[name], c
        return None, None

    def issubclass(self, other):
        return other in self.mro()

    def __repr__(self):
        return f"<class {self.name}>"


class FuncObj:
    def __init__(self, node, env, name, kind="func", owner=None):
        self.node = node
        self.env = env
        self.name = name
        self.kind = kind
        self.owner = owner

    def __repr__(self):
        return f"<func {self.name}>"


class BoundMethod:
    def __init__(self, func, self_obj):
        self.func = func
        self.self_obj = self_obj


class Native:
    """A Python callable usable from interpreted code: f(interp, args, kwargs)."""

    def __init__(self, name, f):
        self.name = name
        self.f = f


class SuperProxy:
    def __init__(self, cls, obj):
        self.cls = cls
        self.obj = obj


class Env:
    def __init__(self, parent=None, vars=None):
        self.parent = parent
        self.vars = vars if vars is not None else {}
        self.nonlocals = set()

    def get(self, name):
        e = self
        while e is not None:
            if name in e.vars:
                return e.vars[name]
            e = e.parent
        raise PyRaise("NameError", name)

    def set(self, name, v):
        if name in self.nonlocals:
            e = self.parent
            while e is not None:
                if name in e.vars:
                    e.vars[name] = v
                    return
                e = e.parent
        self.vars[name] = v


# ------------------------------------------------------------------------------------------ z3 helpers
def to_real(v):
    if isinstance(v, Z):
        if v.is_real():
            return v.e
        if v.is_int():
            return z3.ToReal(v.e)
        if v.is_bool():
            return z3.If(v.e, z3.RealVal(1), z3.RealVal(0))
        raise OutOfSubset(f"to_real of sort {v.sort}")
    if isinstance(v, bool):
        return z3.RealVal(1 if v else 0)
    if isinstance(v, int):
        return z3.RealVal(v)
    if isinstance(v, Fraction):
        return z3.RealVal(f"{v.numerator}/{v.denominator}")
    if isinstance(v, float):
        f = Fraction(v)
        return z3.RealVal(f"{f.numerator}/{f.denominator}")
    raise OutOfSubset(f"to_real of {type(v).__name__}")


def is_concrete_num(v):
    return isinstance(v, (int, Fraction)) and not isinstance(v, bool) or isinstance(v, bool)


def is_numlike(v):
    return isinstance(v, (int, Fraction, float, bool)) or (isinstance(v, Z) and (v.is_num() or v.is_bool()))


_STR_IDS = {}


def zexpr(v):
    """z3 expression of a scalar value (Int stays Int).  A string used where a grammar symbol is expected denotes the symbol
    with that name: strings are interned to distinct integers (symbols-as-Int, A3)."""
    if isinstance(v, Z):
        return v.e
    if isinstance(v, str):
        if v not in _STR_IDS:
            _STR_IDS[v] = 10 ** 9 + len(_STR_IDS)
        return z3.IntVal(_STR_IDS[v])
    if isinstance(v, bool):
        return z3.BoolVal(v)
    if isinstance(v, int):
        return z3.IntVal(v)
    if isinstance(v, (Fraction, float)):
        return to_real(v)
    raise OutOfSubset(f"zexpr of {type(v).__name__}")


def simp(e):
    return z3.simplify(e)


class Path:
    """Decision record of one execution; alternatives are explored by re-execution."""

    def __init__(self, prefix, solver_check=None):
        self.prefix = list(prefix)
        self.taken = []
        self.pc = []
        self.alternatives = []
        self.solver_check = solver_check
        self.side = []      # (name, z3 bool, node) definedness obligations met on the way (division, sqrt ...)
        self.assumed = []   # asserts in code treated as assumptions (recorded)
        self.fresh = itertools.count()
        self.decided = {}
        self.qfacts = []    # quantified facts met on the path, instantiated on demand (symstruct)

    def decide(self, c):
        c = simp(c)
        if z3.is_true(c):
            return True
        if z3.is_false(c):
            return False
        # a condition already decided on this path (hash-consed identical term, or its negation) does not fork again
        key = c.get_id()
        if key in self.decided:
            return self.decided[key]
        if z3.is_not(c) and c.arg(0).get_id() in self.decided:
            return not self.decided[c.arg(0).get_id()]
        i = len(self.taken)
        if i < len(self.prefix):
            choice = self.prefix[i]
        else:
            choice = True
            self.alternatives.append(self.taken + [False])
        self.taken.append(choice)
        self.decided[key] = choice
        self.pc.append(c if choice else z3.Not(c))
        if self.solver_check is not None and not self.solver_check(self.pc):
            raise Infeasible()
        return choice

    def assume(self, c):
        self.pc.append(c)
        if self.solver_check is not None and not self.solver_check(self.pc):
            raise Infeasible()


def feasibility_checker(axioms=(), timeout_ms=300):
    s = z3.Solver()
    s.set("timeout", timeout_ms)
    for a in axioms:
        s.add(a)

    def check(pc):
        s.push()
        for c in pc:
            s.add(c)
        r = s.check()
        s.pop()
        return r != z3.unsat

    return check


def explore(harness, axioms=(), max_paths=4000, prune=True):
    """Run `harness(path)` for every feasible decision sequence.  Returns [(path, result)]."""
    work = [[]]
    out = []
    chk = feasibility_checker(axioms) if prune else None
    while work:
        prefix = work.pop()
        path = Path(prefix, chk)
        try:
            r = harness(path)
        except Infeasible:
            work.extend(path.alternatives)
            continue
        out.append((path, r))
        work.extend(path.alternatives)
        if len(out) > max_paths:
            raise OutOfSubset(f"path explosion (> {max_paths} paths)")
    return out


# ------------------------------------------------------------------------------------------ interpreter
class Interp:
    def __init__(self, path=None, uf=None):
        self.path = path
        self.modules = {}
        self.uf = uf or {}
        self.natives = {}
        self.call_hooks = {}     # qualified name -> hook(interp, fobj, args, kwargs) replacing the body (callee contracts)
        self.trace = []
        self.depth = 0
        self.loop_hooks = {}     # id(loop node) -> handler(interp, node, env): loop contracts (generic iteration, invariants)
        self.expr_hooks = {}     # id(expr node) -> handler(interp, node, env): summarised comprehensions
        self.assign_hooks = {}   # variable name -> handler(interp, value) -> value: abstraction of loop-carried containers

    # -------------------------------------------------------------- modules / classes
    def load_module(self, source, name, preset=None):
        tree = ast.parse(source)
        env = Env(None, dict(preset or {}))
        env.vars.setdefault("__name__", name)
        self.modules[name] = env
        for st in tree.body:
            self.exec_stmt(st, env)
        return env

    # -------------------------------------------------------------- truthiness and branching
    def truth(self, v):
        if isinstance(v, Z):
            if v.is_bool():
                return self.path.decide(v.e)
            if v.is_num():
                return self.path.decide(v.e != 0)
            raise OutOfSubset(f"truth value of sort {v.sort}")
        if isinstance(v, XR):
            return self.path.decide(z3.Or(v.neg, v.pos, v.val != 0))
        if isinstance(v, Obj):
            f, _ = v.cls.lookup("__bool__")
            if f is not None:
                return self.truth(self.call(BoundMethod(f, v), [], {}))
            f, _ = v.cls.lookup("__len__")
            if f is not None:
                return self.truth(self.binop_cmp(ast.NotEq(), self.call(BoundMethod(f, v), [], {}), 0))
            return True
        if hasattr(v, "__pyvc_truth__"):
            return v.__pyvc_truth__(self)
        return bool(v)

    # -------------------------------------------------------------- statements
    def exec_block(self, stmts, env):
        for st in stmts:
            self.exec_stmt(st, env)

    def exec_stmt(self, st, env):
        m = getattr(self, "st_" + type(st).__name__, None)
        if m is None:
            raise OutOfSubset(f"statement {type(st).__name__} (line {getattr(st, 'lineno', '?')})")
        return m(st, env)

    def st_Expr(self, st, env):
        if isinstance(st.value, ast.Constant) and isinstance(st.value.value, str):
            return  # docstring
        self.eval(st.value, env)

    def st_Pass(self, st, env):
        pass

    def st_Import(self, st, env):
        for a in st.names:
            nm = a.asname or a.name.split(".")[0]
            env.set(nm, self.import_hook(a.name, None))

    def st_ImportFrom(self, st, env):
        for a in st.names:
            env.set(a.asname or a.name, self.import_hook(st.module, a.name))

    def import_hook(self, module, name):
        key = module if name is None else f"{module}.{name}"
        if key in self.natives:
            return self.natives[key]
        if module in self.modules and name is not None:
            return self.modules[module].get(name)
        return Unknown(key)

    def st_ClassDef(self, st, env):
        bases = [self.eval(b, env) for b in st.bases]
        cls = ClassObj(st.name, bases, env.vars.get("__name__"))
        cenv = Env(env, {})
        for s in st.body:
            if isinstance(s, ast.FunctionDef):
                kind = "func"
                for d in s.decorator_list:
                    dn = ast.unparse(d)
                    if dn in ("classmethod", "staticmethod", "property", "cached_property"):
                        kind = dn
                cls.attrs[s.name] = FuncObj(s, env, f"{st.name}.{s.name}", kind, cls)
            elif isinstance(s, ast.Expr) and isinstance(s.value, ast.Constant):
                continue
            elif isinstance(s, (ast.Assign, ast.AnnAssign)):
                self.exec_stmt(s, cenv)
            elif isinstance(s, ast.Pass):
                continue
            else:
                raise OutOfSubset(f"class body statement {type(s).__name__}")
        for k, v in cenv.vars.items():
            cls.attrs[k] = v
        env.set(st.name, cls)

    def st_FunctionDef(self, st, env):
        env.set(st.name, FuncObj(st, env, st.name))

    def st_Return(self, st, env):
        raise _Return(self.eval(st.value, env) if st.value is not None else None)

    def st_Break(self, st, env):
        raise _Break()

    def st_Continue(self, st, env):
        raise _Continue()

    def st_Nonlocal(self, st, env):
        env.nonlocals.update(st.names)

    def st_Global(self, st, env):
        raise OutOfSubset("global statement")

    def st_Delete(self, st, env):
        for t in st.targets:
            if isinstance(t, ast.Name):
                env.vars.pop(t.id, None)
            else:
                raise OutOfSubset("del of non-name")

    def st_Assign(self, st, env):
        v = self.eval(st.value, env)
        for t in st.targets:
            self.assign(t, v, env)

    def st_AnnAssign(self, st, env):
        if st.value is not None:
            self.assign(st.target, self.eval(st.value, env), env)

    def st_AugAssign(self, st, env):
        cur = self.eval(_load(st.target), env)
        v = self.binop(st.op, cur, self.eval(st.value, env), st)
        self.assign(st.target, v, env)

    def assign(self, t, v, env):
        if isinstance(t, ast.Name):
            h = self.assign_hooks.get(t.id)
            if h is not None:
                v = h(self, v)
            env.set(t.id, v)
        elif isinstance(t, (ast.Tuple, ast.List)):
            vs = self.unpack(v, len(t.elts), t)
            for tt, vv in zip(t.elts, vs):
                self.assign(tt, vv, env)
        elif isinstance(t, ast.Attribute):
            o = self.eval(t.value, env)
            self.setattr(o, t.attr, v)
        elif isinstance(t, ast.Subscript):
            o = self.eval(t.value, env)
            k = self.eval_index(t.slice, env)
            self.setitem(o, k, v)
        else:
            raise OutOfSubset(f"assignment target {type(t).__name__}")

    def unpack(self, v, n, node=None):
        if isinstance(v, (tuple, list)):
            if len(v) != n:
                raise PyRaise("ValueError", f"unpack: expected {n} values, got {len(v)}", node)
            return list(v)
        if hasattr(v, "__pyvc_unpack__"):
            return v.__pyvc_unpack__(self, n)
        if isinstance(v, (set, frozenset)) and len(v) == n:
            return list(v)
        raise PyRaise("TypeError", f"cannot unpack {type(v).__name__} into {n} names", node)

    def st_With(self, st, env):
        # only context managers that do not change the semantics modelled here (np.errstate, warnings.catch_warnings)
        for item in st.items:
            cm = self.eval(item.context_expr, env)
            if not getattr(cm, "pyvc_null_context", False):
                raise OutOfSubset(f"with-statement over {type(cm).__name__} (line {st.lineno})")
            if item.optional_vars is not None:
                self.assign(item.optional_vars, None, env) if hasattr(self, "assign") else None
        self.exec_block(st.body, env)

    def st_If(self, st, env):
        if self.truth(self.eval(st.test, env)):
            self.exec_block(st.body, env)
        else:
            self.exec_block(st.orelse, env)

    def st_Assert(self, st, env):
        c = self.eval(st.test, env)
        if not self.truth(c):
            raise PyRaise("AssertionError", ast.unparse(st.test), st)

    def st_Raise(self, st, env):
        if st.exc is None:
            raise PyRaise("reraise", "", st)
        txt = ast.unparse(st.exc)
        kind = txt.split("(")[0]
        raise PyRaise(kind, txt, st)

    def st_Try(self, st, env):
        try:
            self.exec_block(st.body, env)
        except PyRaise as e:
            for h in st.handlers:
                names = []
                if h.type is None:
                    names = None
                elif isinstance(h.type, ast.Tuple):
                    names = [ast.unparse(x) for x in h.type.elts]
                else:
                    names = [ast.unparse(h.type)]
                if names is None or e.kind in names or "Exception" in names:
                    self.exec_block(h.body, env)
                    break
            else:
                raise
        else:
            self.exec_block(st.orelse, env)
        finally:
            if st.finalbody:
                self.exec_block(st.finalbody, env)

    def st_For(self, st, env):
        h = self.loop_hooks.get(id(st))
        if h is not None:
            return h(self, st, env)
        it = self.iterate(self.eval(st.iter, env), st)
        broke = False
        for x in it:
            self.assign(st.target, x, env)
            try:
                self.exec_block(st.body, env)
            except _Break:
                broke = True
                break
            except _Continue:
                continue
        if not broke:
            self.exec_block(st.orelse, env)

    def st_While(self, st, env):
        h = self.loop_hooks.get(id(st))
        if h is not None:
            return h(self, st, env)
        n = 0
        while self.truth(self.eval(st.test, env)):
            n += 1
            if n > 10000:
                raise OutOfSubset("while loop bound exceeded (needs an invariant)")
            try:
                self.exec_block(st.body, env)
            except _Break:
                return
            except _Continue:
                continue
        self.exec_block(st.orelse, env)

    def iterate(self, v, node=None):
        if isinstance(v, (list, tuple, range, set, frozenset, dict, str, bytes)):
            return list(v)
        if isinstance(v, (_Gen,)):
            return v.items
        if hasattr(v, "__pyvc_iter__"):
            return v.__pyvc_iter__(self)
        if isinstance(v, Obj):
            f, _ = v.cls.lookup("__iter__")
            if f is not None:
                return self.iterate(self.call(BoundMethod(f, v), [], {}))
        if isinstance(v, (dict_items,)):
            return v.items
        raise OutOfSubset(f"iteration over {type(v).__name__} (needs a loop contract)")

    # -------------------------------------------------------------- expressions
    def eval(self, node, env):
        h = self.expr_hooks.get(id(node))
        if h is not None:
            return h(self, node, env)
        m = getattr(self, "ex_" + type(node).__name__, None)
        if m is None:
            raise OutOfSubset(f"expression {type(node).__name__} (line {getattr(node, 'lineno', '?')})")
        return m(node, env)

    def ex_Constant(self, n, env):
        v = n.value
        if isinstance(v, float):
            return Fraction(v)
        return v

    def ex_Name(self, n, env):
        try:
            return env.get(n.id)
        except PyRaise:
            if n.id in BUILTINS:
                return BUILTINS[n.id]
            raise

    def ex_Tuple(self, n, env):
        out = []
        lazy = False
        for e in n.elts:
            if isinstance(e, ast.Starred):
                v = self.eval(e.value, env)
                if _symbolic_len(v):
                    out.append(("seq", v))
                    lazy = True
                else:
                    out.extend(("item", x) for x in self.iterate(v))
            else:
                out.append(("item", self.eval(e, env)))
        if lazy:
            from .symstruct import ConcatSeq, TupleSeq
            parts, cur = [], []
            for k, v in out:
                if k == "item":
                    cur.append(v)
                else:
                    if cur:
                        parts.append(TupleSeq(cur))
                        cur = []
                    parts.append(v)
            if cur:
                parts.append(TupleSeq(cur))
            return ConcatSeq(parts)
        return tuple(v for _, v in out)

    def ex_List(self, n, env):
        return list(self.ex_Tuple(n, env))

    def ex_Set(self, n, env):
        return set(self.ex_Tuple(n, env))

    def ex_Dict(self, n, env):
        d = {}
        for k, v in zip(n.keys, n.values):
            d[self.eval(k, env)] = self.eval(v, env)
        return d

    def ex_JoinedStr(self, n, env):
        parts = []
        for v in n.values:
            if isinstance(v, ast.Constant):
                parts.append(str(v.value))
            else:
                x = self.eval(v.value, env)
                if isinstance(x, (Z, XR, Obj)):
                    return SymStr(ast.unparse(n), [self.eval(w.value, env) for w in n.values if isinstance(w, ast.FormattedValue)])
                parts.append(format(x, "") if not v.format_spec else str(x))
        return "".join(parts)

    def ex_Lambda(self, n, env):
        return FuncObj(n, env, "<lambda>")

    def ex_IfExp(self, n, env):
        if self.truth(self.eval(n.test, env)):
            return self.eval(n.body, env)
        return self.eval(n.orelse, env)

    def ex_BoolOp(self, n, env):
        if isinstance(n.op, ast.And):
            v = True
            for e in n.values:
                v = self.eval(e, env)
                if not self.truth(v):
                    return v
            return v
        v = False
        for e in n.values:
            v = self.eval(e, env)
            if self.truth(v):
                return v
        return v

    def ex_UnaryOp(self, n, env):
        v = self.eval(n.operand, env)
        if isinstance(n.op, ast.Not):
            return not self.truth(v)
        if isinstance(n.op, ast.USub):
            return self.binop(ast.Sub(), 0, v, n)
        if isinstance(n.op, ast.UAdd):
            return v
        raise OutOfSubset("unary op " + type(n.op).__name__)

    def ex_BinOp(self, n, env):
        return self.binop(n.op, self.eval(n.left, env), self.eval(n.right, env), n)

    def ex_Compare(self, n, env):
        left = self.eval(n.left, env)
        res = True
        for op, r in zip(n.ops, n.comparators):
            right = self.eval(r, env)
            res = self.binop_cmp(op, left, right, n)
            if len(n.ops) > 1 and not self.truth(res):
                return False
            left = right
        return res

    def ex_Attribute(self, n, env):
        return self.getattr(self.eval(n.value, env), n.attr, n)

    def ex_Subscript(self, n, env):
        o = self.eval(n.value, env)
        k = self.eval_index(n.slice, env)
        return self.getitem(o, k, n)

    def eval_index(self, s, env):
        if isinstance(s, ast.Slice):
            return slice(self.eval(s.lower, env) if s.lower else None,
                         self.eval(s.upper, env) if s.upper else None,
                         self.eval(s.step, env) if s.step else None)
        return self.eval(s, env)

    def ex_Call(self, n, env):
        f = self.eval(n.func, env)
        args = []
        for a in n.args:
            if isinstance(a, ast.Starred):
                v = self.eval(a.value, env)
                if _symbolic_len(v):
                    from .symstruct import Star
                    args.append(Star(v))
                else:
                    args.extend(self.iterate(v))
            else:
                args.append(self.eval(a, env))
        kwargs = {}
        for k in n.keywords:
            if k.arg is None:
                kwargs.update(self.eval(k.value, env))
            else:
                kwargs[k.arg] = self.eval(k.value, env)
        if f is BUILTINS.get("super") and not args:
            return SuperProxy(env.get("__class__"), env.get(env.get("__selfname__")))
        return self.call(f, args, kwargs, n)

    def ex_ListComp(self, n, env):
        m = self._lazy_map(n, env)
        if m is not None:
            return m
        return list(self._comp(n, env, lambda e: self.eval(n.elt, e)))

    def ex_SetComp(self, n, env):
        return set(self._comp(n, env, lambda e: self.eval(n.elt, e)))

    def ex_GeneratorExp(self, n, env):
        m = self._lazy_map(n, env)
        if m is not None:
            return m
        return _Gen(list(self._comp(n, env, lambda e: self.eval(n.elt, e))))

    def _lazy_map(self, n, env):
        """(elt for x in <sequence of symbolic length>) with no filter  ->  MapSeq evaluated on demand."""
        if len(n.generators) != 1 or n.generators[0].ifs:
            return None
        g = n.generators[0]
        base = self.eval(g.iter, env)
        if not _symbolic_len(base):
            return None
        from .symstruct import MapSeq

        def fn(interp, x, g=g, env=env, n=n):
            e2 = Env(env, {})
            interp.assign(g.target, x, e2)
            return interp.eval(n.elt, e2)

        return MapSeq(base, fn)

    def ex_DictComp(self, n, env):
        return dict(self._comp(n, env, lambda e: (self.eval(n.key, e), self.eval(n.value, e))))

    def _comp(self, n, env, f):
        out = []

        def rec(i, e):
            if i == len(n.generators):
                out.append(f(e))
                return
            g = n.generators[i]
            for x in self.iterate(self.eval(g.iter, e), n):
                e2 = Env(e, {})
                self.assign(g.target, x, e2)
                if all(self.truth(self.eval(c, e2)) for c in g.ifs):
                    rec(i + 1, e2)

        rec(0, env)
        return out

    # -------------------------------------------------------------- attribute access
    def getattr(self, o, name, node=None):
        if isinstance(o, Obj):
            if name in o.fields:
                return o.fields[name]
            f, owner = o.cls.lookup(name)
            if f is None:
                raise PyRaise("AttributeError", f"'{o.cls.name}' object has no attribute '{name}'", node)
            return self.bind(f, o, o.cls)
        if isinstance(o, ClassObj):
            f, owner = o.lookup(name)
            if f is None:
                raise PyRaise("AttributeError", f"type object '{o.name}' has no attribute '{name}'", node)
            if isinstance(f, FuncObj) and f.kind == "classmethod":
                return BoundMethod(f, o)
            return f
        if isinstance(o, SuperProxy):
            mro = o.obj.cls.mro() if isinstance(o.obj, Obj) else o.obj.mro()
            i = mro.index(o.cls)
            for c in mro[i + 1:]:
                if name in c.attrs:
                    return self.bind(c.attrs[name], o.obj, c)
            raise PyRaise("AttributeError", f"super has no {name}", node)
        if isinstance(o, Env):  # module
            return o.get(name)
        if hasattr(o, "__pyvc_getattr__"):
            return o.__pyvc_getattr__(self, name, node)
        if isinstance(o, Unknown):
            return Unknown(o.name + "." + name)
        if name == "__class__" and isinstance(o, (Z, XR, Fraction, int, bool)):
            return PyType(pytype_name(o))
        if isinstance(o, (Z, XR, Fraction, int, bool)) or o is None:
            # plain numbers have no such attributes (e.g. int.chart): the `resolves` obligation kind
            raise PyRaise("AttributeError", f"'{pytype_name(o)}' object has no attribute '{name}'", node)
        if isinstance(o, (list, dict, set, tuple, str)):
            return NativeMethod(o, name)
        raise OutOfSubset(f"attribute {name} of {type(o).__name__}")

    def bind(self, f, o, owner):
        if isinstance(f, FuncObj):
            if f.kind == "func":
                return BoundMethod(f, o)
            if f.kind == "classmethod":
                return BoundMethod(f, o.cls if isinstance(o, Obj) else o)
            if f.kind == "staticmethod":
                return f
            if f.kind in ("property", "cached_property"):
                return self.call(BoundMethod(FuncObj(f.node, f.env, f.name, "func", f.owner), o), [], {})
        return f

    def setattr(self, o, name, v):
        if isinstance(o, Obj):
            o.fields[name] = v
        elif isinstance(o, ClassObj):
            o.attrs[name] = v
        elif isinstance(o, FuncObj):
            setattr(o, "attr_" + name, v)
        elif hasattr(o, "__pyvc_setattr__"):
            o.__pyvc_setattr__(self, name, v)
        else:
            raise OutOfSubset(f"setattr on {type(o).__name__}")

    def getitem(self, o, k, node=None):
        if isinstance(o, (tuple, list, str, bytes)):
            if isinstance(k, Z):
                raise OutOfSubset("symbolic index into concrete sequence")
            try:
                return o[k]
            except IndexError:
                raise PyRaise("IndexError", "index out of range", node)
        if isinstance(o, dict):
            c = self.dict_find(o, k)
            if c is _MISSING:
                if hasattr(o, "__missing__"):
                    return o[k]
                raise PyRaise("KeyError", repr(k), node)
            return o[c]
        if hasattr(o, "__pyvc_getitem__"):
            return o.__pyvc_getitem__(self, k, node)
        if isinstance(o, Obj):
            f, _ = o.cls.lookup("__getitem__")
            if f is not None:
                return self.call(BoundMethod(f, o), [k], {})
        raise OutOfSubset(f"subscript of {type(o).__name__}")

    def dict_find(self, d, k):
        """The key of the concrete dict `d` that equals `k` on this path, or _MISSING.  Keys with symbolic parts are compared by
        value, not by object identity: an undecided equality forks the path (two generic rules may produce the same key)."""
        if not _symbolic_key(k) and not any(_symbolic_key(c) for c in d):
            try:
                return k if k in d else _MISSING
            except TypeError:
                raise OutOfSubset("unhashable key into concrete dict")
        for c in list(d):
            if c is k:
                return c
            r = self.equals(k, c)
            if r is True:
                return c
            if r is False:
                continue
            e = z3.simplify(r.e)
            if z3.is_true(e):
                return c
            if z3.is_false(e):
                continue
            if self.path.decide(e):
                return c
        return _MISSING

    def setitem(self, o, k, v):
        if isinstance(o, dict):
            c = self.dict_find(o, k)
            o[k if c is _MISSING else c] = v
        elif isinstance(o, list):
            o[k] = v
        elif hasattr(o, "__pyvc_setitem__"):
            o.__pyvc_setitem__(self, k, v)
        elif isinstance(o, Obj):
            f, _ = o.cls.lookup("__setitem__")
            if f is None:
                raise PyRaise("TypeError", "object does not support item assignment")
            self.call(BoundMethod(f, o), [k, v], {})
        else:
            raise OutOfSubset(f"setitem on {type(o).__name__}")

    # -------------------------------------------------------------- calls
    def call(self, f, args, kwargs, node=None):
        if isinstance(f, BoundMethod):
            return self.call_func(f.func, [f.self_obj] + list(args), kwargs, node)
        if isinstance(f, FuncObj):
            return self.call_func(f, list(args), kwargs, node)
        if isinstance(f, ClassObj):
            init, owner = f.lookup("__init__")
            o = Obj(f)
            if init is not None:
                self.call_func(init, [o] + list(args), kwargs, node)
            elif args or kwargs:
                raise PyRaise("TypeError", f"{f.name}() takes no arguments", node)
            return o
        if isinstance(f, Native):
            return f.f(self, list(args), kwargs)
        if isinstance(f, NativeMethod):
            return f.call(self, args, kwargs)
        if isinstance(f, Unknown):
            raise OutOfSubset(f"call of unmodelled external {f.name}")
        if hasattr(f, "__pyvc_call__"):
            return f.__pyvc_call__(self, args, kwargs, node)
        raise PyRaise("TypeError", f"'{pytype_name(f)}' object is not callable", node)

    def call_func(self, f, args, kwargs, node=None):
        hook = self.call_hooks.get(f.name)
        if hook is not None:
            return hook(self, f, args, kwargs)
        self.depth += 1
        if self.depth > 60:
            raise OutOfSubset("recursion depth")
        try:
            env = Env(f.env, {})
            fn = f.node
            a = fn.args
            params = [p.arg for p in a.posonlyargs + a.args]
            defaults = a.defaults
            n_nodef = len(params) - len(defaults)
            if len(args) > len(params) and a.vararg is None:
                raise PyRaise("TypeError", f"{f.name}() takes {len(params)} positional arguments but {len(args)} were given", node)
            for i, p in enumerate(params):
                if i < len(args):
                    env.vars[p] = args[i]
                elif p in kwargs:
                    env.vars[p] = kwargs.pop(p)
                elif i >= n_nodef:
                    env.vars[p] = self.eval(defaults[i - n_nodef], f.env)
                else:
                    raise PyRaise("TypeError", f"{f.name}() missing argument '{p}'", node)
            if a.vararg is not None:
                env.vars[a.vararg.arg] = tuple(args[len(params):])
            for p, d in zip(a.kwonlyargs, a.kw_defaults):
                if p.arg in kwargs:
                    env.vars[p.arg] = kwargs.pop(p.arg)
                elif d is not None:
                    env.vars[p.arg] = self.eval(d, f.env)
                else:
                    raise PyRaise("TypeError", f"{f.name}() missing keyword argument '{p.arg}'", node)
            if a.kwarg is not None:
                env.vars[a.kwarg.arg] = dict(kwargs)
            elif kwargs:
                raise PyRaise("TypeError", f"{f.name}() got unexpected keyword arguments {sorted(kwargs)}", node)
            if f.owner is not None and params:
                env.vars["__class__"] = f.owner
                env.vars["__selfname__"] = params[0]
            if isinstance(fn, ast.Lambda):
                return self.eval(fn.body, env)
            if _has_yield(fn):
                return self.run_generator(fn, env)
            try:
                self.exec_block(fn.body, env)
            except _Return as r:
                return r.v
            return None
        finally:
            self.depth -= 1

    def run_generator(self, fn, env):
        items = []
        env.vars["__yield__"] = items
        try:
            self.exec_block(fn.body, env)
        except _Return:
            pass
        return _Gen(items)

    def ex_Yield(self, n, env):
        env.get("__yield__").append(self.eval(n.value, env) if n.value else None)
        return None

    def ex_YieldFrom(self, n, env):
        env.get("__yield__").extend(self.iterate(self.eval(n.value, env)))
        return None

    # -------------------------------------------------------------- operators
    def binop(self, op, a, b, node=None):
        t = type(op)
        # objects with operator methods
        if isinstance(a, Obj):
            name = {ast.Add: "__add__", ast.Mult: "__mul__", ast.Sub: "__sub__", ast.Div: "__truediv__",
                    ast.Pow: "__pow__", ast.MatMult: "__matmul__"}.get(t)
            f, _ = a.cls.lookup(name) if name else (None, None)
            if f is None:
                raise PyRaise("TypeError", f"unsupported operand type(s) for {t.__name__}: '{a.cls.name}' and '{pytype_name(b)}'", node)
            return self.call(BoundMethod(f, a), [b], {})
        if isinstance(b, Obj):
            name = {ast.Add: "__radd__", ast.Mult: "__rmul__", ast.Sub: "__rsub__", ast.Div: "__rtruediv__"}.get(t)
            f, _ = b.cls.lookup(name) if name else (None, None)
            if f is None:
                raise PyRaise("TypeError", f"unsupported operand type(s) for {t.__name__}: '{pytype_name(a)}' and '{b.cls.name}'", node)
            return self.call(BoundMethod(f, b), [a], {})
        if hasattr(a, "__pyvc_binop__"):
            return a.__pyvc_binop__(self, op, b, False, node)
        if hasattr(b, "__pyvc_binop__"):
            return b.__pyvc_binop__(self, op, a, True, node)
        # sequences
        if isinstance(a, (tuple, list, str)) and isinstance(b, type(a)) and t is ast.Add:
            return a + b
        if isinstance(a, (tuple, list, str)) and isinstance(b, int) and t is ast.Mult:
            return a * b
        if isinstance(a, (set, frozenset)) and isinstance(b, (set, frozenset)):
            if t is ast.Sub:
                return a - b
            if t is ast.BitOr:
                return a | b
            if t is ast.BitAnd:
                return a & b
        if isinstance(a, str) and t is ast.Mod:
            return a % b
        # extended reals
        if isinstance(a, XR) or isinstance(b, XR):
            return self.xr_binop(t, a, b, node)
        # uninterpreted sorts (abstract semiring W)
        if isinstance(a, Z) and not (a.is_num() or a.is_bool()) or isinstance(b, Z) and not (b.is_num() or b.is_bool()):
            return self.abstract_binop(t, a, b, node)
        if not (is_numlike(a) and is_numlike(b)):
            raise PyRaise("TypeError", f"unsupported operand type(s) for {t.__name__}: '{pytype_name(a)}' and '{pytype_name(b)}'", node)
        # concrete
        if not isinstance(a, Z) and not isinstance(b, Z):
            a2 = Fraction(a) if isinstance(a, float) else a
            b2 = Fraction(b) if isinstance(b, float) else b
            if t is ast.Add:
                return a2 + b2
            if t is ast.Sub:
                return a2 - b2
            if t is ast.Mult:
                return a2 * b2
            if t is ast.Div:
                if b2 == 0:
                    raise PyRaise("ZeroDivisionError", "division by zero", node)
                return Fraction(a2) / Fraction(b2)
            if t is ast.FloorDiv:
                return a2 // b2
            if t is ast.Mod:
                return a2 % b2
            if t is ast.Pow:
                return Fraction(a2) ** b2 if isinstance(b2, int) and b2 < 0 else a2 ** b2
            raise OutOfSubset("operator " + t.__name__)
        # symbolic numbers
        both_int = all((isinstance(x, Z) and x.is_int()) or (isinstance(x, int) and not isinstance(x, bool)) for x in (a, b))
        if both_int and t is not ast.Div:
            x, y = zexpr(a), zexpr(b)
        else:
            x, y = to_real(a), to_real(b)
        if t is ast.Add:
            return Z(x + y)
        if t is ast.Sub:
            return Z(x - y)
        if t is ast.Mult:
            return Z(x * y)
        if t is ast.Div:
            self.path.side.append(("division-defined", y != 0, node))
            if not self.path.decide(y != 0):
                raise PyRaise("ZeroDivisionError", "division by zero", node)
            return Z(x / y)
        if t is ast.Pow:
            if isinstance(b, int) and not isinstance(b, bool):
                if b >= 0:
                    r = z3.RealVal(1) if not both_int else z3.IntVal(1)
                    for _ in range(b):
                        r = r * x
                    return Z(r)
                x = to_real(a)
                self.path.side.append(("division-defined", x != 0, node))
                if not self.path.decide(x != 0):
                    raise PyRaise("ZeroDivisionError", "0 ** negative", node)
                r = z3.RealVal(1)
                for _ in range(-b):
                    r = r * x
                return Z(1 / r)
            raise OutOfSubset("symbolic exponent")
        if t is ast.FloorDiv and both_int:
            return Z(x / y)
        if t is ast.Mod and both_int:
            return Z(x % y)
        raise OutOfSubset("operator " + t.__name__)

    def abstract_binop(self, t, a, b, node):
        if not (isinstance(a, Z) and isinstance(b, Z) and a.sort == b.sort):
            raise PyRaise("TypeError", f"unsupported operand type(s) for {t.__name__}: '{pytype_name(a)}' and '{pytype_name(b)}'", node)
        key = (str(a.sort), t.__name__)
        f = self.uf.get(key)
        if f is None:
            raise PyRaise("TypeError", f"sort {a.sort} has no operator {t.__name__}", node)
        return Z(f(a.e, b.e))

    def xr_binop(self, t, a, b, node):
        a, b = XR.of(a), XR.of(b)
        if t is ast.Add:
            # -inf + +inf is NaN in floats: definedness side condition
            self.path.side.append(("no-inf-minus-inf", z3.Not(z3.Or(z3.And(a.neg, b.pos), z3.And(a.pos, b.neg))), node))
            return XR(z3.Or(a.neg, b.neg), z3.Or(a.pos, b.pos), a.val + b.val)
        if t is ast.Sub:
            self.path.side.append(("no-inf-minus-inf", z3.Not(z3.Or(z3.And(a.neg, b.neg), z3.And(a.pos, b.pos))), node))
            return XR(z3.Or(a.neg, b.pos), z3.Or(a.pos, b.neg), a.val - b.val)
        if t is ast.Mult:
            fin = z3.And(z3.Not(a.neg), z3.Not(a.pos), z3.Not(b.neg), z3.Not(b.pos))
            self.path.side.append(("finite-product", fin, node))
            return XR(z3.BoolVal(False), z3.BoolVal(False), a.val * b.val)
        raise OutOfSubset("extended-real operator " + t.__name__)

    def binop_cmp(self, op, a, b, node=None):
        t = type(op)
        if t in (ast.Is, ast.IsNot):
            same = a is b or (isinstance(a, (bool, type(None))) and a is b)
            if isinstance(a, (Z, XR)) or isinstance(b, (Z, XR)):
                if a is None or b is None:
                    same = False
                else:
                    raise OutOfSubset("identity test on symbolic scalars")
            return same if t is ast.Is else not same
        if t in (ast.In, ast.NotIn):
            r = self.contains(b, a, node)
            return r if t is ast.In else self.negate(r)
        if t in (ast.Eq, ast.NotEq):
            r = self.equals(a, b, node)
            return r if t is ast.Eq else self.negate(r)
        # ordering
        if isinstance(a, XR) or isinstance(b, XR):
            a, b = XR.of(a), XR.of(b)
            fa = z3.And(z3.Not(a.neg), z3.Not(a.pos))
            fb = z3.And(z3.Not(b.neg), z3.Not(b.pos))
            lt = z3.Or(z3.And(a.neg, z3.Not(b.neg)), z3.And(b.pos, z3.Not(a.pos)), z3.And(fa, fb, a.val < b.val))
            eq = z3.Or(z3.And(a.neg, b.neg), z3.And(a.pos, b.pos), z3.And(fa, fb, a.val == b.val))
            return Z({ast.Lt: lt, ast.LtE: z3.Or(lt, eq), ast.Gt: z3.Not(z3.Or(lt, eq)), ast.GtE: z3.Not(lt)}[t])
        if isinstance(a, (tuple, list)) and isinstance(b, (tuple, list)) or isinstance(a, str) and isinstance(b, str):
            try:
                return {ast.Lt: a < b, ast.LtE: a <= b, ast.Gt: a > b, ast.GtE: a >= b}[t]
            except TypeError:
                raise OutOfSubset("ordering of symbolic sequences")
        if isinstance(a, (set, frozenset)) and isinstance(b, (set, frozenset)):
            return {ast.Lt: a < b, ast.LtE: a <= b, ast.Gt: a > b, ast.GtE: a >= b}[t]
        if hasattr(a, "__pyvc_cmp__"):
            return a.__pyvc_cmp__(self, op, b, False, node)
        if hasattr(b, "__pyvc_cmp__"):
            return b.__pyvc_cmp__(self, op, a, True, node)
        if not (is_numlike(a) and is_numlike(b)):
            raise PyRaise("TypeError", f"'{t.__name__}' not supported between '{pytype_name(a)}' and '{pytype_name(b)}'", node)
        if not isinstance(a, Z) and not isinstance(b, Z):
            return {ast.Lt: a < b, ast.LtE: a <= b, ast.Gt: a > b, ast.GtE: a >= b}[t]
        both_int = all((isinstance(x, Z) and x.is_int()) or (isinstance(x, int) and not isinstance(x, bool)) for x in (a, b))
        x, y = (zexpr(a), zexpr(b)) if both_int else (to_real(a), to_real(b))
        return Z({ast.Lt: x < y, ast.LtE: x <= y, ast.Gt: x > y, ast.GtE: x >= y}[t])

    def negate(self, r):
        if isinstance(r, Z):
            return Z(z3.Not(r.e))
        return not r

    def equals(self, a, b, node=None):
        if isinstance(a, Obj):
            f, _ = a.cls.lookup("__eq__")
            if f is not None:
                return self.call(BoundMethod(f, a), [b], {})
            return a is b
        if isinstance(b, Obj):
            f, _ = b.cls.lookup("__eq__")
            if f is not None:
                return self.call(BoundMethod(f, b), [a], {})
            return False
        if hasattr(a, "__pyvc_eq__"):
            return a.__pyvc_eq__(self, b)
        if hasattr(b, "__pyvc_eq__"):
            return b.__pyvc_eq__(self, a)
        if isinstance(a, XR) or isinstance(b, XR):
            if not (is_numlike(a) or isinstance(a, XR)) or not (is_numlike(b) or isinstance(b, XR)):
                return False
            a, b = XR.of(a), XR.of(b)
            fa = z3.And(z3.Not(a.neg), z3.Not(a.pos))
            fb = z3.And(z3.Not(b.neg), z3.Not(b.pos))
            return Z(z3.Or(z3.And(a.neg, b.neg), z3.And(a.pos, b.pos), z3.And(fa, fb, a.val == b.val)))
        if isinstance(a, (tuple, list)) and isinstance(b, (tuple, list)):
            if type(a) is not type(b) or len(a) != len(b):
                return False
            cs = []
            for x, y in zip(a, b):
                r = self.equals(x, y, node)
                if r is False:
                    return False
                if r is not True:
                    cs.append(r.e)
            if not cs:
                return True
            return Z(z3.And(*cs)) if len(cs) > 1 else Z(cs[0])
        if isinstance(a, Z) or isinstance(b, Z):
            za = a if isinstance(a, Z) else None
            zb = b if isinstance(b, Z) else None
            if za is not None and zb is not None:
                if za.sort == zb.sort:
                    return Z(za.e == zb.e)
                if za.is_num() and zb.is_num():
                    return Z(to_real(za) == to_real(zb))
                if (za.is_bool() and zb.is_num()) or (za.is_num() and zb.is_bool()):
                    return Z(to_real(za) == to_real(zb))
                return False
            z, c = (za, b) if za is not None else (zb, a)
            if z.is_num() or z.is_bool():
                if is_numlike(c):
                    if z.is_int() and isinstance(c, int):
                        return Z(z.e == zexpr(c))
                    return Z(to_real(z) == to_real(c))
                return False
            if hasattr(c, "__pyvc_as_sort__"):
                return Z(z.e == c.__pyvc_as_sort__(z.sort))
            return False
        if isinstance(a, float):
            a = Fraction(a)
        if isinstance(b, float):
            b = Fraction(b)
        return a == b

    def contains(self, container, x, node=None):
        if hasattr(container, "__pyvc_contains__"):
            return container.__pyvc_contains__(self, x)
        if isinstance(container, (list, tuple, set, frozenset, dict, str)):
            if _symbolic_key(x) or any(_symbolic_key(c) for c in container):
                cs = []
                for c in container:
                    r = self.equals(x, c)
                    if r is True:
                        return True
                    if r is not False:
                        cs.append(r.e)
                if not cs:
                    return False
                return Z(z3.Or(*cs)) if len(cs) > 1 else Z(cs[0])
            return x in container
        if isinstance(container, Obj):
            f, _ = container.cls.lookup("__contains__")
            if f is not None:
                return self.call(BoundMethod(f, container), [x], {})
        raise OutOfSubset(f"membership in {type(container).__name__}")


_MISSING = object()


def _symbolic_key(k):
    if isinstance(k, (Z, XR)):
        return True
    if isinstance(k, (tuple, frozenset)):
        return any(_symbolic_key(c) for c in k)
    return False


class _Gen:
    def __init__(self, items):
        self.items = items


class dict_items:
    def __init__(self, items):
        self.items = items


class Unknown:
    def __init__(self, name):
        self.name = name

    def __repr__(self):
        return f"<unmodelled {self.name}>"


class SymStr:
    """A string built by an f-string from symbolic parts (only used in messages / names)."""

    def __init__(self, template, parts):
        self.template = template
        self.parts = parts

    def __repr__(self):
        return f"SymStr({self.template})"


class NativeMethod:
    def __init__(self, o, name):
        self.o = o
        self.name = name

    def call(self, interp, args, kwargs):
        o, name = self.o, self.name
        if isinstance(o, dict) and name in ("get", "pop", "setdefault"):
            c = interp.dict_find(o, args[0])
            if c is _MISSING:
                if name == "setdefault":
                    o[args[0]] = args[1] if len(args) > 1 else None
                    return o[args[0]]
                if name == "pop" and len(args) < 2:
                    raise PyRaise("KeyError", repr(args[0]))
                return args[1] if len(args) > 1 else None
            return o.pop(c) if name == "pop" else o[c]
        if isinstance(o, dict) and name == "items":
            return list(o.items())
        if name in ("append", "add", "extend", "update", "pop", "keys", "values", "copy", "clear", "remove", "discard",
                    "index", "count", "setdefault", "popitem", "strip", "split", "startswith", "endswith", "join", "lower",
                    "upper", "encode", "replace", "isupper", "union", "intersection", "difference", "issubset", "insert"):
            args = [interp.iterate(a) if isinstance(a, _Gen) else a for a in args]
            if not hasattr(o, name):
                raise PyRaise("AttributeError", f"'{type(o).__name__}' object has no attribute '{name}'")
            try:
                return getattr(o, name)(*args, **kwargs)
            except KeyError as e:
                raise PyRaise("KeyError", str(e))
            except IndexError as e:
                raise PyRaise("IndexError", str(e))
        raise OutOfSubset(f"method {type(o).__name__}.{name}")


def _symbolic_len(v):
    return getattr(v, "is_lseq", False) and not isinstance(v.length(), int)


def pytype_name(v):
    if isinstance(v, bool):
        return "bool"
    if isinstance(v, int):
        return "int"
    if isinstance(v, (Fraction, float, XR)):
        return "float"
    if isinstance(v, Z):
        if v.is_int():
            return "int"
        if v.is_real():
            return "float"
        if v.is_bool():
            return "bool"
        return str(v.sort)
    if isinstance(v, Obj):
        return v.cls.name
    if v is None:
        return "NoneType"
    return type(v).__name__


def _load(t):
    t2 = ast.parse(ast.unparse(t), mode="eval").body
    return t2


def _has_yield(fn):
    for n in ast.walk(fn):
        if isinstance(n, (ast.Yield, ast.YieldFrom)):
            # make sure it belongs to this function, not a nested def
            return _owner_is(fn, n)
    return False


def _owner_is(fn, target):
    class V(ast.NodeVisitor):
        found = False

        def generic_visit(self, node):
            if node is target:
                self.found = True
                return
            for ch in ast.iter_child_nodes(node):
                if isinstance(ch, (ast.FunctionDef, ast.Lambda)) and ch is not fn:
                    continue
                self.generic_visit(ch)

    v = V()
    v.generic_visit(fn)
    return v.found


# ------------------------------------------------------------------------------------------ builtins
def _b_len(interp, args, kw):
    (x,) = args
    if hasattr(x, "__pyvc_len__"):
        return x.__pyvc_len__(interp)
    if isinstance(x, _Gen):
        return len(x.items)
    if isinstance(x, Obj):
        f, _ = x.cls.lookup("__len__")
        if f is None:
            raise PyRaise("TypeError", f"object of type '{x.cls.name}' has no len()")
        return interp.call(BoundMethod(f, x), [], {})
    if isinstance(x, (Z, XR, int, Fraction)):
        raise PyRaise("TypeError", f"object of type '{pytype_name(x)}' has no len()")
    try:
        return len(x)
    except TypeError:
        raise OutOfSubset(f"len() of a harness object of type {type(x).__name__} (no length contract)")


def _b_max(interp, args, kw):
    xs = interp.iterate(args[0]) if len(args) == 1 else list(args)
    if "default" in kw and not xs:
        return kw["default"]
    if not xs:
        raise PyRaise("ValueError", "max() of empty sequence")
    r = xs[0]
    for x in xs[1:]:
        r = _max2(interp, r, x)
    return r


def _max2(interp, a, b):
    if not isinstance(a, (Z, XR)) and not isinstance(b, (Z, XR)):
        return a if not (b > a) else b
    if isinstance(a, XR) or isinstance(b, XR):
        a, b = XR.of(a), XR.of(b)
        c = interp.binop_cmp(ast.Gt(), b, a).e  # python: max keeps the first unless a later one is greater
        return XR(z3.If(c, b.neg, a.neg), z3.If(c, b.pos, a.pos), z3.If(c, b.val, a.val))
    both_int = all((isinstance(x, Z) and x.is_int()) or (isinstance(x, int) and not isinstance(x, bool)) for x in (a, b))
    x, y = (zexpr(a), zexpr(b)) if both_int else (to_real(a), to_real(b))
    return Z(z3.If(y > x, y, x))


def _b_min(interp, args, kw):
    xs = interp.iterate(args[0]) if len(args) == 1 else list(args)
    if "default" in kw and not xs:
        return kw["default"]
    r = xs[0]
    for b in xs[1:]:
        a = r
        if not isinstance(a, (Z, XR)) and not isinstance(b, (Z, XR)):
            r = a if not (b < a) else b
            continue
        if isinstance(a, XR) or isinstance(b, XR):
            raise OutOfSubset("min over extended reals")
        both_int = all((isinstance(x, Z) and x.is_int()) or (isinstance(x, int) and not isinstance(x, bool)) for x in (a, b))
        x, y = (zexpr(a), zexpr(b)) if both_int else (to_real(a), to_real(b))
        r = Z(z3.If(y < x, y, x))
    return r


def _b_abs(interp, args, kw):
    (x,) = args
    if isinstance(x, Z):
        return Z(z3.If(x.e >= 0, x.e, -x.e))
    if isinstance(x, XR):
        raise OutOfSubset("abs of extended real")
    return abs(x)


def _b_sum(interp, args, kw):
    xs = interp.iterate(args[0])
    start = args[1] if len(args) > 1 else kw.get("start", 0)
    t = start
    for x in xs:
        t = interp.binop(ast.Add(), t, x)
    return t


def _b_bool(interp, args, kw):
    if not args:
        return False
    v = args[0]
    if isinstance(v, Z) and v.is_bool():
        return v
    if isinstance(v, Z) and v.is_num():
        return Z(v.e != 0)
    return interp.truth(v)


def _b_float(interp, args, kw):
    (v,) = args
    if isinstance(v, str):
        try:
            return Fraction(float(v)) if v.strip().lower() not in ("inf", "-inf", "nan") else (POS_INF if "-" not in v else NEG_INF)
        except ValueError as e:
            raise PyRaise("ValueError", str(e))
    if isinstance(v, Z):
        return Z(to_real(v))
    if isinstance(v, XR):
        return v
    return Fraction(v)


def _b_int(interp, args, kw):
    (v,) = args
    if isinstance(v, Z):
        if v.is_int():
            return v
        if v.is_bool():
            return Z(z3.If(v.e, z3.IntVal(1), z3.IntVal(0)))
        return Z(z3.ToInt(v.e))
    return int(v)


def _b_isinstance(interp, args, kw):
    v, c = args
    cs = c if isinstance(c, tuple) else (c,)
    if hasattr(v, "__pyvc_isinstance__"):
        return any(v.__pyvc_isinstance__(k) for k in cs)
    for k in cs:
        if isinstance(k, ClassObj):
            if isinstance(v, Obj) and v.cls.issubclass(k):
                return True
        elif k is int:
            if (isinstance(v, int) and True) or (isinstance(v, Z) and (v.is_int() or v.is_bool())):
                return True
        elif k is float:
            if isinstance(v, (Fraction, float, XR)) or (isinstance(v, Z) and v.is_real()):
                return True
        elif k is bool:
            if isinstance(v, bool) or (isinstance(v, Z) and v.is_bool()):
                return True
        elif k in (str, tuple, list, dict, set, frozenset):
            if isinstance(v, k):
                return True
        elif hasattr(k, "__pyvc_instancecheck__"):
            if k.__pyvc_instancecheck__(v):
                return True
        else:
            raise OutOfSubset(f"isinstance against {k!r}")
    return False


def _b_tuple(interp, args, kw):
    if args and _symbolic_len(args[0]):
        return args[0]
    return tuple(interp.iterate(args[0])) if args else ()


def _b_list(interp, args, kw):
    return list(interp.iterate(args[0])) if args else []


def _b_set(interp, args, kw):
    if args and _symbolic_len(args[0]):
        from .symstruct import SeqAsSet
        return SeqAsSet(args[0])
    return set(interp.iterate(args[0])) if args else set()


def _b_frozenset(interp, args, kw):
    return frozenset(interp.iterate(args[0])) if args else frozenset()


def _b_dict(interp, args, kw):
    d = {}
    if args:
        a = args[0]
        d.update(a if isinstance(a, dict) else dict(interp.iterate(a)))
    d.update(kw)
    return d


def _b_range(interp, args, kw):
    if any(isinstance(a, Z) for a in args):
        raise OutOfSubset("range with symbolic bound (needs a loop contract)")
    return range(*args)


def _b_enumerate(interp, args, kw):
    return list(enumerate(interp.iterate(args[0]), *args[1:]))


def _b_zip(interp, args, kw):
    return list(zip(*[interp.iterate(a) for a in args]))


def _b_any(interp, args, kw):
    for x in interp.iterate(args[0]):
        if interp.truth(x):
            return True
    return False


def _b_all(interp, args, kw):
    if _symbolic_len(args[0]):
        from .symstruct import forced_value
        if forced_value(interp.path, args[0].length()) is not None:
            for x in interp.iterate(args[0]):        # the path condition fixes the length: plain iteration
                if not interp.truth(x):
                    return False
            return True
        # all(phi(y) for y in <sequence of symbolic length>): a fresh Boolean b with the schema  b => phi(seq[i]) for every index i
        # (and  not b => some index fails), registered on the path and instantiated where needed (symstruct.instantiate_all)
        b = z3.Bool(f"all!{next(interp.path.fresh)}")
        interp.path.qfacts.append(("all", b, args[0], None))
        return Z(b)
    for x in interp.iterate(args[0]):
        if not interp.truth(x):
            return False
    return True


def _b_reversed(interp, args, kw):
    return list(reversed(interp.iterate(args[0])))


def _b_sorted(interp, args, kw):
    xs = interp.iterate(args[0])
    if "key" in kw:
        f = kw["key"]
        return sorted(xs, key=lambda x: interp.call(f, [x], {}), reverse=kw.get("reverse", False))
    return sorted(xs, reverse=kw.get("reverse", False))


def _b_hash(interp, args, kw):
    try:
        return hash(args[0])
    except TypeError:
        return 0


def _b_str(interp, args, kw):
    return str(args[0]) if args else ""


def _b_repr(interp, args, kw):
    return repr(args[0])


def _b_print(interp, args, kw):
    return None


def _b_iter(interp, args, kw):
    return list(interp.iterate(args[0]))


def _b_type(interp, args, kw):
    (v,) = args
    if isinstance(v, Obj):
        return v.cls
    return PyType(pytype_name(v))


class PyType:
    def __init__(self, name):
        self.name = name

    def __pyvc_getattr__(self, interp, name, node):
        raise PyRaise("AttributeError", f"type object '{self.name}' has no attribute '{name}'", node)

    def __repr__(self):
        return f"<class '{self.name}'>"


BUILTINS = {
    "len": Native("len", _b_len), "max": Native("max", _b_max), "min": Native("min", _b_min),
    "abs": Native("abs", _b_abs), "sum": Native("sum", _b_sum), "bool": Native("bool", _b_bool),
    "float": Native("float", _b_float), "int": int, "isinstance": Native("isinstance", _b_isinstance),
    "tuple": tuple, "list": list, "set": set, "frozenset": frozenset, "dict": dict, "str": str,
    "range": Native("range", _b_range), "enumerate": Native("enumerate", _b_enumerate), "zip": Native("zip", _b_zip),
    "any": Native("any", _b_any), "all": Native("all", _b_all), "reversed": Native("reversed", _b_reversed),
    "sorted": Native("sorted", _b_sorted), "hash": Native("hash", _b_hash), "repr": Native("repr", _b_repr),
    "print": Native("print", _b_print), "iter": Native("iter", _b_iter), "type": Native("type", _b_type),
    "super": Native("super", None), "True": True, "False": False, "None": None,
    "NotImplementedError": "NotImplementedError", "ValueError": "ValueError", "AssertionError": "AssertionError",
    "TypeError": "TypeError", "AttributeError": "AttributeError", "KeyError": "KeyError", "IndexError": "IndexError",
    "Exception": "Exception", "object": ClassObj("object", [], None),
}

# python's real type objects are used as isinstance targets; map their *calls* to natives
_TYPE_CALLS = {int: _b_int, tuple: _b_tuple, list: _b_list, set: _b_set, frozenset: _b_frozenset, dict: _b_dict, str: _b_str}
_orig_call = Interp.call


def _call(self, f, args, kwargs, node=None):
    if isinstance(f, type) and f in _TYPE_CALLS:
        return _TYPE_CALLS[f](self, list(args), kwargs)
    return _orig_call(self, f, args, kwargs, node)


Interp.call = _call

"""Timeout helper without any genlm import (usable by the engine before workers import the repo)."""
import contextlib
import signal


class Timeout(Exception):
    pass


@contextlib.contextmanager
def watchdog(seconds):
    def handler(signum, frame):
        raise Timeout(f"no result after {seconds}s")

    old = signal.signal(signal.SIGALRM, handler)
    signal.setitimer(signal.ITIMER_REAL, seconds)
    try:
        yield
    finally:
        signal.setitimer(signal.ITIMER_REAL, 0)
        signal.signal(signal.SIGALRM, old)

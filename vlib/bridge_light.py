"""Timeout helper without any genlm import (usable by the engine before workers import the repo).

`watchdog(seconds)` is nestable: an inner watchdog never cancels or extends an outer one (the earliest deadline wins,
and the outer timer is re-armed with its remaining time when the inner block exits).
"""
import contextlib
import signal
import time


class Timeout(Exception):
    pass


_deadlines = []   # stack of (deadline, seconds)


def _handler(signum, frame):
    now = time.monotonic()
    # raise for the innermost expired watchdog
    for d, secs in reversed(_deadlines):
        if d <= now + 1e-3:
            raise Timeout(f"no result after {secs}s")
    _arm()


def _arm():
    if not _deadlines:
        signal.setitimer(signal.ITIMER_REAL, 0)
        return
    nxt = min(d for d, _ in _deadlines)
    signal.setitimer(signal.ITIMER_REAL, max(nxt - time.monotonic(), 0.001))


@contextlib.contextmanager
def watchdog(seconds):
    old = signal.signal(signal.SIGALRM, _handler)
    _deadlines.append((time.monotonic() + seconds, seconds))
    _arm()
    try:
        yield
    finally:
        _deadlines.pop()
        _arm()
        if not _deadlines:
            signal.signal(signal.SIGALRM, old if old not in (None, _handler) else signal.SIG_DFL)

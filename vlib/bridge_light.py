"""Timeout helper without any genlm import (usable by the engine before workers import the repo).

`watchdog(seconds)` is nestable: an inner watchdog never cancels or extends an outer one (the earliest deadline wins,
and the outer timer is re-armed with its remaining time when the inner block exits).  Seconds are CPU seconds of the
process (robust against a loaded machine) with a wall-clock backstop.
"""
import contextlib
import signal
import time


class Timeout(Exception):
    pass


# Budgets are measured in CPU time of the worker process (ITIMER_PROF), so that a busy machine does not turn slow cases into
# timeouts; a wall-clock backstop of WALL_FACTOR x the budget (ITIMER_REAL) catches code that blocks without using the CPU.
WALL_FACTOR = 12
_deadlines = []   # stack of (cpu deadline, wall deadline, seconds)


def _handler(signum, frame):
    cpu, wall = time.process_time(), time.monotonic()
    # raise for the innermost expired watchdog
    for dc, dw, secs in reversed(_deadlines):
        if dc <= cpu + 1e-3:
            raise Timeout(f"no result after {secs}s of CPU time")
        if dw <= wall + 1e-3:
            raise Timeout(f"no result after {secs * WALL_FACTOR}s of wall-clock time (budget {secs}s CPU)")
    _arm()


def _arm():
    if not _deadlines:
        signal.setitimer(signal.ITIMER_PROF, 0)
        signal.setitimer(signal.ITIMER_REAL, 0)
        return
    signal.setitimer(signal.ITIMER_PROF, max(min(d for d, _, _ in _deadlines) - time.process_time(), 0.001))
    signal.setitimer(signal.ITIMER_REAL, max(min(d for _, d, _ in _deadlines) - time.monotonic(), 0.001))


@contextlib.contextmanager
def watchdog(seconds):
    old_a = signal.signal(signal.SIGALRM, _handler)
    old_p = signal.signal(signal.SIGPROF, _handler)
    _deadlines.append((time.process_time() + seconds, time.monotonic() + seconds * WALL_FACTOR, seconds))
    _arm()
    try:
        yield
    finally:
        _deadlines.pop()
        _arm()
        if not _deadlines:
            signal.signal(signal.SIGALRM, old_a if old_a not in (None, _handler) else signal.SIG_DFL)
            signal.signal(signal.SIGPROF, old_p if old_p not in (None, _handler) else signal.SIG_DFL)

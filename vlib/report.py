"""Run bookkeeping: obligations, bounded evaluations, violations, known findings, evidence, exit code.

Exit codes (DESIGN 2.1): 0 held / 1 violation / 2 undecided / 3 checker crash.
"""
import hashlib
import json
import os
import sys
import time
import traceback

VERIF = os.path.dirname(os.path.dirname(os.path.abspath(__file__)))
REPO = os.environ.get("VERIF_REPO", "/repo")

EXIT_HELD, EXIT_VIOLATION, EXIT_UNDECIDED, EXIT_CRASH = 0, 1, 2, 3


def jsonable(x):
    from fractions import Fraction
    if isinstance(x, (str, int, bool)) or x is None:
        return x
    if isinstance(x, float):
        if x != x or x in (float("inf"), float("-inf")):
            return repr(x)
        return x
    if isinstance(x, Fraction):
        return str(x)
    if isinstance(x, dict):
        return {str(k) if not isinstance(k, str) else k: jsonable(v) for k, v in x.items()}
    if isinstance(x, (list, tuple, set, frozenset)):
        xs = list(x)
        if isinstance(x, (set, frozenset)):
            xs = sorted(xs, key=repr)
        return [jsonable(v) for v in xs]
    return repr(x)


def load_known():
    p = os.path.join(VERIF, "known_findings.json")
    if not os.path.exists(p):
        return []
    with open(p) as f:
        return json.load(f).get("findings", [])


class Run:
    MAX_PER_OBLIGATION = 4

    def __init__(self, pid, tier, seed, level, checker_cmd):
        self.pid = pid
        self.tier = tier
        self.seed = seed
        self.level = level
        self.checker_cmd = checker_cmd
        self.t0 = time.perf_counter()
        self.obligations = []      # dicts: name, role, cls, verdict, backend, ms, detail
        self.evaluations = 0
        self.nontrivial = set()
        self.samples = []
        self.bounded_rules = []
        self.exhaustive = None
        self.assumptions = []
        self.trusted = []
        self.functions = {}        # qualified name -> sha
        self.violations = []       # dicts
        self.known_hits = []
        self.undecided = []
        self.notes = []
        self.known = [k for k in load_known() if k.get("property") == pid and k.get("status", "open") == "open"]
        self.solver_s = 0.0
        self.by_backend = {}
        self.extra = {}

    # ------------------------------------------------------------ proved layer
    def function_under_contract(self, qualname, sha):
        self.functions[qualname] = sha

    def obligation(self, name, verdict, role="property", backend="z3", ms=0.0, detail="", model=None, replay=None,
                   signature=None):
        """verdict: 'proved' | 'refuted' | 'unknown' | 'out-of-subset'."""
        rec = dict(name=name, role=role, verdict=verdict, backend=backend, ms=round(ms, 2), detail=detail)
        if model is not None:
            rec["model"] = jsonable(model)
        self.obligations.append(rec)
        self.solver_s += ms / 1000.0
        if verdict == "proved":
            self.by_backend[backend] = self.by_backend.get(backend, 0) + 1
        elif verdict == "refuted":
            if role == "property":
                self.violation(name, detail or "obligation refuted", replay or {"model": jsonable(model)},
                               signature=signature or name, found_input=bool(replay and replay.get("replayed")))
            else:
                self.notes.append(f"auxiliary obligation {name} refuted: decision deferred to the bounded stand-in")
                self.extra.setdefault("aux_refuted", []).append(name)
        else:
            self.undecided.append((name, verdict + (": " + detail if detail else "")))
        return rec

    # ------------------------------------------------------------ bounded layer
    def count(self, n=1, key=None):
        self.evaluations += n
        if key is not None:
            self.nontrivial.add(key)

    def sample(self, s, limit=6):
        if len(self.samples) < limit:
            self.samples.append(jsonable(s))

    def rule(self, text):
        if text not in self.bounded_rules:
            self.bounded_rules.append(text)

    def assume(self, *texts):
        for t in texts:
            if t not in self.assumptions:
                self.assumptions.append(t)

    def trust(self, *texts):
        for t in texts:
            if t not in self.trusted:
                self.trusted.append(t)

    # ------------------------------------------------------------ violations
    def violation(self, obligation, what, replay, signature=None, found_input=True):
        """Record a violation; suppressed into KNOWN-FINDING when listed (by obligation + signature)."""
        signature = signature or obligation
        for k in self.known:
            if k.get("obligation") == obligation and k.get("signature") == signature:
                if (obligation, signature) not in [(h["obligation"], h["signature"]) for h in self.known_hits]:
                    self.known_hits.append(dict(obligation=obligation, signature=signature, what=k.get("what", what)))
                return False
        # de-duplicate: one replay per (obligation, signature)
        for v in self.violations:
            if v["obligation"] == obligation and v["signature"] == signature:
                v["count"] += 1
                return True
        # at most MAX_PER_OBLIGATION distinct failing inputs are written out per obligation; further ones are counted
        same = [v for v in self.violations if v["obligation"] == obligation]
        if len(same) >= self.MAX_PER_OBLIGATION:
            same[-1]["more_inputs"] = same[-1].get("more_inputs", 0) + 1
            return True
        d = os.path.join(os.environ.get("VERIF_REPLAY_DIR", os.path.join(VERIF, "replays")), self.pid)
        os.makedirs(d, exist_ok=True)
        h = hashlib.sha1((obligation + "|" + signature).encode()).hexdigest()[:10]
        path = os.path.join(d, f"{h}.json")
        doc = dict(property=self.pid, obligation=obligation, signature=signature, what=what,
                   found_input=found_input, replay=jsonable(replay), tier=self.tier, seed=self.seed)
        with open(path, "w") as f:
            json.dump(doc, f, indent=1)
        self.violations.append(dict(obligation=obligation, signature=signature, what=what, path=path,
                                    found_input=found_input, count=1))
        return True

    def mark_undecided(self, name, reason):
        self.undecided.append((name, reason))

    # ------------------------------------------------------------ finish
    def _link_inputs(self):
        """A refuted PROVED-class obligation without a replayable input borrows the concrete failing input that the
        bounded stand-in of the same function found in this run (DESIGN 2.1)."""
        def fn(ob):
            return ob.split("/")[1] if ob.count("/") >= 2 else ob
        for v in self.violations:
            if v["found_input"]:
                continue
            for w in self.violations:
                if w["found_input"] and fn(w["obligation"]) == fn(v["obligation"]):
                    try:
                        with open(v["path"]) as f:
                            doc = json.load(f)
                        with open(w["path"]) as f:
                            other = json.load(f)
                        doc["concrete_input_from_bounded"] = dict(obligation=other["obligation"], replay=other["replay"], file=w["path"])
                        doc["found_input"] = True
                        with open(v["path"], "w") as f:
                            json.dump(doc, f, indent=1)
                        v["found_input"] = True
                    except Exception:  # noqa: BLE001
                        pass
                    break

    def lock_missing(self):
        p = os.path.join(VERIF, "obligations.lock")
        if not os.path.exists(p):
            return []
        with open(p) as f:
            lock = json.load(f)
        have = {o["name"] for o in self.obligations}
        return sorted(set(lock.get(self.pid, [])) - have)

    def finish(self, check_lock=True):
        # a generator that silently produces fewer VCs is a checker crash, not a pass (DESIGN 2.2 guard i) - but violations found
        # by the obligations that WERE generated, and by the bounded layer, are still reported (and decide the exit code)
        missing = self.lock_missing() if check_lock else []
        for nm in missing:
            self.notes.append(f"locked obligation not generated from the current source: {nm}")
        self._link_inputs()
        # auxiliary (construction-conformance) obligations that are refuted withdraw the proof layer for that function: the
        # decision is the bounded stand-in's; if it found nothing the result is UNDECIDED (never a pass, never a violation).
        for nm in self.extra.get("aux_refuted", []):
            if not self.violations:
                self.undecided.append((nm, "construction-changed: code no longer conforms to the verified construction; "
                                           "the bounded stand-in found no counterexample on its domain"))
        wall = time.perf_counter() - self.t0
        n_ob = len(self.obligations)
        n_dis = sum(1 for o in self.obligations if o["verdict"] == "proved")
        cov = dict(
            obligations=n_ob,
            discharged=n_dis,
            checker_cmd=self.checker_cmd,
            trusted_base=self.trusted,
            functions_under_contract=[dict(name=k, sha=v) for k, v in sorted(self.functions.items())],
            by_backend=self.by_backend,
            solver_s=round(self.solver_s, 3),
            evaluations=self.evaluations,
            distinct_nontrivial=len(self.nontrivial),
            rule="; ".join(self.bounded_rules) if self.bounded_rules else "no bounded layer in this check",
            samples=self.samples or [o["name"] for o in self.obligations[:5]] or ["(none)"],
            explanation=self.explanation(n_ob, n_dis),
            obligation_list=[dict(name=o["name"], role=o["role"], verdict=o["verdict"], backend=o["backend"], ms=o["ms"])
                             for o in self.obligations],
            undecided=[dict(obligation=a, reason=b) for a, b in self.undecided],
            known_findings_hit=self.known_hits,
            notes=self.notes,
        )
        if self.exhaustive is not None:
            cov["exhaustive"] = bool(self.exhaustive)
        cov.update(self.extra)
        ev = dict(property_id=self.pid, tier=self.tier, seed=self.seed, level=self.level, coverage=cov,
                  assumptions=self.assumptions, wall_s=round(wall, 2), violations=len(self.violations))
        evdir = os.environ.get("VERIF_EVIDENCE_DIR", os.path.join(VERIF, "evidence"))
        os.makedirs(evdir, exist_ok=True)
        with open(os.path.join(evdir, f"{self.pid}.json"), "w") as f:
            json.dump(jsonable(ev), f, indent=1)
        for h in self.known_hits:
            print(f"KNOWN-FINDING: property={self.pid} {h['obligation']} [{h['signature']}] {h['what']}")
        for v in self.violations:
            suffix = "" if v["found_input"] else " no-failing-input-found"
            print(f"VIOLATION property={self.pid} replay={v['path']} obligation={v['obligation']} "
                  f"what={v['what']!r} occurrences={v['count']} further_inputs={v.get('more_inputs', 0)}{suffix}")
        print(f"[{self.pid}] tier={self.tier} seed={self.seed} obligations={n_ob} discharged={n_dis} "
              f"evaluations={self.evaluations} nontrivial={len(self.nontrivial)} violations={len(self.violations)} "
              f"known={len(self.known_hits)} undecided={len(self.undecided)} wall={wall:.1f}s")
        if self.violations:
            return EXIT_VIOLATION
        if missing:
            print(f"CHECKER-CRASH property={self.pid}: {len(missing)} locked obligations were not generated: {missing[:6]}")
            return EXIT_CRASH
        if self.undecided:
            for a, b in self.undecided:
                print(f"UNDECIDED obligation={a} reason={b}")
            return EXIT_UNDECIDED
        return EXIT_HELD

    def explanation(self, n_ob, n_dis):
        return (f"{n_dis}/{n_ob} PROVED-class obligations discharged from VCs generated out of {REPO}'s current source "
                f"(z3/cvc5); BOUNDED stand-in: {self.evaluations} contract evaluations on the real functions "
                f"({len(self.nontrivial)} distinct non-trivial), never counted as proved; ASSUMED items are listed "
                f"under assumptions/trusted_base.")


def crash(pid, exc):
    traceback.print_exception(exc)
    print(f"CHECKER-CRASH property={pid}: {exc!r}")
    return EXIT_CRASH

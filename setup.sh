#!/bin/bash
# Build /verif/.venv (python 3.12) offline: genlm + its deps come from /venv through a .pth,
# the verification tooling (z3, cvc5, deal, icontract, jsonschema) from the offline wheelhouse.
# Idempotent; every ./check invocation calls it when .venv is missing or incomplete.
set -e
cd "$(dirname "$0")"
V=.venv
if [ -x "$V/bin/python" ] && "$V/bin/python" -c "import z3, cvc5, deal, icontract, jsonschema, genlm.grammar" >/dev/null 2>&1; then
  exit 0
fi
exec 9>".venv.lock"
flock 9
if [ -x "$V/bin/python" ] && "$V/bin/python" -c "import z3, cvc5, deal, icontract, jsonschema, genlm.grammar" >/dev/null 2>&1; then
  exit 0
fi
rm -rf "$V"
/venv/bin/python -m venv "$V"
SP=$("$V/bin/python" -c "import site; print(site.getsitepackages()[0])")
echo "import site; site.addsitedir('/venv/lib/python3.12/site-packages')" > "$SP/_repo.pth"
PIP_NO_INDEX=1 "$V/bin/pip" install -q --no-index --find-links /opt/veriftools/wheels \
    z3-solver cvc5 deal icontract jsonschema >/dev/null
"$V/bin/python" -c "import z3, cvc5, deal, icontract, jsonschema, genlm.grammar; print('verif venv ready: z3', z3.get_version_string())"

"""C10 - transducer composition counts every matching path pair exactly once.

PROVED layer  : props/C10_proved.py (epsilon filter table, _augment_epsilon_transitions, FST.wf of the constructors) - see run().
BOUNDED layer : the relational contract
                    (f @ g)(x, z) == sum_y [[f]](x, y) * [[g]](y, z)
                evaluated on the REAL FST.__matmul__ (both association orders) against the independent
                vlib.spec.fstcompose_spec (restriction + exact epsilon removal + epsilon-free product; no filter), and the
                single-machine contracts  f(x, y), f(x, None)(y), f(None, y)(x), f.T(y, x), f.project(k)(s),
                FST.from_string, FST.from_pairs, FST.diag, f @ acceptor  against fsaspec.fst_weight / wfsa_weight.

Every constructed object is judged twice: (a) its neutral snapshot (bridge.from_wfsa) through the spec evaluators - this
isolates the construction from the evaluator FST.__call__ / WFSA.total_weight; (b) through the real call the user makes
(`observe_at` of the property).
"""
import random
from fractions import Fraction

from props import common
from props.common import call, num_close, sig
from vlib import bridge, dom_fst, domains, engine
from vlib.spec import fsaspec, fstcompose_spec as fcs
from vlib.spec.fsaspec import A, EPS

ID = "C10"
LEVEL = "other"

SEMIRINGS_QUICK = ["Q", "Float", "Boolean", "MaxTimes"]
SEMIRINGS_THOROUGH = ["Q", "FloatFrac", "Float", "Real", "Boolean", "MaxTimes"]

OB_COMPOSE = "C10/fst.FST.__matmul__/relational-composition"
OB_CALL = "C10/fst.FST.__call__/equals-path-sum"
OB_XSEC = "C10/fst.FST.__call__/cross-section"
OB_T = "C10/fst.FST.T/transposes-relation"
OB_PROJ = "C10/fst.FST.project/marginalises-other-tape"
OB_FROMSTR = "C10/fst.FST.from_string/relation"
OB_FROMPAIRS = "C10/fst.FST.from_pairs/relation"
OB_DIAG = "C10/fst.FST.diag/relation"


# ------------------------------------------------------------------ cases
def make_cases(tier, seed, n_pairs=None, n_single=None, n_ctor=None):
    quick = tier == "quick"
    rng = random.Random(seed * 104729 + 10)
    srs = SEMIRINGS_QUICK if quick else SEMIRINGS_THOROUGH
    n_pairs = (220 if quick else 2200) if n_pairs is None else n_pairs
    n_single = (60 if quick else 600) if n_single is None else n_single
    n_ctor = (24 if quick else 200) if n_ctor is None else n_ctor
    L = 2 if quick else 3
    cases = []
    for name, f, g in dom_fst.pair_domain(tier, seed, n_pairs):
        same = name == "same_alphabet"
        cases.append(dict(kind="pair", name=name, f=f, g=g, srs=srs, A="ab", C="ab" if same else "uv", lx=L, lz=L))
    for name, f in dom_fst.single_domain(tier, seed, n_single):
        cases.append(dict(kind="single", name=name, f=f, srs=srs, A="ab", B="xy", L=L))
    # constructors
    strs = ["", "a", "ab", "aba", ("a", "b"), ("ab", "c"), ()]
    for i, xs in enumerate(strs):
        cases.append(dict(kind="from_string", name=f"str{i}", xs=xs, w=[None, Fraction(1, 3), Fraction(0)][i % 3], srs=srs))
    pair_sets = [[("ab", "c")], [("a", "x")], [("a", "x"), ("a", "x")], [("", "")], [("ab", "xy"), ("a", "xy"), ("", "x")], [],
                 [(("a", "b"), ("x",))], [("a", ""), ("", "x")]]
    for i in range(n_ctor // 4):
        k = rng.randint(1, 3)
        pair_sets.append([("".join(rng.choice("ab") for _ in range(rng.randint(0, 3))),
                           "".join(rng.choice("xy") for _ in range(rng.randint(0, 3)))) for _ in range(k)])
    for i, ps in enumerate(pair_sets):
        cases.append(dict(kind="from_pairs", name=f"pairs{i}", pairs=ps, srs=srs))
    accs = list(domains.wfsa_corpus().items())
    for i in range(n_ctor):
        accs.append((f"randacc{seed}_{i}", dom_fst.rand_wfsa(rng, rng.randint(1, 3), "xy", 5)))
    fc = dom_fst.fst_corpus()
    fl = list(fc.values())
    for i, (name, m) in enumerate(accs):
        # corpus acceptors speak a/b: pair them with a transducer writing a/b
        own = set(a for _, a, _, _ in m.arcs if a != EPS)
        if own <= set("xy"):
            f = fl[i % len(fl)] if i % 3 else dom_fst.rand_fst(rng, rng.randint(1, 3), "ab", "xy", 5, min_arcs=2)
            alpha_in, alpha = "ab", "xy"
        else:
            f = dom_fst.fst_corpus("xy", "ab")[list(fc)[i % len(fc)]]
            alpha_in, alpha = "xy", "ab"
        cases.append(dict(kind="diag", name=name, m=m, f=f, srs=srs, A=alpha_in, B=alpha, L=L))
    return cases


# ------------------------------------------------------------------ helpers
class Rec:
    def __init__(self, case):
        self.case = case
        self.out = dict(n=0, keys=[], violations=[])
        self._seen = set()

    def viol(self, ob, func, what, sr, instance, **fields):
        kind = what.split(":")[0]
        if kind in ("raised", "result-not-in-semiring", "ill-formed-label"):
            sgn = sig(func, what, sr)          # systematic failures: one signature per function / failure / semiring
        else:
            sgn = sig(func, kind, instance, sr)
        if (ob, sgn) in self._seen:
            return
        self._seen.add((ob, sgn))
        rp = dict(function=func, semiring=sr, instance=instance)
        rp.update({k: (repr(v) if not isinstance(v, (str, int, list, type(None))) else v) for k, v in fields.items()})
        rp["case"] = common.enc(self.case)
        self.out["violations"].append(dict(obligation=ob, what=what, signature=sgn, replay=rp))

    def compare(self, ob, func, sr, instance, got, want, val, **fields):
        """got = ('ok', semiring value) | ('exc', msg); want = spec value.  One contract evaluation."""
        self.out["n"] += 1
        st, v = got
        if st != "ok":
            self.viol(ob, func, "raised: " + v.split(":")[0], sr, instance, message=v, expected=want, **fields)
            return False
        if not common.in_semiring(v, sr):
            self.viol(ob, func, "result-not-in-semiring: " + type(v).__name__, sr, instance, observed=v, expected=want, **fields)
            return False
        if not num_close(val(v), want):
            self.viol(ob, func, "wrong-value", sr, instance, observed=val(v), expected=want, **fields)
            return False
        return True

    def compare_spec(self, ob, func, sr, instance, got, want, **fields):
        """got: thunk computing a spec-side value from the snapshot of a real object.  The oracle side has been evaluated
        before, so a singular closure here means the RETURNED machine has a divergent path sum."""
        self.out["n"] += 1
        try:
            got = got()
        except ArithmeticError as e:
            self.viol(ob, func, "returned-machine-diverges: " + str(e), sr, instance, expected=want, **fields)
            return False
        if not num_close(got, want):
            self.viol(ob, func, "wrong-value", sr, instance, observed=got, expected=want, via="snapshot of the returned machine", **fields)
            return False
        return True


def _wf_fst(hs, strict=False):
    """Snapshot labels that the spec evaluators can read: pairs or (unless strict) the bare EPS, read as eps:eps."""
    for _, ab, _, _ in hs.arcs:
        if not (isinstance(ab, tuple) and len(ab) == 2) and (strict or ab != EPS):
            return False
    return True


def _s(x):
    return list(x)


def _snap(m, val):
    return bridge.from_wfsa(m, val)


class _Acceptor:
    """Spec evaluation of the snapshot of a returned acceptor (epsilon removal done on first use)."""

    def __init__(self, ops, snap):
        self.ops, self.snap, self.rep = ops, snap, None

    def weight(self, s):
        if self.rep is None:
            self.rep = fcs.eps_free(self.ops, fcs.trim(self.ops, self.snap))
        return fcs.accept_weight(self.ops, self.rep, s)


def _accept_rep(ops, snap):
    return _Acceptor(ops, snap)


class OutsideDomain(Exception):
    pass


def _oracle(f):
    """Evaluate the ORACLE side; a singular system there means a divergent instance (outside the property's domain)."""
    try:
        return f()
    except ArithmeticError as e:
        raise OutsideDomain(str(e))


# ------------------------------------------------------------------ composition of two transducers
def check_pair(case, rec):
    f, g = case["f"], case["g"]
    xs = dom_fst.strings(case["A"], case["lx"])
    zs = dom_fst.strings(case["C"], case["lz"])
    oracle = {}
    for sr in case["srs"]:
        R, ops, conv, val = bridge.SEMIRINGS[sr]
        if ops.name not in oracle:
            comp = fcs.Composer(ops, bridge.spec_automaton(f, sr), bridge.spec_automaton(g, sr))
            oracle[ops.name] = _oracle(lambda: {(x, z): comp.weight(x, z) for x in xs for z in zs})
        want = oracle[ops.name]
        F = bridge.to_fst(f, sr)
        Gm = bridge.to_fst(g, sr)
        order = "left-assoc" if len(F.states) < len(Gm.states) else "right-assoc"
        inst = f"{case['name']}[{order}]"
        st, H = call(lambda: F @ Gm)
        if st != "ok":
            rec.out["n"] += 1
            rec.viol(OB_COMPOSE, "FST.__matmul__", "raised: " + H.split(":")[0], sr, inst, message=H,
                     f=bridge.fmt_automaton(f), g=bridge.fmt_automaton(g))
            continue
        desc = dict(f=bridge.fmt_automaton(f), g=bridge.fmt_automaton(g), order=order)
        hs = _snap(H, val)
        if not _wf_fst(hs):
            rec.out["n"] += 1
            rec.viol(OB_COMPOSE, "FST.__matmul__", "ill-formed-label", sr, inst, labels=sorted({repr(a) for _, a, _, _ in hs.arcs}), **desc)
        else:
            rel = fcs.Relation(ops, hs)
            for x in xs:
                for z in zs:
                    rec.compare_spec(OB_COMPOSE, "FST.__matmul__", sr, inst, lambda: rel.weight(x, z), want[x, z], x=_s(x), z=_s(z), **desc)
        # the user's observation (f @ g)(x, z)
        for x in xs:
            for z in zs:
                rec.compare(OB_CALL, "FST.__call__", sr, inst, call(H, x, z), want[x, z], val, x=_s(x), z=_s(z),
                            on="(f @ g)(x, z)", **desc)
        if any(not ops.is_zero(w) for w in want.values()):
            rec.out["keys"].append(sig("pair", case["name"], sr, order))
        if case["name"] in ("out_eps*in_eps", "epseps_loop*epseps_loop") and sr == "Q":
            rec.out["sample"] = dict(f=bridge.fmt_automaton(f), g=bridge.fmt_automaton(g), semiring=sr, order=order,
                                     pairs=len(want), composed_states=len(hs.states),
                                     example={"".join(x) + ":" + "".join(z): str(w) for (x, z), w in want.items() if w}.copy())


# ------------------------------------------------------------------ one transducer
def check_single(case, rec):
    f = case["f"]
    xs = dom_fst.strings(case["A"], case["L"])
    ys = dom_fst.strings(case["B"], case["L"])
    oracle = {}
    for sr in case["srs"]:
        R, ops, conv, val = bridge.SEMIRINGS[sr]
        fs = bridge.spec_automaton(f, sr)
        if ops.name not in oracle:
            oracle[ops.name] = _oracle(lambda: ({(x, y): fsaspec.fst_weight(ops, fs, x, y) for x in xs for y in ys},
                                                {x: fcs.project_weight(ops, fs, x, 0) for x in xs},
                                                {y: fcs.project_weight(ops, fs, y, 1) for y in ys}))
        want, want0, want1 = oracle[ops.name]
        inst = case["name"]
        desc = dict(f=bridge.fmt_automaton(f))
        F = bridge.to_fst(f, sr)
        # f(x, y)
        for x in xs:
            for y in ys:
                rec.compare(OB_CALL, "FST.__call__", sr, inst, call(F, x, y), want[x, y], val, x=_s(x), y=_s(y), on="f(x, y)", **desc)
        # cross-sections
        for x in xs:
            st, sec = call(F, x, None)
            if st != "ok":
                rec.out["n"] += 1
                rec.viol(OB_XSEC, "FST.__call__(x, None)", "raised: " + sec.split(":")[0], sr, inst, message=sec, x=_s(x), **desc)
                continue
            rep = _accept_rep(ops, _snap(sec, val))
            for y in ys:
                rec.compare_spec(OB_XSEC, "FST.__call__(x, None)", sr, inst, lambda: rep.weight(y), want[x, y], x=_s(x), y=_s(y), **desc)
                rec.compare(OB_XSEC, "FST.__call__(x, None)(y)", sr, inst, call(sec, y), want[x, y], val, x=_s(x), y=_s(y), **desc)
        for y in ys:
            st, sec = call(F, None, y)
            if st != "ok":
                rec.out["n"] += 1
                rec.viol(OB_XSEC, "FST.__call__(None, y)", "raised: " + sec.split(":")[0], sr, inst, message=sec, y=_s(y), **desc)
                continue
            rep = _accept_rep(ops, _snap(sec, val))
            for x in xs:
                rec.compare_spec(OB_XSEC, "FST.__call__(None, y)", sr, inst, lambda: rep.weight(x), want[x, y], x=_s(x), y=_s(y), **desc)
                rec.compare(OB_XSEC, "FST.__call__(None, y)(x)", sr, inst, call(sec, x), want[x, y], val, x=_s(x), y=_s(y), **desc)
        # transpose
        st, Ft = call(lambda: F.T)
        if st != "ok":
            rec.out["n"] += 1
            rec.viol(OB_T, "FST.T", "raised: " + Ft.split(":")[0], sr, inst, message=Ft, **desc)
        else:
            ts = _snap(Ft, val)
            if not _wf_fst(ts):
                rec.out["n"] += 1
                rec.viol(OB_T, "FST.T", "ill-formed-label", sr, inst, **desc)
            else:
                rel = fcs.Relation(ops, ts)
                for x in xs:
                    for y in ys:
                        rec.compare_spec(OB_T, "FST.T", sr, inst, lambda: rel.weight(y, x), want[x, y], x=_s(x), y=_s(y), **desc)
                        rec.compare(OB_CALL, "FST.__call__", sr, inst, call(Ft, y, x), want[x, y], val, x=_s(x), y=_s(y), on="f.T(y, x)", **desc)
        # projections
        for axis, strs, wantk in ((0, xs, want0), (1, ys, want1)):
            st, P = call(F.project, axis)
            if st != "ok":
                rec.out["n"] += 1
                rec.viol(OB_PROJ, f"FST.project({axis})", "raised: " + P.split(":")[0], sr, inst, message=P, **desc)
                continue
            rep = _accept_rep(ops, _snap(P, val))
            for s in strs:
                rec.compare_spec(OB_PROJ, f"FST.project({axis})", sr, inst, lambda: rep.weight(s), wantk[s], s=_s(s), **desc)
                rec.compare(OB_PROJ, f"FST.project({axis})(s)", sr, inst, call(P, s), wantk[s], val, s=_s(s), **desc)
        if any(not ops.is_zero(w) for w in want.values()):
            rec.out["keys"].append(sig("single", case["name"], sr))


# ------------------------------------------------------------------ constructors
def _rel_checks(rec, ob, func, sr, inst, M, wantf, S1, S2, ops, val, **desc):
    """M: real FST; wantf(x, y): spec value; evaluated on S1 x S2 through the snapshot and through the real call."""
    ms = _snap(M, val)
    nz = False
    if not _wf_fst(ms):
        rec.out["n"] += 1
        rec.viol(ob, func, "ill-formed-label", sr, inst, labels=sorted({repr(a) for _, a, _, _ in ms.arcs}), **desc)
        rel = None
    else:
        rel = fcs.Relation(ops, ms)
    snap_ok = rel is not None
    for x in S1:
        for y in S2:
            w = wantf(x, y)
            nz = nz or not ops.is_zero(w)
            if rel is not None:
                snap_ok = rec.compare_spec(ob, func, sr, inst, lambda: rel.weight(x, y), w, x=_s(x), y=_s(y), **desc) and snap_ok
    # the user's evaluation M(x, y): when the machine itself is a well-formed FST denoting the right relation, a failure
    # of the call belongs to FST.__call__ (WFSA.total_weight), otherwise to the constructor
    mine = snap_ok and _wf_fst(ms, strict=True)
    for x in S1:
        for y in S2:
            rec.compare(OB_CALL if mine else ob, "FST.__call__" if mine else func + "(...)(x, y)", sr, inst, call(M, x, y),
                        wantf(x, y), val, x=_s(x), y=_s(y), on=func + "(...)(x, y)", **desc)
    return nz


def _around(strs, extra):
    """Test strings: the given ones, their prefixes, one-symbol extensions, plus short strings over `extra`."""
    out = []
    for s in strs:
        s = tuple(s)
        for k in range(len(s) + 1):
            out.append(s[:k])
        for a in extra:
            out.append(s + (a,))
    out.extend(dom_fst.strings(extra, 1))
    seen = []
    for s in out:
        if s not in seen:
            seen.append(s)
    return seen


def check_from_string(case, rec):
    xs, w = case["xs"], case["w"]
    S = _around([xs], sorted(set(xs) | {"a"}))
    for sr in case["srs"]:
        R, ops, conv, val = bridge.SEMIRINGS[sr]
        wq = ops.one if w is None else bridge.spec_weight(sr, w)
        st, M = call(lambda: bridge.FST.from_string(xs, R) if w is None else bridge.FST.from_string(xs, R, conv(w)))
        if st != "ok":
            rec.out["n"] += 1
            rec.viol(OB_FROMSTR, "FST.from_string", "raised: " + M.split(":")[0], sr, case["name"], message=M, xs=repr(xs))
            continue
        _rel_checks(rec, OB_FROMSTR, "FST.from_string", sr, case["name"], M,
                    lambda x, y: wq if (x == tuple(xs) and y == tuple(xs)) else ops.zero, S, S, ops, val, xs=repr(xs), w=str(w))
        rec.out["keys"].append(sig("from_string", case["name"], sr))


def check_from_pairs(case, rec):
    pairs = case["pairs"]
    S1 = _around([p[0] for p in pairs], "a")
    S2 = _around([p[1] for p in pairs], "x")
    for sr in case["srs"]:
        R, ops, conv, val = bridge.SEMIRINGS[sr]
        st, M = call(bridge.FST.from_pairs, pairs, R)
        if st != "ok":
            rec.out["n"] += 1
            rec.viol(OB_FROMPAIRS, "FST.from_pairs", "raised: " + M.split(":")[0], sr, case["name"], message=M, pairs=repr(pairs))
            continue
        nz = _rel_checks(rec, OB_FROMPAIRS, "FST.from_pairs", sr, case["name"], M,
                         lambda x, y: fcs.from_pairs_weight(ops, pairs, x, y), S1, S2, ops, val, pairs=repr(pairs))
        if nz:
            rec.out["keys"].append(sig("from_pairs", case["name"], sr))


def check_diag(case, rec):
    m, f = case["m"], case["f"]
    S = dom_fst.strings(case["B"], case["L"])
    X = dom_fst.strings(case["A"], case["L"])
    for sr in case["srs"]:
        R, ops, conv, val = bridge.SEMIRINGS[sr]
        ms = bridge.spec_automaton(m, sr)
        fs = bridge.spec_automaton(f, sr)
        wm = _oracle(lambda: {s: fsaspec.wfsa_weight(ops, ms, s) for s in S})
        Mr = bridge.to_wfsa(m, sr, cls=bridge.field_wfsa.WFSA)
        st, D = call(bridge.FST.diag, Mr)
        if st != "ok":
            rec.out["n"] += 1
            rec.viol(OB_DIAG, "FST.diag", "raised: " + D.split(":")[0], sr, case["name"], message=D, m=bridge.fmt_automaton(m))
            continue
        nz = _rel_checks(rec, OB_DIAG, "FST.diag", sr, case["name"], D, lambda x, y: wm[x] if x == y else ops.zero, S, S, ops, val,
                         m=bridge.fmt_automaton(m))
        # composition with an acceptor operand: (f @ m)(x, y) = f(x, y) * m(y)
        F = bridge.to_fst(f, sr)
        st, H = call(lambda: F @ Mr)
        desc = dict(f=bridge.fmt_automaton(f), m=bridge.fmt_automaton(m))
        if st != "ok":
            rec.out["n"] += 1
            rec.viol(OB_COMPOSE, "FST.__matmul__[acceptor]", "raised: " + H.split(":")[0], sr, case["name"], message=H, **desc)
        else:
            wf_ = _oracle(lambda: {(x, y): ops.mul(fsaspec.fst_weight(ops, fs, x, y), wm[y]) for x in X for y in S})
            nz2 = _rel_checks(rec, OB_COMPOSE, "FST.__matmul__[acceptor]", sr, case["name"], H, lambda x, y: wf_[x, y], X, S, ops, val, **desc)
            nz = nz or nz2
        if nz:
            rec.out["keys"].append(sig("diag", case["name"], sr))


KINDS = dict(pair=check_pair, single=check_single, from_string=check_from_string, from_pairs=check_from_pairs, diag=check_diag)


def check_case(case):
    rec = Rec(case)
    try:
        KINDS[case["kind"]](case, rec)
    except OutsideDomain:
        # the oracle's exact closure met a singular system: a divergent instance, outside the property's domain
        return dict(n=0, keys=[], violations=[])
    return rec.out


def bounded(run):
    tier = run.tier
    cases = make_cases(tier, run.seed)
    srs = SEMIRINGS_QUICK if tier == "quick" else SEMIRINGS_THOROUGH
    L = 2 if tier == "quick" else 3
    kinds = {}
    for c in cases:
        kinds[c["kind"]] = kinds.get(c["kind"], 0) + 1
    run.extra["case_kinds"] = kinds
    run.rule(f"pairs (f: ab->xy, g: xy->uv): hand-made corpus (output-eps in f with input-eps in g, eps:eps loops on both sides, "
             f"cycles on the shared tape, several initial/final states, dead states, parallel arcs, empty machines, equal and partially "
             f"overlapping alphabets) + seeded random T({3 if tier == 'quick' else 4} states, 2+2 symbols, "
             f"{5 if tier == 'quick' else 7} arcs) with |Qf| <, =, > |Qg| so that both association orders of FST.__matmul__ run; "
             f"all (x, z) with |x|, |z| <= {L}; single machines: corpus + random, all (x, y) up to length {L}, cross-sections, T, "
             f"project(0/1); constructors from_string (str and tuple, with/without weight), from_pairs (incl. unequal lengths, "
             f"duplicates, empty), diag and composition with an acceptor operand; semirings {srs} "
             f"(Q = exact user semiring; generic weights 1/(2p), every state's mass < 1); every returned machine is evaluated "
             f"through its neutral snapshot by the spec AND through the real call; non-trivial = some compared weight is non-zero; "
             f"distinct = (kind, instance, semiring, association order). Not covered: Log/Expectation/Entropy/MaxPlus semirings, "
             f"FST.PRUNING hooks (coarsen), strings longer than the bound")
    seeds = (0, 1) if tier == "quick" else (0, 1, 2, 3)
    run.extra["hash_seeds"] = list(seeds)
    engine.run_cases(run, "props.C10", "check_case", cases, hash_seeds=seeds, per_case_timeout=60 if tier == "quick" else 180,
                     split=True)


def run(run, only=None):
    run.assume("T-PATHSUM: [[T]](x, y) is well defined (weights scaled so that every state's outgoing mass is < 1, all sums converge)",
               "spec functions fsaspec.fst_weight / wfsa_weight (position-indexed path sums, exact epsilon closure) and "
               "fstcompose_spec.compose_weight (restriction to x and z, exact epsilon removal, epsilon-free product; no filter "
               "construction) are the oracle; validated against enumeration of path pairs by fstcompose_spec.selfcheck",
               "A-MOHRI: Mohri's epsilon-filter theorem is NOT assumed by the bounded layer (it is what is being tested)")
    if only != "bounded":
        common.run_proved(run, "C10")
    if only != "proved":
        bounded(run)


def replay(doc):
    return common.generic_replay(doc, check_case)

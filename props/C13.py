"""C13 - determinisation, determinisation-based minimisation, weight pushing and trimming preserve the language
and deliver their structural promises.

PROVED layer  : props/C13_proved.py (push conjugacy / stochasticity, determinism of determinize, _trim subset) - see run().
BOUNDED layer : for every automaton of the domain on which determinisation terminates
                    determinize / min_det : single initial state, <= 1 arc per (state, symbol), no epsilon arc,
                                            same weight on every string
                    push                  : same weight on every string; for every live state (one that can reach a
                                            final state) outgoing arc weights + final weight == 1
                    trim / trim_vals      : same weight on every string; only states on an accepting path remain
                "same weight on every string" is decided for ALL strings by exact Tzeng equivalence over the rationals
                (user semiring Q with Fraction scores) and point-wise with tolerance over Float.
"""
import random

from props import common
from props.common import num_close, sig
from vlib import bridge, dom_wfsa, engine
from vlib.dom_wfsa import gcall, fail_kind
from vlib.spec import algebra, fsaspec, ratspec
from vlib.spec.fsaspec import EPS

ID = "C13"
LEVEL = "other"

SEMIRINGS_QUICK = ["Q", "Float"]
SEMIRINGS_THOROUGH = ["Q", "Float", "FloatFrac"]

P = "C13/wfsa.base.WFSA."
DET_TIMEOUT_QUICK = 1.0
DET_TIMEOUT_THOROUGH = 3.0
CALL_TIMEOUT = 10

# operations: name -> (attribute chain, needs determinisation to terminate)
OPS = {
    "determinize": (("determinize",), True),
    "min_det": (("min_det",), True),
    "push": (("push",), False),
    "trim": (("trim",), False),
    "trim_vals": (("trim_vals",), False),
    # trimming an automaton produced by the library's own operations (API-closed inputs)
    "push.trim": (("push", "trim"), False),
    "push.trim_vals": (("push", "trim_vals"), False),
    "trim.trim_vals": (("trim", "trim_vals"), False),
    "trim_vals.trim": (("trim_vals", "trim"), False),
    "trim.determinize": (("trim", "determinize"), True),
    "reverse.trim": (("reverse", "trim"), False),      # expected language: the reversed one
}
MAX_RESULT_STATES = 60


def make_cases(tier, seed, n_acyclic=None, n_cyclic=None, n_detcyc=None, maxlen=None):
    quick = tier == "quick"
    rng = random.Random(seed)
    n_acyclic = n_acyclic if n_acyclic is not None else (140 if quick else 3000)
    n_cyclic = n_cyclic if n_cyclic is not None else (24 if quick else 400)
    n_detcyc = n_detcyc if n_detcyc is not None else (40 if quick else 600)
    maxlen = maxlen if maxlen is not None else (4 if quick else 5)
    q, sigma, m = (4, 2, 6) if quick else (5, 2, 9)
    doms = [(n, a, "corpus") for n, a in dom_wfsa.full_corpus().items()]
    for i in range(n_acyclic):
        doms.append((f"acyc{seed}_{i}", dom_wfsa.acyclic_wfsa(rng, q, sigma, m, p_eps=0.25), "acyclic"))
    for i in range(n_detcyc):
        doms.append((f"detcyc{seed}_{i}", dom_wfsa.deterministic_cyclic_wfsa(rng, 3 if quick else 4, sigma), "det-cyclic"))
    for i in range(n_cyclic):
        doms.append((f"cyc{seed}_{i}", dom_wfsa.random_wfsa(rng, 3, sigma, 5), "cyclic"))
    srs = SEMIRINGS_QUICK if quick else SEMIRINGS_THOROUGH
    cases = []
    for i, (name, a, fam) in enumerate(doms):
        for k, sr in enumerate(srs):
            cases.append(dict(name=name, a=a, sr=sr, family=fam, maxlen=maxlen, ren=["id", "str", "tuple"][(i + k) % 3],
                              det_timeout=DET_TIMEOUT_QUICK if quick else DET_TIMEOUT_THOROUGH))
    return cases


def is_zero(w):
    return w == 0


def structure_problems(snap, nonempty):
    """Violations of: single initial state, at most one arc per (state, symbol), no epsilon arc.
    (An automaton without any state is accepted as the minimal deterministic automaton of the empty language.)"""
    probs = []
    inits = [q for q, w in snap.start.items() if not is_zero(w)]
    if len(inits) > 1 or (len(inits) == 0 and nonempty):
        probs.append(("initial-states", len(inits)))
    seen = {}
    for i, l, j, w in snap.arcs:
        if is_zero(w):
            continue
        if l == EPS:
            probs.append(("epsilon-arc", (repr(i), repr(j))))
        seen.setdefault((i, l), set()).add(j)
    multi = [(repr(i), l, len(js)) for (i, l), js in seen.items() if len(js) > 1]
    if multi:
        probs.append(("arcs-per-state-symbol", multi[:3]))
    return probs


def check_case(case):
    from genlm.grammar.wfsa import base
    SR = dom_wfsa.semirings()
    sr = case["sr"]
    R, ops, conv, val = SR[sr]
    out = dict(n=0, keys=[], violations=[], skipped=[])
    a0 = case["a"]
    # domain: all path sums converge (backward weights are what push/determinize/trim_vals use)
    if not (ratspec.eps_converges(a0) and ratspec.total_converges(a0)):
        return out
    tag = dom_wfsa.features(a0)
    a = dom_wfsa.rename_states(a0, dom_wfsa.RENAMERS[case["ren"]])
    sa = dom_wfsa.spec_automaton(a, sr)
    desc = dict(automaton=bridge.fmt_automaton(a), semiring=sr, instance=case["name"], family=case["family"], features=tag)
    exact = sr == "Q"

    def viol(op, kind, what, x, got, exp):
        fn = OPS[op][0][-1]
        out["violations"].append(dict(
            obligation=P + fn + "/" + kind, what=what,
            signature=sig(op, dom_wfsa.kind(what), sr),
            replay=dict(desc, operation="m." + op, string=list(x) if x is not None else None, observed=repr(got), expected=repr(exp),
                        case=common.enc(case))))

    st, m = gcall(CALL_TIMEOUT, dom_wfsa.build_wfsa, base.WFSA, R, conv, a)
    if st != "ok":
        viol("trim", "preserves-language", fail_kind(st, m), None, m, "an automaton")
        return out
    V = dom_wfsa.alphabet(a) or ["a"]
    xs = ratspec.strings_upto(V, case["maxlen"])
    want = {x: fsaspec.wfsa_weight(ops, sa, x) for x in xs}
    nonempty = bool(dom_wfsa.useful_states(a0))

    def get(chain):
        obj = m
        for attr in chain:
            obj = getattr(obj, attr)
        return obj

    for op, (chain, needs_det) in OPS.items():
        st, r = gcall(case["det_timeout"] if needs_det else CALL_TIMEOUT, get, chain)
        range_exhausted = (not exact and st == "exc" and str(r).split(":")[0] in ("OverflowError", "ZeroDivisionError"))
        if needs_det and (st == "timeout" or range_exhausted or (st == "ok" and len(r.states) > MAX_RESULT_STATES)):
            # outside the property's domain, never reported: determinisation did not terminate in time, or (floating point
            # only) ran until the residual weights over-/underflowed, or "terminated" only by rounding with a huge result.
            # Arithmetic exceptions of determinisation are decided by the exact semiring Q, where they cannot come from rounding.
            out["skipped"].append(op)
            continue
        out["n"] += 1
        if st != "ok":
            viol(op, "preserves-language", fail_kind(st, r), None, r, "an automaton")
            continue
        snap = dom_wfsa.snapshot(r, val)
        rev = chain[0] == "reverse"
        # ---- language
        if exact:
            eq, wit = fsaspec.equivalent(algebra.Q, ratspec.reverse(ops, sa) if rev else sa, snap)
            if not eq:
                viol(op, "preserves-language", "not-equivalent-on-all-strings", wit, bridge.fmt_automaton(snap), "same weight on every string")
        else:
            for x in xs:
                st, v = gcall(CALL_TIMEOUT, r, x)
                out["n"] += 1
                if st != "ok":
                    viol(op, "preserves-language", fail_kind(st, v), x, v, want[x])
                    break
                exp = want[x[::-1]] if rev else want[x]
                if not num_close(val(v), exp):
                    viol(op, "preserves-language", "wrong-value", x, val(v), exp)
                    break
        last = chain[-1]
        # ---- structure
        if last in ("determinize", "min_det"):
            out["n"] += 1
            probs = structure_problems(snap, nonempty)
            if probs:
                viol(op, "deterministic-structure", "not-deterministic: " + probs[0][0], None, probs, "single initial state, <=1 arc per (state, symbol), no epsilon arc")
        if last == "push":
            live = dom_wfsa.backward_reachable(snap)
            for q in sorted(live, key=repr):
                out["n"] += 1
                tot = snap.stop.get(q, 0)
                for i, l, j, w in snap.arcs:
                    if i == q:
                        tot = tot + w
                ok = (tot == 1) if exact else num_close(tot, 1)
                if not ok:
                    viol(op, "live-states-sum-to-one", "not-stochastic", None, (repr(q), tot), 1)
                    break
        if last in ("trim", "trim_vals"):
            out["n"] += 1
            useless = set(snap.states) - dom_wfsa.useful_states(snap)
            if useless:
                viol(op, "only-states-on-accepting-paths", "useless-state-left", None, sorted(map(repr, useless)), "only states on an accepting path")
        if nonempty:
            out["keys"].append(sig(case["name"], sr, op))
    if case["name"] in ("shared_prefix", "two_init_shared") and exact:
        out["sample"] = dict(automaton=bridge.fmt_automaton(a), semiring=sr, operations=list(OPS), skipped=out["skipped"])
    return out


def bounded(run):
    tier = run.tier
    cases = make_cases(tier, run.seed)
    srs = SEMIRINGS_QUICK if tier == "quick" else SEMIRINGS_THOROUGH
    run.rule(f"automata: corpus (shared prefixes, unequal weights, several initial states, epsilon arcs and cycles, dead and "
             f"unreachable states, empty language) + seeded random ACYCLIC automata A{(4, 2, 6) if tier == 'quick' else (5, 2, 9)} "
             f"with epsilon arcs + random already-deterministic cyclic automata + random cyclic automata under a watchdog "
             f"({DET_TIMEOUT_QUICK if tier == 'quick' else DET_TIMEOUT_THOROUGH}s: a determinisation that does not finish is "
             f"skipped, never reported; over Float also one that ends in Overflow/ZeroDivisionError or with more than "
             f"{MAX_RESULT_STATES} states - floating-point range exhausted by a non-terminating run; arithmetic exceptions of "
             f"determinisation are decided over the exact semiring Q); generic positive rational weights (zero-sum-free, all path sums converge); weight types "
             f"{srs}: Q = exact user field semiring with Fraction scores, __pow__ and hash (every comparison exact, language "
             f"equality decided on ALL strings by Tzeng equivalence); Float point-wise on strings up to length "
             f"{4 if tier == 'quick' else 5} with tolerance 1e-7; operations {list(OPS)} (chains = trimming/determinising "
             f"automata produced by the library itself); live = can reach a final state through non-zero arcs; "
             f"accepting-path membership by own reachability on the result.  NOT covered: Real (no __pow__, not a field type "
             f"for push), minimality of min_det (not part of the statement).  non-trivial = non-empty language and the "
             f"operation terminated; distinct = (automaton, weight type, operation); signature = (operation, failure kind, "
             f"weight type) - the failing instance is in the replay")
    seeds = (0, 1) if tier == "quick" else (0, 1, 2, 3)
    run.extra["hash_seeds"] = list(seeds)
    engine.run_cases(run, "props.C13", "check_case", cases, hash_seeds=seeds, per_case_timeout=240,
                     split=True)        # every case under exactly one of the listed hash seeds (round robin)


def run(run, only=None):
    run.assume("T-PATHSUM (C11) and fsaspec.equivalent (Tzeng over Q, exact Gaussian elimination) are the oracle for "
               "'same weight on every string'",
               "A-TERMINATION: determinisation is only required to be correct when it terminates; the watchdog bound "
               "separates the two",
               "weights are zero-sum-free (positive rationals): no cancellation, so 'backward weight != 0' and 'can reach a "
               "final state' coincide")
    if only != "bounded":
        common.run_proved(run, "C13")
    if only != "proved":
        bounded(run)


def replay(doc):
    return common.generic_replay(doc, check_case)

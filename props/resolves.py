"""`resolves` / `result-in-semiring` obligation kinds (DESIGN 2.2 'Calls'): attribute and method resolution against the
classes of the current source, and sort-correctness of folded sums.

  C01/cfglm.BoolCFGLM.p_next/resolves[alg=...]    the object stored in self.model offers what p_next calls on it
  C11/wfsa.base.WFSA.total_weight/result-in-semiring
  C12/wfsa.base.WFSA.one/resolves[...]            one / star construct an automaton for plain-number and class-based semirings
"""
import ast

import z3

from vlib.pyvc import interp as I, smt, source, symstruct as S, gharness as G

Bag = G.Bag
W = G.W

MODULE_FILES = {
    "genlm.grammar.parse.earley": "genlm/grammar/parse/earley.py",
    "genlm.grammar.parse.cky": "genlm/grammar/parse/cky.py",
    "genlm.grammar.parse.earley_rescaled": "genlm/grammar/parse/earley_rescaled.py",
    "genlm.grammar.lm": "genlm/grammar/lm.py",
    "genlm.grammar.cfglm": "genlm/grammar/cfglm.py",
}


def class_methods(rel, cls):
    """name -> FunctionDef for a class of the repo, following base classes defined in the known modules."""
    node = source.find(rel, cls)
    out = {}
    for b in node.bases:
        bn = ast.unparse(b)
        for r in MODULE_FILES.values():
            try:
                out.update(class_methods(r, bn))
                break
            except KeyError:
                continue
    for ch in node.body:
        if isinstance(ch, ast.FunctionDef):
            out[ch.name] = ch
    return out


class Instance:
    """An instance of a repo class: only attribute *resolution* and call arity are modelled."""

    def __init__(self, rel, cls, log):
        self.rel, self.cls, self.log = rel, cls, log
        self.methods = class_methods(rel, cls)

    def __pyvc_getattr__(self, interp, name, node):
        if name not in self.methods:
            raise I.PyRaise("AttributeError", f"'{self.cls}' object has no attribute '{name}'", node)
        fn = self.methods[name]

        def call(it, args, kw, fn=fn, name=name):
            a = fn.args
            npos = len(a.posonlyargs) + len(a.args) - 1
            nreq = npos - len(a.defaults)
            if not (nreq <= len(args) + len([k for k in kw if k in [x.arg for x in a.args]]) and (len(args) <= npos or a.vararg)):
                raise I.PyRaise("TypeError", f"{self.cls}.{name}() called with {len(args)} positional arguments, takes {nreq}..{npos}", node)
            self.log.append((self.cls, name, len(args)))
            return Result(self.cls + "." + name)
        return I.Native(f"{self.cls}.{name}", call)


class Result:
    def __init__(self, what):
        self.what = what

    def __pyvc_getattr__(self, interp, name, node):
        return I.Native(self.what + "." + name, lambda it, a, k: Result(self.what + "." + name))

    def __pyvc_iter__(self, interp):
        return []


def c01_resolves(run):
    rel = "genlm/grammar/cfglm.py"
    init = source.find(rel, "BoolCFGLM.__init__")
    pn = source.find(rel, "BoolCFGLM.p_next")
    run.function_under_contract("genlm.grammar.cfglm.BoolCFGLM.__init__", source.sha(init))
    run.function_under_contract("genlm.grammar.cfglm.BoolCFGLM.p_next", source.sha(pn))
    for alg in ("earley", "cky"):
        name = f"C01/cfglm.BoolCFGLM.p_next/resolves[alg={alg}]"
        log = []

        def harness(path, alg=alg, log=log):
            it = I.Interp(path)
            it.natives["genlm.grammar.parse.earley.Earley"] = I.Native("Earley", lambda i2, a, k: Instance(MODULE_FILES["genlm.grammar.parse.earley"], "Earley", log))
            it.natives["genlm.grammar.parse.cky.CKYLM"] = I.Native("CKYLM", lambda i2, a, k: Instance(MODULE_FILES["genlm.grammar.parse.cky"], "CKYLM", log))
            Vset = S.SymSet("V")

            class CfgTok:
                """the grammar argument: any transformation attribute yields a grammar again"""

                def __pyvc_getattr__(self, interp, nm, node):
                    if nm == "V":
                        return Vset
                    if nm == "R":
                        return boolean
                    if nm == "map_values":
                        return I.Native("map_values", lambda i2, a, k: self)
                    return self

            boolean = Bag()
            cfgtok = CfgTok()
            g = {"EOS": S.sym("EOS"), "Boolean": boolean, "add_EOS": I.Native("add_EOS", lambda i2, a, k: cfgtok),
                 "Float": Bag(chart=I.Native("chart", lambda i2, a, k: "chart")), "set": I.Native("set", lambda i2, a, k: SetOf()),
                 "ValueError": "ValueError"}
            # every class defined in cfglm.py / imported parser class is available as an instance factory
            for ch in source.module_ast(rel).body:
                if isinstance(ch, ast.ClassDef) and ch.name != "BoolCFGLM":
                    g[ch.name] = I.Native(ch.name, lambda i2, a, k, nm=ch.name: Instance(rel, nm, log))
            it.natives["genlm.grammar.parse.cky.IncrementalCKY"] = I.Native("IncrementalCKY", lambda i2, a, k: Instance(MODULE_FILES["genlm.grammar.parse.cky"], "IncrementalCKY", log))
            genv = I.Env(None, g)
            selfobj = Bag()
            lm_init = source.find("genlm/grammar/lm.py", "LM.__init__")
            cls_lm = I.ClassObj("LM", [], "lm")
            cls_lm.attrs["__init__"] = I.FuncObj(lm_init, I.Env(None, {}), "LM.__init__", "func", cls_lm)
            cls_b = I.ClassObj("BoolCFGLM", [cls_lm], "cfglm")
            o = I.Obj(cls_b)
            f_init = I.FuncObj(init, genv, "BoolCFGLM.__init__", "func", cls_b)
            f_pn = I.FuncObj(pn, genv, "BoolCFGLM.p_next", "func", cls_b)
            it.call_func(f_init, [o, cfgtok], {"alg": alg})
            ctx = S.BaseSeq("context")
            path.assume(ctx.L >= 0)
            return it.call_func(f_pn, [o, ctx], {})

        class SetOf:
            def __pyvc_cmp__(self, interp, op, other, reflected, node):
                return True     # precondition of p_next: context over the vocabulary

            def __pyvc_binop__(self, interp, op, other, reflected, node):
                return self

        try:
            I.explore(harness, prune=False)
            run.obligation(name, "proved", backend="pyvc", detail=f"calls resolved: {sorted(set(log))}")
        except I.PyRaise as e:
            if e.kind in ("AttributeError", "TypeError"):
                run.obligation(name, "refuted", detail=f"{e.kind}: {e.msg}", model={"alg": alg},
                               replay=dict(replayed=False, alg=alg, error=f"{e.kind}: {e.msg}", hint=f"BoolCFGLM(cfg, alg='{alg}').p_next(())"),
                               signature=f"BoolCFGLM:alg={alg}")
            else:
                run.obligation(name, "out-of-subset", detail=str(e))
        except I.OutOfSubset as e:
            run.obligation(name, "out-of-subset", detail=str(e))


def c11_total_weight(run):
    name = "C11/wfsa.base.WFSA.total_weight/result-in-semiring"
    rel = "genlm/grammar/wfsa/base.py"
    fn = source.find(rel, "WFSA.total_weight")
    run.function_under_contract("genlm.grammar.wfsa.base.WFSA.total_weight", source.sha(fn))
    problems = []
    npaths = 0
    for nstates in (0, 1, 2):
        def harness(path, nstates=nstates):
            it = I.Interp(path, uf=G.UF)
            states = [S.sym(f"q{i}") for i in range(nstates)]

            class Start:
                def __pyvc_iter__(self, interp):
                    return list(states)

                def __pyvc_getitem__(self, interp, k, node):
                    return I.Z(z3.Const(f"start_{k.e}", W))

            class Back:
                def __pyvc_getitem__(self, interp, k, node):
                    return I.Z(z3.Const(f"back_{k.e}", W))

            selfobj = Bag(start=Start(), backward=Back(), R=Bag(zero=I.Z(G.w0), one=I.Z(G.w1)))
            fobj = I.FuncObj(fn, I.Env(None, {}), "WFSA.total_weight")
            try:
                return ("value", it.call_func(fobj, [selfobj], {}))
            except I.PyRaise as e:
                return ("raised", f"{e.kind}: {e.msg}")

        try:
            results = I.explore(harness)
        except I.OutOfSubset as e:
            run.obligation(name, "out-of-subset", detail=str(e))
            return
        for path, (kind, v) in results:
            npaths += 1
            if kind == "raised":
                problems.append(f"{nstates} initial states: raises {v}")
            elif not (isinstance(v, I.Z) and v.sort == W):
                problems.append(f"{nstates} initial states: returns {I.pytype_name(v)} {v!r}, not a semiring value")
    if problems:
        run.obligation(name, "refuted", detail="; ".join(problems[:3]), model={"problems": problems},
                       replay=dict(replayed=False, problems=problems, hint="WFSA(Real).total_weight() / any automaton over a class-based semiring"),
                       signature="total_weight:not-in-semiring")
    else:
        run.obligation(name, "proved", backend="pyvc", detail=f"{npaths} paths over 0/1/2 initial states: value of sort W on every path")


def c12_one_resolves(run):
    rel = "genlm/grammar/wfsa/base.py"
    one = source.find(rel, "WFSA.one")
    lift = source.find(rel, "WFSA.lift")
    star = source.find(rel, "WFSA.star")
    run.function_under_contract("genlm.grammar.wfsa.base.WFSA.one", source.sha(one))
    run.function_under_contract("genlm.grammar.wfsa.base.WFSA.lift", source.sha(lift))
    for kind in ("plain-number semiring (Float)", "class-based semiring"):
        name = f"C12/wfsa.base.WFSA.one/resolves[{kind.split()[0]}]"
        made = []

        class SemiringCls:
            """what WFSA.__init__ needs of R: chart(), zero, one"""

            def __init__(self, nm):
                self.nm = nm

            def __pyvc_getattr__(self, interp, name, node):
                if name in ("chart", "zero", "one"):
                    return I.Native(name, lambda it, a, k: "chart") if name == "chart" else Elem(self)
                raise I.PyRaise("AttributeError", f"type object '{self.nm}' has no attribute '{name}'", node)

        class Elem:
            def __init__(self, cls):
                self.cls = cls

            def __pyvc_getattr__(self, interp, name, node):
                if name == "__class__":
                    return self.cls
                raise I.PyRaise("AttributeError", name, node)

        class PlainNumberClass:
            """int / float: no chart, no zero, no one"""

            def __pyvc_getattr__(self, interp, name, node):
                raise I.PyRaise("AttributeError", f"type object 'int' has no attribute '{name}'", node)

        if kind.startswith("plain"):
            Rsem = Bag(zero=0, one=1, chart=I.Native("chart", lambda it, a, k: "chart"))
        else:
            Rsem = SemiringCls("Real")

        def harness(path, Rsem=Rsem, made=made):
            it = I.Interp(path)

            def construct(i2, args, kw):
                R = kw.get("R", args[0] if args else None)
                # contract of WFSA.__init__(R): reads R.chart, R.zero lazily through R.chart(); requires the semiring interface
                i2.getattr(R, "chart")
                made.append(R)
                return Bag(add_I=I.Native("add_I", lambda *a: None), add_arc=I.Native("add_arc", lambda *a: None),
                           add_F=I.Native("add_F", lambda *a: None), R=R)

            clstok = Bag()
            clstok.f["lift"] = I.BoundMethod(I.FuncObj(lift, I.Env(None, {}), "WFSA.lift", "func"), I.Native("WFSA", construct))
            selfobj = Bag(R=Rsem)
            selfobj.f["__class__"] = clstok
            fobj = I.FuncObj(one, I.Env(None, {"EPSILON": ""}), "WFSA.one")
            return it.call_func(fobj, [selfobj], {})

        # plain ints: `w.__class__` must yield the number's python type
        try:
            results = I.explore(harness, prune=False)
            ok = all(m is Rsem for m in made) and made
            if ok:
                run.obligation(name, "proved", backend="pyvc", detail="one constructs an automaton over self.R")
            else:
                run.obligation(name, "refuted", detail="the automaton is built over a different semiring object than self.R",
                               replay=dict(replayed=False), signature="WFSA.one:" + kind)
        except I.PyRaise as e:
            run.obligation(name, "refuted", detail=f"{e.kind}: {e.msg}", model={"semiring": kind},
                           replay=dict(replayed=False, hint="genlm.grammar.wfsa.base.WFSA(Float).one", error=f"{e.kind}: {e.msg}"),
                           signature="WFSA.one:" + kind)
        except I.OutOfSubset as e:
            run.obligation(name, "out-of-subset", detail=str(e))


def c01_boolean_conversion(run):
    """C01/cfglm.BoolCFGLM.__init__/boolean-model: whatever the input's semiring and whether or not it already carries EOS, the
    grammar handed to the parser is Boolean-weighted (positivity is decided before any float arithmetic can lose a weight)."""
    name = "C01/cfglm.BoolCFGLM.__init__/boolean-model"
    rel = "genlm/grammar/cfglm.py"
    init = source.find(rel, "BoolCFGLM.__init__")
    problems = []
    n = 0
    for alg in ("earley", "cky"):
        for has_eos in (False, True):
            for is_bool in (False, True):
                seen = []
                boolean = Bag()
                other = Bag()
                EOS = S.sym("EOS")

                class CfgTok:
                    def __init__(self, R, eos, tag):
                        self.R, self.eos, self.tag = R, eos, tag

                    def __pyvc_getattr__(self, interp, nm, node):
                        if nm == "V":
                            return VTok(self.eos)
                        if nm == "R":
                            return self.R
                        if nm == "map_values":
                            def mv(i2, a, k):
                                R2 = a[1] if len(a) > 1 else k.get("R")
                                return CfgTok(R2, self.eos, self.tag + "+map_values")
                            return I.Native("map_values", mv)
                        return CfgTok(self.R, self.eos, self.tag + "." + nm)      # cnf / prefix_grammar keep the semiring

                class VTok:
                    def __init__(self, eos):
                        self.eos = eos

                    def __pyvc_contains__(self, interp, x):
                        return self.eos

                def parser(cls):
                    def f(i2, a, k):
                        seen.append((cls, a[0].R if isinstance(a[0], CfgTok) else None))
                        return Instance(MODULE_FILES.get("genlm.grammar.parse." + ("earley" if cls == "Earley" else "cky"), rel), cls, [])
                    return I.Native(cls, f)

                it = I.Interp(I.Path([]))
                it.natives["genlm.grammar.parse.earley.Earley"] = parser("Earley")
                it.natives["genlm.grammar.parse.cky.CKYLM"] = parser("CKYLM")
                it.natives["genlm.grammar.parse.cky.IncrementalCKY"] = parser("IncrementalCKY")
                g = {"EOS": EOS, "Boolean": boolean, "add_EOS": I.Native("add_EOS", lambda i2, a, k: CfgTok(a[0].R, True, a[0].tag + "+add_EOS")),
                     "ValueError": "ValueError"}
                for ch in source.module_ast(rel).body:
                    if isinstance(ch, ast.ClassDef) and ch.name != "BoolCFGLM":
                        g[ch.name] = I.Native(ch.name, lambda i2, a, k, nm=ch.name: Instance(rel, nm, []))
                lm_init = source.find("genlm/grammar/lm.py", "LM.__init__")
                cls_lm = I.ClassObj("LM", [], "lm")
                cls_lm.attrs["__init__"] = I.FuncObj(lm_init, I.Env(None, {}), "LM.__init__", "func", cls_lm)
                cls_b = I.ClassObj("BoolCFGLM", [cls_lm], "cfglm")
                o = I.Obj(cls_b)
                try:
                    it.call_func(I.FuncObj(init, I.Env(None, g), "BoolCFGLM.__init__", "func", cls_b), [o, CfgTok(boolean if is_bool else other, has_eos, "cfg")], {"alg": alg})
                except (I.PyRaise, I.OutOfSubset) as e:
                    run.obligation(name, "out-of-subset", detail=str(e))
                    return
                n += 1
                if not seen or any(R is not boolean for _, R in seen):
                    problems.append(f"alg={alg}, EOS already in V: {has_eos}, input Boolean: {is_bool}: parser built over a non-Boolean grammar")
    if problems:
        run.obligation(name, "refuted", backend="pyvc", detail=problems[0], model={"problems": problems},
                       replay=dict(replayed=False, problems=problems, hint="BoolCFGLM(add_EOS(g)) with Float weights such as 1e-200"), signature="BoolCFGLM:boolean-model")
    else:
        run.obligation(name, "proved", backend="pyvc", detail=f"{n} configurations (alg x EOS-present x Boolean-input): the parser always receives a Boolean-weighted grammar")


def c01_mask_support(run):
    """C01/cfglm.BoolCFGLM.p_next/mask-is-support[earley|cky]: the parsers' contract for next_token_weights is `a chart over tokens
    that may carry explicit zero (False) entries` (Earley's columns register every token that was ever asked for; the CKY outside
    pass scores the whole vocabulary).  Postcondition of p_next, for both back-ends: the returned mask has exactly the tokens whose
    entry is non-zero.  The real cfglm module is loaded; `self.model` is the parser itself (earley) or the real _CKYModel adapter
    around it (cky); the chart is a two-token chart with symbolic Boolean entries."""
    rel = "genlm/grammar/cfglm.py"
    fn = source.find(rel, "BoolCFGLM.p_next")
    run.function_under_contract("genlm.grammar.cfglm.BoolCFGLM.p_next", source.sha(fn))
    try:
        run.function_under_contract("genlm.grammar.cfglm._CKYModel.next_token_weights", source.sha(source.find(rel, "_CKYModel.next_token_weights")))
    except KeyError:
        pass        # no adapter class in this tree: the cky harness below reports what it finds
    for alg in ("earley", "cky"):
        name = f"C01/cfglm.BoolCFGLM.p_next/mask-is-support[{alg}]"

        class ChartTok:
            def __init__(self, entries, trimmed=False):
                self.entries = entries

            def __pyvc_getattr__(self, interp, nm, node):
                if nm == "trim":
                    # contract of Chart.trim: a new chart without the zero entries
                    return I.Native("trim", lambda i2, a, k: ChartTok([(t, b) for t, b in self.entries if i2.path.decide(b)]))
                if nm in ("keys",):
                    return I.Native("keys", lambda i2, a, k: [t for t, _ in self.entries])
                if nm == "items":
                    return I.Native("items", lambda i2, a, k: [(t, I.Z(b)) for t, b in self.entries])
                raise I.OutOfSubset("chart." + nm)

            def __pyvc_iter__(self, interp):
                return [t for t, _ in self.entries]

            def __pyvc_getitem__(self, interp, k, node):
                for t, b in self.entries:
                    if t == k:
                        return I.Z(b)
                return False

        def harness(path, alg=alg):
            it = I.Interp(path)
            b1, b2 = z3.Bool("entry_t1"), z3.Bool("entry_t2")
            chart = ChartTok([("t1", b1), ("t2", b2)])
            parser = Bag(next_token_weights=I.Native("ntw", lambda i2, a, k: chart), chart=I.Native("chart", lambda i2, a, k: "CHART"),
                         clear_cache=I.Native("cc", lambda i2, a, k: None))
            it.natives["genlm.grammar.semiring.Float"] = Bag(chart=I.Native("Float.chart", lambda i2, a, k: ("FloatChart", dict(a[0]) if a else {})))
            it.natives["genlm.grammar.lm.LM"] = I.ClassObj("LM", [], "lm")
            env = it.load_module(source.module_source(rel), "cfglm")
            if alg == "earley":
                model = parser
            else:
                cls = env.get("_CKYModel")
                model = I.Obj(cls)
                model.fields["parser"] = parser
            selfobj = Bag(V={"t1", "t2"}, model=model)
            f = env.get("BoolCFGLM").lookup("p_next")[0]
            ret = it.call_func(f, [selfobj, ("t1",)], {})
            return ret, b1, b2

        try:
            results = I.explore(harness)
        except (I.OutOfSubset, I.PyRaise, KeyError) as e:
            run.obligation(name, "out-of-subset", detail=str(e))
            continue
        bad = None
        for path, (ret, b1, b2) in results:
            if not (isinstance(ret, tuple) and ret[0] == "FloatChart"):
                bad = f"returns {ret!r}, not a Float chart"
                break
            keys = set(ret[1])
            for t, b in (("t1", b1), ("t2", b2)):
                on = smt.prove(list(path.pc), b)["verdict"] == "proved"
                off = smt.prove(list(path.pc), z3.Not(b))["verdict"] == "proved"
                if not (on or off):
                    bad = f"the path does not decide whether {t} has a non-zero entry, yet returns {sorted(keys)}"
                elif on != (t in keys):
                    bad = f"token {t}: entry is {'non-zero' if on else 'zero (False)'} but the mask {'contains' if t in keys else 'omits'} it"
            if any(v != 1 for v in ret[1].values()):
                bad = bad or f"mask values {ret[1]!r} are not all 1"
            if bad:
                break
        if bad is None and len(results) >= 4:
            run.obligation(name, "proved", backend="pyvc+z3", detail=f"{len(results)} paths over (entry t1 zero?, entry t2 zero?): mask = tokens with non-zero entry, value 1")
        elif bad is None:
            run.obligation(name, "out-of-subset", detail=f"vacuous: {len(results)} paths")
        else:
            replay = dict(replayed=False, why=bad)
            try:
                from genlm.grammar.cfglm import BoolCFGLM
                from genlm.grammar.cfg import CFG
                from genlm.grammar.semiring import Boolean
                g = CFG.from_string("1: S -> a S b\n1: S -> c", Boolean)
                lm = BoolCFGLM(g, alg=alg)
                first = sorted(lm.p_next(("a",)).keys())
                lm.p_next(("a", "b"))
                again = sorted(lm.p_next(("a",)).keys())
                replay.update(input="S -> a S b | c ; p_next(('a',)), p_next(('a','b')), p_next(('a',))", first=repr(first), again=repr(again), expected="['a', 'c']")
                replay["replayed"] = first != ["a", "c"] or again != ["a", "c"]
            except Exception as e:  # noqa: BLE001
                replay.update(native_error=repr(e))
            run.obligation(name, "refuted", backend="pyvc+z3", detail=bad, replay=replay, signature=f"p_next:mask-is-support:{alg}")


def budget_obligation(run, pid):
    """<pid>/cfg.CFG.agenda/default-budget (auxiliary): the fixed-point solvers give up silently after a default number of steps
    per strongly connected block (`agenda(maxiter=...)`: every popped update counts, changed or not; `naive_bottom_up(timeout=...)`).
    Assumption A4 of this property - 'the default budget suffices for the grammars in its domain' - was checked against the pinned
    defaults (>= 100 000): a lower default withdraws that assumption (undecided unless the bounded layer finds a grammar that
    shows it), a higher one is fine."""
    import ast
    name = f"{pid}/cfg.CFG.agenda/default-budget"
    rel = "genlm/grammar/cfg.py"
    vals = {}
    for qual, arg in (("CFG.agenda", "maxiter"), ("CFG.naive_bottom_up", "timeout")):
        try:
            fn = source.find(rel, qual)
        except KeyError:
            continue
        a = fn.args
        pos = a.posonlyargs + a.args
        defaults = dict(zip([x.arg for x in pos[len(pos) - len(a.defaults):]], a.defaults))
        defaults.update({x.arg: d for x, d in zip(a.kwonlyargs, a.kw_defaults) if d is not None})
        d = defaults.get(arg)
        try:
            vals[qual + "." + arg] = ast.literal_eval(d) if d is not None else None
        except Exception:  # noqa: BLE001
            vals[qual + "." + arg] = ast.unparse(d)
    low = {k: v for k, v in vals.items() if not (isinstance(v, (int, float)) and v >= 100_000) and v is not None and ast is not None
           and not (isinstance(v, str) and "inf" in v)}
    if not vals:
        run.obligation(name, "out-of-subset", role="auxiliary", detail="solvers not found")
    elif low:
        run.obligation(name, "refuted", role="auxiliary", backend="ast", detail=f"default step budget lowered: {low} (assumption A4 was checked for >= 100000)",
                       replay=dict(replayed=False, defaults=vals), signature="agenda:default-budget")
    else:
        run.obligation(name, "proved", role="auxiliary", backend="ast", detail=f"default step budgets {vals} >= 100000")

"""PROVED-class obligations of C18 (regex automata are locally normalised), from the current source of
lark_interface.interegular_to_wfsa.

  C18/lark_interface.interegular_to_wfsa/count-add-aligned   for a generic state i, transition (a, j) and expanded symbol A:
         the fan-out counter K is incremented for A  iff  an arc is added for A   (relational VC over the two loops)
  C18/lark_interface.interegular_to_wfsa/mass-one            hence  stop(i) + sum of arc weights = K * (1/K) = 1  when K != 0
  C18/lark_interface.interegular_to_wfsa/single-char-arcs    every added arc label has length one
"""
import ast

import z3

from vlib.pyvc import interp as I, smt, source, symstruct as S, gharness as G

REL = "genlm/grammar/lark_interface.py"
Bag = G.Bag


class StrTok:
    """A generic expanded symbol A: a string of symbolic length."""

    def __init__(self, name):
        self.name = name
        self.L = z3.Int("len_" + name)

    def __pyvc_len__(self, interp):
        return I.Z(self.L)

    def __pyvc_isinstance__(self, k):
        return k is str

    def __repr__(self):
        return f"<str {self.name}>"


def frame(run):
    """C18/lark_interface.interegular_to_wfsa/modifies: the function writes only to the automaton it creates - in particular not to
    the character set passed by the caller (every later automaton built with the same set must see the same set)."""
    from vlib.pyvc import frames
    name = "C18/lark_interface.interegular_to_wfsa/modifies"
    fn = source.find(REL, "interegular_to_wfsa")
    chk = frames.FrameChecker(fn, frames.Spec(), {})
    findings, unclassified = chk.check()
    if findings:
        run.obligation(name, "refuted", backend="ownership", detail=str(findings[0]), model={"findings": [repr(f) for f in findings]},
                       replay=dict(replayed=False, findings=[repr(f) for f in findings], hint="call interegular_to_wfsa twice with the same set object"),
                       signature="interegular_to_wfsa:modifies")
    elif unclassified:
        run.obligation(name, "unknown", backend="ownership", detail="unclassified: " + "; ".join(repr(u) for u in unclassified[:3]))
    else:
        run.obligation(name, "proved", backend="ownership", detail="every store targets the automaton created in the call; the charset argument is only read")


def proved(run):
    frame(run)
    run.trust("pyvc symbolic interpreter over the real AST", f"z3 {z3.get_version_string()}")
    run.assume("A7: interegular parse_pattern(p).to_fsm() is a complete DFA for the language of p over its alphabet partition",
               "floats as mathematical reals (1/K exact)")
    fn = source.find(REL, "interegular_to_wfsa")
    run.function_under_contract("genlm.grammar.lark_interface.interegular_to_wfsa", source.sha(fn))
    n_align = "C18/lark_interface.interegular_to_wfsa/count-add-aligned"
    n_mass = "C18/lark_interface.interegular_to_wfsa/mass-one"
    n_single = "C18/lark_interface.interegular_to_wfsa/single-char-arcs"
    anything_else = object()

    def harness(path):
        it = I.Interp(path)
        state_i, state_j = "q_i", "q_j"
        A = StrTok("A")
        path.assume(A.L >= 0)
        dead = S.fresh("j_is_dead", z3.BoolSort())
        final = S.fresh("i_is_final", z3.BoolSort())
        arcs, Fs, Is = [], [], []

        class BoolSet:
            """membership decided by one symbolic Boolean"""

            def __init__(self, member, b):
                self.member, self.b = member, b

            def __pyvc_contains__(self, interp, x):
                return I.Z(self.b) if x == self.member else False

            def __pyvc_iter__(self, interp):
                return []

        class Machine:
            def __pyvc_getattr__(self, interp, nm, node):
                if nm == "add_arc":
                    return I.Native(nm, lambda i2, a, k: arcs.append(tuple(a)))
                if nm == "add_F":
                    return I.Native(nm, lambda i2, a, k: Fs.append(tuple(a)))
                if nm == "add_I":
                    return I.Native(nm, lambda i2, a, k: Is.append(tuple(a)))
                raise I.OutOfSubset("wfsa." + nm)

        class ByTransition:
            def __pyvc_getitem__(self, interp, k, node):
                return [A]

        class Alphabet:
            def __pyvc_getattr__(self, interp, nm, node):
                if nm == "by_transition":
                    return ByTransition()
                raise I.OutOfSubset("alphabet." + nm)

            def __pyvc_iter__(self, interp):
                return []

        class Map:
            def __pyvc_getitem__(self, interp, k, node):
                return Bag(items=I.Native("items", lambda i2, a, kw: [("a", state_j)]))

        class Fsm:
            def __pyvc_getattr__(self, interp, nm, node):
                if nm == "initial":
                    return state_i
                if nm == "states":
                    return [state_i]
                if nm == "finals":
                    return BoolSet(state_i, final)
                if nm == "alphabet":
                    return Alphabet()
                if nm == "map":
                    return Map()
                if nm == "islive":
                    return I.Native("islive", lambda i2, a, kw: True)
                raise I.OutOfSubset("fsm." + nm)

        fsm = Fsm()
        interegular = Bag(parse_pattern=I.Native("parse_pattern", lambda i2, a, kw: Bag(to_fsm=I.Native("to_fsm", lambda i3, a3, k3: fsm))))
        g = {"interegular": interegular, "anything_else": anything_else, "string": Bag(printable="ab"), "WFSA": I.Native("WFSA", lambda i2, a, kw: Machine()),
             "Float": "Float", "warnings": Bag(warn=I.Native("warn", lambda i2, a, kw: None))}
        # `rejection_states = [e for e in fsm.states if not fsm.islive(e)]` is replaced by its contract: the set of dead states
        # `rejection_states` (however it is computed: fsm.islive or a liveness fixed point over the character set) is replaced
        # by its contract: the set of dead states, here one symbolic Boolean for the generic target j
        it.assign_hooks["rejection_states"] = lambda i2, v: BoolSet(state_j, dead)
        fobj = I.FuncObj(fn, I.Env(None, g), "interegular_to_wfsa")
        try:
            it.call_func(fobj, ["pattern"], {"charset": {"x", "y"}})
        except I.PyRaise as e:
            return dict(raised=f"{e.kind}: {e.msg}")
        return dict(arcs=list(arcs), Fs=list(Fs), A=A, dead=dead, final=final)

    try:
        results = I.explore(harness)
    except (I.OutOfSubset, I.PyRaise) as e:
        for n in (n_align, n_mass, n_single):
            run.obligation(n, "out-of-subset", detail=str(e))
        return
    aligned, mass, single = True, True, True
    why = ""
    seen_arc = False
    for path, r in results:
        if "raised" in r:
            aligned, why = False, "raises " + r["raised"]
            continue
        A = r["A"]
        # the fan-out must count exactly: (A counted) <=> not dead and len(A) == 1 ; the add loop must add under the same condition
        counted = z3.And(z3.Not(r["dead"]), A.L == 1)
        n_arcs = len(r["arcs"])
        seen_arc |= n_arcs > 0
        is_counted = smt.prove(list(path.pc), counted)["verdict"] == "proved"
        not_counted = smt.prove(list(path.pc), z3.Not(counted))["verdict"] == "proved"
        if not (is_counted or not_counted):
            aligned, why = False, f"path {path.taken} does not decide whether the symbol is counted"
            continue
        fin = smt.prove(list(path.pc), r["final"])["verdict"] == "proved"
        K = (1 if is_counted else 0) + (1 if fin else 0)
        if K == 0:
            if n_arcs or r["Fs"]:
                aligned, why = False, "weights emitted for a state with fan-out 0"
            continue
        if (n_arcs == 1) != is_counted or n_arcs > 1:
            aligned = False
            why = f"fan-out counts the symbol: {is_counted}; arcs added for it: {n_arcs} (len(A)==1 decided: {smt.prove(list(path.pc), A.L == 1)['verdict']})"
        for a in r["arcs"]:
            if smt.prove(list(path.pc), A.L == 1)["verdict"] != "proved":
                single = False
        tot = sum((I.to_real(a[3]) for a in r["arcs"]), z3.RealVal(0)) + sum((I.to_real(f[1]) for f in r["Fs"]), z3.RealVal(0))
        if smt.prove(list(path.pc), tot == 1)["verdict"] != "proved":
            mass = False
    if not seen_arc:
        for n in (n_align, n_mass, n_single):
            run.obligation(n, "out-of-subset", detail="vacuous: no arc was ever added")
        return
    if aligned:
        run.obligation(n_align, "proved", backend="pyvc+z3", detail=f"{len(results)} paths over (dead target?, final state?, len(A)): K counts A iff an arc is added for A")
    else:
        run.obligation(n_align, "refuted", detail=why, replay=dict(replayed=False, why=why, hint="pattern '(?i:ß)|a': multi-character case variant 'SS'"),
                       signature="interegular_to_wfsa:count-add")
    if mass and aligned:
        run.obligation(n_mass, "proved", backend="pyvc+z3", detail="on every path with K != 0: final weight + arc weights = 1")
    else:
        run.obligation(n_mass, "refuted", detail="outgoing mass of a state differs from one", replay=dict(replayed=False), signature="interegular_to_wfsa:mass")
    if single:
        run.obligation(n_single, "proved", backend="pyvc+z3", detail="every add_arc happens under len(A) == 1")
    else:
        run.obligation(n_single, "refuted", detail="an arc with a multi-character label can be added", replay=dict(replayed=False), signature="interegular_to_wfsa:single-char")

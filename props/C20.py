"""C20 - local normalisation yields the proportional proper grammar; EOS wrapping.

PROVED layer  : props/C20_proved.py (pushing identity, sum-to-one, add_EOS construction) - see run().
BOUNDED layer : contracts on the real functions, the *returned grammars* being evaluated by the independent spec
                (cfgspec.cfg_weight / treesums on a neutral snapshot) and, as the listed observation points, by the
                library's own evaluator:
   G' = locally_normalize(G),  Z = total weight of G (spec), 0 < Z < inf:
       per head X of G':  sum of the weights of X's rules == 1
       total weight of G' == 1
       [[G']](x) * Z == [[G]](x)                       for every string x of the bound
   A = add_EOS(G[, eos]):
       [[A]](x.eos) == [[G]](x);   [[A]](s) == 0 for s = x (no eos), x with an inner eos (with and without a final
       one), x.eos.eos
"""
import random
from fractions import Fraction

from props import common
from props.common import call, num_close, sig
from vlib import bridge, domains, engine
from vlib.spec import cfgspec, lmspec
from vlib.spec.algebra import Q

ID = "C20"
LEVEL = "other"

OB_SUM = "C20/cfglm.locally_normalize/per-head-weights-sum-to-one"
OB_TOT = "C20/cfglm.locally_normalize/total-weight-one"
OB_RATIO = "C20/cfglm.locally_normalize/string-weights-divided-by-Z"
OB_RATIO_OBS = "C20/cfglm.locally_normalize/observed-weight-times-Z"
OB_EOS = "C20/cfglm.add_EOS/weight-of-x.eos"
OB_EOS0 = "C20/cfglm.add_EOS/zero-unless-exactly-one-final-eos"

NORM_SR = ("FloatFrac", "Float")                       # locally_normalize divides: field weights
EOS_SR = ("FloatFrac", "Real", "Boolean", "MaxTimes")  # add_EOS only needs R.one
AGENDA_ABS = 1e-10                                     # 100 x the stopping threshold of CFG.agenda


def extra_shapes():
    """Shapes the property names explicitly: several recursive nonterminals, nullary and unary rules, useless
    nonterminals whose total weight is zero (unproductive), rules that mention them, unreachable productive ones."""
    S = domains.shape
    c = {}
    c["multi_rec_useless"] = S("N0", "ab", "N0 -> N1 N2", "N0 -> a", "N1 -> a N1", "N1 ->", "N1 -> N2", "N2 -> b N2 b",
                               "N2 -> b", "N2 -> N1", "N3 -> N3 a", "N0 -> N3 b", "N4 -> a")
    c["useless_unary_cycle"] = S("N0", "ab", "N0 -> a N0", "N0 -> b", "N1 -> N2", "N2 -> N1", "N0 -> N1", "N2 -> N2 N1")
    c["zero_mass_sibling"] = S("N0", "ab", "N0 -> N1", "N0 -> N2", "N1 -> a N1 b", "N1 ->", "N2 -> N2", "N2 -> a N2")
    c["three_recursive"] = S("N0", "ab", "N0 -> N0 N1", "N0 -> N2", "N1 -> a N1", "N1 -> b", "N2 -> N2 b", "N2 -> a",
                             "N2 -> N1", "N1 ->", "N3 -> N3 N3")
    c["useless_start_partner"] = S("N0", "a", "N0 -> N1 N2", "N0 -> a N0", "N0 ->", "N1 -> a", "N2 -> N2")
    return c


def bound(tier, g, maxlen=None):
    """String/context length bound: 4 (quick) / 5 (thorough) for |V| <= 2, one less for larger vocabularies."""
    return maxlen or ((4 if tier == "quick" else 5) - (0 if len(g.V) <= 2 else 1))


def make_cases(tier, seed, n_random=None, maxlen=None):
    rng = random.Random(seed)
    n_random = n_random if n_random is not None else (250 if tier == "quick" else 1500)
    doms = []
    for name, g in extra_shapes().items():
        s = domains.convergent_scale(g, Q)
        assert s is not None, name
        doms.append((name, domains.reweight(g, s)))
    doms += domains.grammar_domain(tier, seed, n_random=n_random)
    # locally_normalize divides by fixed points the library iterates to an absolute 1e-12: damp every weight by 2 so that
    # each iteration converges with ratio < 1/2 and its tail is far inside the stated tolerance (weights stay generic)
    damped = [(name, g.map_weights(lambda w: w / 2)) for name, g in doms]
    cases = []
    for i, (name, g0) in enumerate(doms):
        g = damped[i][1]
        for k, sr in enumerate(NORM_SR):
            if tier == "quick" and name.startswith("rand") and k != i % 2:
                continue        # quick tier: random instances alternate between Fraction and float weights
            cases.append(dict(kind="norm", name=name, g=g, sr=sr, rename="id", order=None, maxlen=bound(tier, g, maxlen)))
            cases.append(dict(kind="norm", name=name, g=g, sr=sr, rename=["tuple", "rev"][i % 2],
                              order=common.perm(len(g.rules), rng), maxlen=bound(tier, g, maxlen)))
        g = g0
        for k, sr in enumerate(EOS_SR):
            if tier == "quick" and name.startswith("rand") and k != i % len(EOS_SR):
                continue
            cases.append(dict(kind="eos", name=name, g=g, sr=sr, rename=["id", "tuple", "rev"][(i + k) % 3],
                              order=common.perm(len(g.rules), rng), maxlen=min(bound(tier, g, maxlen), 4), eos=[None, "$"][(i + k) % 2]))
    # one large strongly connected component that converges slowly (ratio 0.9 around a ring of 150 nonterminals, rules listed against
    # the agenda's LIFO order): tens of thousands of agenda pops, still far inside the default budget - the fixed point must be reached,
    # not abandoned (strengthened after seeded change C20-6)
    from fractions import Fraction as F
    from vlib.spec.cfgspec import G
    K = 150
    ring = []
    for i in range(K - 1, -1, -1):
        ring += [(F(9, 10), f"N{i}", ("a", f"N{(i + 1) % K}")), (F(1, 5), f"N{i}", ("b",))]
    cases.append(dict(kind="norm", name="ring150", g=G("N0", frozenset("ab"), ring), sr="Float", rename="id", order=None, maxlen=2))
    # grammars whose own symbols are spelled like the library's internal start-symbol prefix '<START>' (the new start symbol must be
    # fresh whatever the user's names are) - strengthened after the independently seeded change C20-2
    for i, (name, g) in enumerate(doms[:50]):
        cases.append(dict(kind="eos", name=name, g=g, sr=EOS_SR[i % len(EOS_SR)], rename=["START0", "START1"][i % 2], order=None,
                          maxlen=min(bound(tier, g, maxlen), 4), eos=[None, "$"][i % 2]))
    return cases


def _snapshot(cfg, sr):
    val = bridge.SEMIRINGS[sr][3]
    numeric = sr in ("FloatFrac", "Float", "Real", "Q")
    return bridge.from_cfg(cfg, (lambda w: Fraction(val(w))) if numeric else val)


def check_norm(case, out, viol):
    from genlm.grammar import cfglm
    g, sr = case["g"], case["sr"]
    R, ops, conv, val = bridge.SEMIRINGS[sr]
    gs = bridge.spec_grammar(g, sr)
    try:
        Z, zexact = cfgspec.treesums(ops, gs)
        xs = cfgspec.strings_upto(g.V, case["maxlen"])
        sw = {x: cfgspec.cfg_weight(ops, gs, x) for x in xs}
    except ArithmeticError:
        return
    if sr == "FloatFrac" and not (zexact and all(e for _, e in sw.values())):
        sr = "Float"
        R, ops, conv, val = bridge.SEMIRINGS[sr]
    Zs = Z[g.S]
    if not (Zs > 0):
        return                              # property's precondition: finite positive total weight
    zmin = min(float(z) for z in Z.values() if z > 0)
    if zmin < 1e-6:
        return                              # ill-conditioned for a solver that stops at an absolute 1e-12
    delta = AGENDA_ABS / zmin               # relative error budget of every Z the library computed
    rel = 1e-7 + 40 * delta

    cfg = bridge.to_cfg(g, sr, rename=common.renamer(case["rename"]), order=case["order"])
    st, new = call(cfglm.locally_normalize, cfg)
    out["n"] += 1
    if st != "ok":
        viol(OB_RATIO, "raised: " + new.split(":")[0], "locally_normalize", None, new, "a grammar")
        return
    gn = _snapshot(new, sr)
    # (1) per-head sums
    heads = sorted({h for _, h, _ in gn.rules}, key=repr)
    for h in heads:
        out["n"] += 1
        s = sum(w for w, h2, _ in gn.rules if h2 == h)
        if not num_close(s, 1, rel=rel, abs_=0):
            viol(OB_SUM, "wrong-value: head weights do not sum to one", "sum of rule weights of head", repr(h), s, 1)
    # (2) total weight one - spec tree sum of the returned grammar
    out["n"] += 1
    try:
        tn, _ = cfgspec.treesums(Q, gn)
        if not num_close(tn[gn.S], 1, rel=rel, abs_=0):
            viol(OB_TOT, "wrong-value", "total weight of locally_normalize(G) by spec", None, tn[gn.S], 1)
    except ArithmeticError as e:
        viol(OB_TOT, "wrong-value: total weight diverges", "total weight of locally_normalize(G) by spec", None, str(e), 1)
    st, t = call(new.treesum)
    out["n"] += 1
    if st != "ok":
        viol(OB_TOT, "raised: " + t.split(":")[0], "locally_normalize(G).treesum()", None, t, 1)
    elif not num_close(val(t), 1, rel=rel + 1e-9, abs_=0):
        viol(OB_TOT, "wrong-value", "locally_normalize(G).treesum()", None, val(t), 1)
    # (3) string weights divided by Z
    for x in xs:
        exp = sw[x][0] / Zs
        out["n"] += 1
        try:
            v, _ = cfgspec.cfg_weight(Q, gn, x)
        except ArithmeticError as e:
            viol(OB_RATIO, "wrong-value: weight diverges", "[[locally_normalize(G)]](x) by spec", list(x), str(e), exp)
            continue
        if not num_close(v, exp, rel=rel, abs_=1e-14):
            viol(OB_RATIO, "wrong-value", "[[locally_normalize(G)]](x) by spec", list(x), v, exp)
        st, v = call(new, x)
        out["n"] += 1
        if st != "ok":
            viol(OB_RATIO_OBS, "raised: " + v.split(":")[0], "locally_normalize(G)(x)", list(x), v, exp)
        elif not num_close(val(v) * float(Zs), float(sw[x][0]), rel=rel, abs_=1e-12):
            viol(OB_RATIO_OBS, "wrong-value", "locally_normalize(G)(x) * Z", list(x), val(v) * float(Zs), sw[x][0])
    if any(w != 0 for w, _ in sw.values()):
        out["keys"].append(sig("norm", case["name"], sr, case["rename"]))
    if case["name"] in ("multi_rec_useless", "catalan") and case["rename"] == "id":
        out["sample"] = dict(grammar=bridge.fmt_grammar(g), semiring=sr, Z=str(Zs), rel_tolerance=rel,
                             normalised=bridge.fmt_grammar(cfgspec.G(gn.S, gn.V, [(float(w), h, b) for w, h, b in gn.rules])))


def check_eos(case, out, viol):
    from genlm.grammar import cfglm
    g, sr = case["g"], case["sr"]
    R, ops, conv, val = bridge.SEMIRINGS[sr]
    gs = bridge.spec_grammar(g, sr)
    eos = case["eos"]
    E = cfglm.EOS if eos is None else eos
    try:
        xs = cfgspec.strings_upto(g.V, case["maxlen"])
        sw = {x: cfgspec.cfg_weight(ops, gs, x) for x in xs}
    except ArithmeticError:
        return
    if sr == "FloatFrac" and not all(e for _, e in sw.values()):
        sr = "Float"
        R, ops, conv, val = bridge.SEMIRINGS[sr]
    cfg = bridge.to_cfg(g, sr, rename=common.renamer(case["rename"]), order=case["order"])
    st, A = call(cfglm.add_EOS, cfg) if eos is None else call(cfglm.add_EOS, cfg, eos=eos)
    out["n"] += 1
    if st != "ok":
        viol(OB_EOS, "raised: " + A.split(":")[0], "add_EOS", eos, A, "a grammar")
        return
    ga = _snapshot(A, sr)
    numeric = sr in ("FloatFrac", "Float", "Real")

    def judge(ob, s, exp):
        # by the spec on the returned grammar ...
        out["n"] += 1
        try:
            v, _ = cfgspec.cfg_weight(ops, ga, s)
        except ArithmeticError:
            v = exp
        if not num_close(v, exp):
            viol(ob, "wrong-value", "[[add_EOS(G)]](s) by spec", list(s), v, exp)
        # ... and at the listed observation point (the library's evaluator; tolerance of its null-weight fixed point)
        st, w = call(A, s)
        out["n"] += 1
        if st != "ok":
            viol(ob, "raised: " + w.split(":")[0], "add_EOS(G)(s)", list(s), w, exp)
        elif not common.in_semiring(w, sr):
            viol(ob, "result-not-in-semiring: " + type(w).__name__, "add_EOS(G)(s)", list(s), w, exp)
        elif not num_close(val(w), exp, rel=1e-7, abs_=1e-9 if (numeric or sr == "MaxTimes") else 1e-14):
            viol(ob, "wrong-value", "add_EOS(G)(s)", list(s), val(w), exp)

    for x in xs:
        judge(OB_EOS, x + (E,), sw[x][0])
        if len(x) <= 3:
            judge(OB_EOS0, x, ops.zero)
            judge(OB_EOS0, x + (E, E), ops.zero)
            for i in range(len(x)):
                judge(OB_EOS0, x[:i] + (E,) + x[i:], ops.zero)
                judge(OB_EOS0, x[:i] + (E,) + x[i:] + (E,), ops.zero)
    if any(not ops.is_zero(w) for w, _ in sw.values()):
        out["keys"].append(sig("eos", case["name"], sr, case["rename"], repr(eos)))


def check_case(case):
    out = dict(n=0, keys=[], violations=[])
    desc = dict(grammar=bridge.fmt_grammar(case["g"]), semiring=case["sr"], rename=case["rename"], order=case["order"],
                function="locally_normalize" if case["kind"] == "norm" else f"add_EOS(eos={case.get('eos')!r})")

    def viol(ob, what, fn, arg, got, exp):
        out["violations"].append(dict(
            obligation=ob, what=what, signature=sig(fn.split("(")[0], what.split(":")[0], case["name"], case["sr"]),
            replay=dict(desc, observed_at=fn, argument=arg, observed=lmspec.short(got), expected=lmspec.short(exp), case=common.enc(case))))

    if case["kind"] == "norm":
        check_norm(case, out, viol)
    else:
        check_eos(case, out, viol)
    return out


def bounded(run):
    tier = run.tier
    assert lmspec.selfcheck() > 0
    cases = make_cases(tier, run.seed)
    run.rule(f"grammars: {len(extra_shapes())} shapes with several recursive nonterminals, nullary/unary rules and useless "
             f"nonterminals of zero total weight + the shared corpus + 250 seeded random G(3,2,5,3) [thorough: 1500 of G(4,3,7,3)], generic "
             f"rational weights scaled for convergence (locally_normalize: additionally damped by 2); locally_normalize over Float (Fraction weights where every fixed point "
             f"is rational-linear, machine floats otherwise) on every instance with 0 < Z < inf; add_EOS over {list(EOS_SR)} "
             f"with the default and a custom ('$') eos symbol; all strings up to length "
             f"{4 if tier == 'quick' else 5} (one less when |V| > 2; zero-weight shapes: length <= 3, every eos position); returned grammars evaluated "
             f"by the spec and by the library; tolerance rel 1e-7 + 40*{AGENDA_ABS}/min positive Z; variants: rule permutation, "
             f"nonterminal renaming, PYTHONHASHSEED in the listed set; non-trivial = some string has non-zero weight; "
             f"distinct = (function, grammar, semiring, variant)")
    seeds = (0, 1) if tier == "quick" else (0, 1, 2, 3)
    run.extra["hash_seeds"] = list(seeds)
    engine.run_cases(run, "props.C20", "check_case", cases, hash_seeds=seeds, per_case_timeout=60,
                     split=(tier == "quick"))


def run(run, only=None):
    run.assume("T-TREESUM: total weights are finite (weights scaled so every infinite sum converges); instances with Z = 0 "
               "are outside locally_normalize's precondition and only exercise add_EOS",
               "oracle: cfgspec.cfg_weight / treesums applied to the ORIGINAL grammar and, independently of the library's "
               "parsers, to a neutral snapshot of the grammar the function returned")
    if only != "bounded":
        common.run_proved(run, "C20")
    if only != "proved":
        bounded(run)


def replay(doc):
    return common.generic_replay(doc, check_case)

"""C19 - character- and byte-level grammars built from Lark grammars.

PROVED layer  : props/C19_proved.py (disjoint nonterminal pools, terminal/nonterminal name shapes, $IGNORE wiring) - see run().
BOUNDED layer : for a corpus of Lark grammars in the supported subset, on the REAL LarkStuff(g).char_cfg / byte_cfg
                (recursion right and left, charset 'core' or a custom set):
    char level   char_cfg accepts x   <=>  x is obtained from a terminal sequence derivable in the Lark rule grammar by
                                          replacing each terminal with a string matching its pattern, each (non-ignored)
                                          terminal optionally preceded by one match of an ignored terminal
    byte level   byte_cfg accepts bs  <=>  bs is the UTF-8 encoding of such an x
    names        nonterminal and terminal names never collide
The oracle never touches the repository: the rule grammar comes from lark's own compiler, terminal languages from Python `re`
by brute force over all candidate strings, the substitution by an exhaustive least-fixed-point enumeration (convspec).
Acceptance of the returned grammar is computed on its neutral Boolean snapshot by the same exhaustive enumeration, and
re-computed with cfgspec.cfg_weight over BOOL on a sample.
"""
import random
import re

from props import common
from props.common import call, sig
from vlib import bridge, engine, dom_conv
from vlib.spec import cfgspec, convspec, algebra
from vlib.spec.cfgspec import G

ID = "C19"
LEVEL = "other"

OB_CHAR = "C19/lark_interface.LarkStuff.char_cfg/accepts-exactly-substitution-language"
OB_BYTE = "C19/lark_interface.LarkStuff.byte_cfg/accepts-exactly-utf8-encodings"
OB_NAMES = "C19/lark_interface.LarkStuff._char_cfg/terminal-nonterminal-names-disjoint"

SPOT = 14               # strings per grammar re-evaluated with cfgspec.cfg_weight over BOOL
STRING_CAP = 4000       # character candidates per grammar (byte candidates: 4x); the length bounds shrink for large alphabets
CLASS_ESC = re.compile(r"\\[wWdDsS]")


def _count_by_bytes(sizes, maxbytes):
    """Number of strings over characters with the given UTF-8 widths whose encoding has at most maxbytes bytes."""
    f = [1] + [0] * maxbytes
    for b in range(1, maxbytes + 1):
        f[b] = sum(f[b - k] for k in sizes if k <= b)
    return sum(f)


def make_cases(tier, seed, n_random=None):
    import lark
    rng = random.Random(seed)
    quick = tier == "quick"
    n_random = (120 if quick else 600) if n_random is None else n_random
    L = 4 if quick else 5
    LB = 6 if quick else 8
    cases = []
    items = [(n, g, sg, cs) for n, (g, sg, cs) in dom_conv.lark_corpus().items()]
    tries = 0
    k = 0
    while k < n_random and tries < 20 * n_random:
        tries += 1
        g, sg, cs = dom_conv.random_lark_grammar(rng)
        try:
            b = lark.load_grammar.GrammarBuilder()
            b.load_grammar(g)
            b.build().compile(["start"], set())
        except Exception:  # noqa: BLE001   (not a valid Lark grammar: outside the domain)
            continue
        items.append((f"rand{seed}_{k}", g, sg, cs))
        k += 1
    for i, (name, g, sg, cs) in enumerate(items):
        sizes = [len(convspec.utf8(ch)) for ch in set(sg)]
        ml = max(l for l in range(1, L + 1) if l == 1 or len(sizes) ** l <= STRING_CAP)
        mb = max(b for b in range(1, LB + 1) if b == 1 or _count_by_bytes(sizes, b) <= 4 * STRING_CAP)
        for rec in ("right", "left"):
            cases.append(dict(name=name, grammar=g, sigma=sg, charset=cs, recursion=rec, maxlen=ml, maxbytes=mb))
    return cases


# ------------------------------------------------------------------------------------------------- oracle
def lark_rule_grammar(text):
    """(terminal name -> regexp text, rules [(head, body)], ignored terminal names) from lark's own compiler."""
    import lark
    b = lark.load_grammar.GrammarBuilder()
    b.load_grammar(text)
    terminals, rules, ignores = b.build().compile(["start"], set())
    T = {t.name: t.pattern.to_regexp() for t in terminals}
    R = [(r.origin.name, tuple(("T", s.name) if s.is_term else ("N", s.name) for s in r.expansion)) for r in rules]
    return T, R, list(ignores)


def substitution_language(T, R, ignores, term_strings, bound, size=None, liberal=False):
    """All strings of size <= bound of the substitution semantics.  term_strings: terminal -> set of str it matches."""
    V = frozenset(("T", t) for t in T)
    tl = {}
    ign = set()
    for i in ignores:
        ign |= {tuple(s) for s in term_strings[i]}
    for t in T:
        own = {tuple(s) for s in term_strings[t]}
        if ignores and (t not in ignores or liberal):
            own = own | {u + v for u in ign for v in own}
        tl[("T", t)] = own
    g = G(("N", "start"), V, [(True, ("N", h), b) for h, b in R])
    return convspec.cfg_language(g, bound, term_lang=tl, size=size)[("N", "start")]


def _fullmatch_sets(T, sigma, strings):
    """terminal -> strings (of the given candidates) fully matched by its pattern; None if the dialect cannot be aligned."""
    import interegular
    out = {}
    nonascii = any(ord(c) > 127 for c in sigma)
    for t, rx in T.items():
        flags = 0
        if CLASS_ESC.search(rx):
            if nonascii:
                return None, f"class escape in {rx!r} with non-ASCII candidates"
            flags = re.ASCII
        try:
            cre = re.compile(rx, flags)
            fsm = interegular.parse_pattern(rx).to_fsm()
        except Exception as e:  # noqa: BLE001
            return None, f"{type(e).__name__} in the external regex libraries on {rx!r}"
        acc = {s for s in strings if cre.fullmatch(s)}
        # assumption A7 (interegular implements the regex): where its FSM and `re` differ the case is outside the aligned oracle
        for s in strings:
            if bool(fsm.accepts(s)) != (s in acc):
                return None, f"interegular and re disagree on {s!r} for {rx!r}"
        out[t] = acc
    return out, None


# ------------------------------------------------------------------------------------------------- the check
def check_case(case):
    import warnings
    from genlm.grammar.lark_interface import LarkStuff
    out = dict(n=0, keys=[], violations=[])
    text, rec = case["grammar"], case["recursion"]
    sigma = sorted(set(case["sigma"]))
    core = case["charset"] == "core"
    charset = "core" if core else set(case["charset"]) | set(sigma)
    L, LB = case["maxlen"], case["maxbytes"]
    rng = random.Random(len(text))
    T, R, ignores = lark_rule_grammar(text)
    # an ignored terminal that is also used explicitly in a rule: the statement does not say whether the optional ignore prefix also
    # precedes that occurrence; both readings are computed and only strings on which they agree are decided
    # (strict reading <= accepted <= liberal reading)
    ambiguous = any(sym == ("T", i) for _, b in R for sym in b for i in ignores)
    cand_c = ["".join(x) for x in convspec.strings_over(sigma, L)]
    cand_b = convspec.strings_by_bytes(sigma, LB)
    tsets, why = _fullmatch_sets(T, sigma, sorted(set(cand_c) | set(cand_b)))
    if tsets is None:
        out["dialect"] = (case["name"], why)
        return out
    O_c = substitution_language(T, R, ignores, {t: {s for s in v if len(s) <= L} for t, v in tsets.items()}, L)
    O_b = substitution_language(T, R, ignores, {t: {s for s in v if len(convspec.encode(s)) <= LB} for t, v in tsets.items()}, LB,
                                size=lambda ch: len(convspec.utf8(ch)))
    if ambiguous:
        O_c_hi = substitution_language(T, R, ignores, {t: {s for s in v if len(s) <= L} for t, v in tsets.items()}, L, liberal=True)
        O_b_hi = substitution_language(T, R, ignores, {t: {s for s in v if len(convspec.encode(s)) <= LB} for t, v in tsets.items()}, LB,
                                       size=lambda ch: len(convspec.utf8(ch)), liberal=True)
    else:
        O_c_hi, O_b_hi = O_c, O_b
    multibyte_terms = sum(1 for t in T if any(ord(c) > 127 for c in T[t]) or any(ord(c) > 127 for s_ in tsets[t] for c in s_))
    multimap = any(dom_conv.multichar_case(c) for t, rx in T.items() if "(?i" in rx for c in rx)
    desc = dict(lark_grammar=text, recursion=rec, charset="core" if core else "".join(sorted(charset)), candidates="".join(sigma),
                instance=case["name"], terminals=T, ignore=ignores)

    def viol(ob, what, x, got, exp, icls, extra=None):
        rp = dict(desc, string=x, observed=repr(got), expected=repr(exp))
        if extra:
            rp.update(extra)
        rp["case"] = common.enc(case)
        out["violations"].append(dict(obligation=ob, what=what, signature=sig(ob.split("/")[1], what.split(":")[0], icls, rec), replay=rp))

    with warnings.catch_warnings():
        warnings.simplefilter("ignore")
        st, ls = call(LarkStuff, text)
        if st != "ok":
            out["n"] += 1
            viol(OB_CHAR, "raised: " + ls.split(":")[0], None, ls, "a LarkStuff", case["name"])
            return out
        st_c, cc = call(ls.char_cfg, charset=charset, recursion=rec)
        st_b, cb = call(ls.byte_cfg, charset=charset, recursion=rec)

    # ---------------------------------------------------------------- character level
    icls_c = "case-insensitive-literal-with-multichar-mapping" if multimap else case["name"]
    if st_c != "ok":
        out["n"] += 1
        viol(OB_CHAR, "raised: " + cc.split(":")[0], None, cc, "a grammar", icls_c)
    else:
        out["n"] += 1
        clash = set(cc.N) & set(cc.V)
        if clash:
            viol(OB_NAMES, "name-collision", None, sorted(clash, key=repr), "N & V empty", icls_c)
        snap = bridge.from_cfg(cc, lambda w: True)
        keep = set(sigma)
        sub = G(snap.S, frozenset(snap.V) & keep, [r for r in snap.rules if all(y in keep or y not in snap.V for y in r[2])])
        A_c = convspec.cfg_language(sub, L)[sub.S]
        bad = 0
        for s in cand_c:
            out["n"] += 1
            x = tuple(s)
            want = x in O_c
            got = x in A_c
            if got != want and (x in O_c_hi) == want:
                bad += 1
                if bad == 1:
                    viol(OB_CHAR, "accepts-outside-language" if got else "rejects-member", s, got, want, icls_c,
                         dict(native_call=_native(cc, s)))
        _spot(sub, A_c, [tuple(s) for s in cand_c], O_c, rng)
        if O_c:
            out["keys"].append(sig("char", case["name"], rec))

    # ---------------------------------------------------------------- byte level
    icls_b = ("ge2-terminals-with-multibyte-characters" if multibyte_terms >= 2 else
              "case-insensitive-literal-with-multichar-mapping" if multimap else case["name"])
    if st_b != "ok":
        out["n"] += 1
        viol(OB_BYTE, "raised: " + cb.split(":")[0], None, cb, "a grammar", icls_b)
        return out
    out["n"] += 1
    clash = set(cb.N) & set(cb.V)
    if clash:
        viol(OB_NAMES, "name-collision", None, sorted(clash, key=repr), "N & V empty", icls_b)
    snap = bridge.from_cfg(cb, lambda w: True)
    want_b = {convspec.encode(x) for x in O_b}
    want_b_hi = want_b if not ambiguous else {convspec.encode(x) for x in O_b_hi}
    sig_bytes = {b for c in sigma for b in convspec.utf8(c)}
    B = sig_bytes | set(dom_conv.foreign_bytes(sig_bytes))
    sub = G(snap.S, frozenset(snap.V) & B, [r for r in snap.rules if all(y in B or y not in snap.V for y in r[2])])
    A_b = convspec.cfg_language(sub, LB)[sub.S]
    P, alpha, blind_len = dom_conv.byte_domain(want_b, A_b, LB, extra_bytes=sig_bytes)
    P = set(P) | {convspec.encode(s) for s in cand_c if len(convspec.encode(s)) <= LB}
    sset = set(sigma)
    bad = 0
    for bs in sorted(P, key=lambda x: (len(x), x)):
        t = convspec.decode(bs)
        if t is not None and not set(t) <= sset:
            continue                         # a valid encoding of a text with characters outside the candidate set: not in the domain
        out["n"] += 1
        want = t is not None and bs in want_b
        got = bs in A_b
        if got != want and (t is not None and bs in want_b_hi) == want:
            bad += 1
            if bad == 1:
                shared = sorted({r[1] for r in snap.rules if isinstance(r[1], str) and r[1].startswith("_bytes")
                                 and len({rr[2] for rr in snap.rules if rr[1] == r[1]}) > 1})
                viol(OB_BYTE, "accepts-non-encoding" if got else "rejects-encoding", " ".join(f"{b:02x}" for b in bs), got, want, icls_b,
                     dict(decoded=t, bytes=list(bs), native_call=_native(cb, list(bs)), chain_names_with_several_rules=shared[:6]))
    _spot(sub, A_b, sorted(P), want_b, rng)
    if O_b:
        out["keys"].append(sig("byte", case["name"], rec))
    if case["name"] in ("ignore_ws", "rule_ops", "three_multibyte_terminals") and rec == "right":
        out["sample"] = dict(grammar=text, candidates="".join(sigma), char_strings=len(cand_c), byte_strings=len(P), blind_byte_length=blind_len,
                             accepted_chars=sorted("".join(x) for x in O_c)[:6], accepted_bytes=len(want_b), rules=len(snap.rules))
    return out


def _native(cfg, x):
    """The repository's own evaluation of the failing string, for the replay record (small grammars only: CFG.__call__ builds a CNF)."""
    if len(cfg.rules) > 70:
        return "not evaluated natively (large grammar)"
    return repr(call(cfg, x)[1])


def _spot(g, accepted, domain, expected, rng):
    """Anchor the exhaustive enumeration to the shared spec: cfg_weight over BOOL on a few accepted / expected / other strings."""
    if len(g.N) > 60:
        return
    pool = sorted(set(accepted) | set(expected), key=lambda x: (len(x), repr(x)))[:SPOT // 2]
    rest = [x for x in domain if x not in accepted]
    pool += rng.sample(rest, min(len(rest), SPOT - len(pool)))
    for x in pool:
        if any(a not in g.V for a in x):
            continue
        w, _ = cfgspec.cfg_weight(algebra.BOOL, g, x)
        if bool(w) != (tuple(x) in accepted):
            raise RuntimeError(f"oracle inconsistency: cfg_language vs cfg_weight on {x!r}")


def bounded(run):
    tier = run.tier
    convspec.selfcheck(fast=True)
    cases = make_cases(tier, run.seed)
    quick = tier == "quick"
    run.rule(f"{len(cases) // 2} Lark grammars x recursion right/left: corpus ({len(dom_conv.lark_corpus())}: string / regex / composed terminals, "
             f"? * + | [] ~n groups in rules, left and right recursion, nullable rules, zero-width terminals, case-insensitive literals incl. "
             f"ß and ﬁ (multi-character case mappings), %ignore with one or two ignored terminals, 1-4 terminals containing 2-,3-,4-byte "
             f"characters, names resembling the internal ones (N0, N1, _bytes0), charset 'core' and custom sets) + seeded random grammars "
             f"(2-4 terminals from a pool, 1-3 rules with nested EBNF operators, optional %ignore); character level: ALL strings of length <= "
             f"{4 if quick else 5} over the occurring characters plus a foreign one (shorter when that exceeds {STRING_CAP} strings); byte level: "
             f"byte strings of length <= {6 if quick else 8} (shorter when more than {4 * STRING_CAP} candidate texts fit): "
             f"every string accepted on either side (exhaustive generation over the bytes of the candidate characters plus two foreign bytes), "
             f"the encodings of all character candidates, every truncation / one-byte deletion / foreign-byte substitution and insertion of an "
             f"expected encoding, and all byte strings up to the largest length with <= {dom_conv.BLIND_CAP} strings; oracle: lark's compiled "
             f"rules + Python re.fullmatch per terminal by brute force over all candidates (re.ASCII when a terminal uses \\w \\d \\s; a grammar on "
             f"which interegular's own FSM and `re` disagree is skipped as a limit of assumption A7, not reported) + exhaustive substitution; "
             f"the candidate characters are inside the charset passed to char_cfg/byte_cfg (negated classes and '.' are relative to it); "
             f"acceptance of the returned grammar: Boolean snapshot, exhaustive generation, {SPOT} strings per grammar re-evaluated by "
             f"cfgspec.cfg_weight over BOOL; not covered: grammars whose ignored terminal is also used in a rule (wording ambiguous), "
             f"LarkStuff(cnf=True), decay != 1, delimiter, terminal priorities, %import, templates; "
             f"non-trivial = the expected language is non-empty within the bound; distinct = (level, grammar, recursion)")
    seeds = (0, 1) if quick else (0, 1, 2, 3)
    run.extra["hash_seeds"] = list(seeds)
    engine.run_cases(run, "props.C19", "check_case", cases, hash_seeds=seeds, per_case_timeout=150 if quick else 400, split=quick)


def run(run, only=None):
    run.assume("lark's GrammarBuilder/compile output (terminals, rules, ignore list) is the Lark rule grammar; TerminalDef.pattern.to_regexp() is "
               "the terminal's pattern",
               "Python's re.fullmatch is the reference semantics of terminal patterns; A7: interegular implements the same language (checked "
               "per grammar on all candidates; disagreements are skipped)",
               "UTF-8: hand-written encoder/decoder validated against str.encode/bytes.decode (convspec.selfcheck)",
               "spec functions convspec.cfg_language (exhaustive generation) and cfgspec.cfg_weight over BOOL decide acceptance on the neutral "
               "snapshot")
    if only != "bounded":
        common.run_proved(run, "C19")
    if only != "proved":
        bounded(run)


def replay(doc):
    return common.generic_replay(doc, check_case)

"""C07 - normal forms satisfy their structural postconditions.

PROVED layer  : props/C07_proved.py (rule-shape postconditions from the source) - see run().
BOUNDED layer : the shapes exactly as the property states them, evaluated on the REAL outputs of
                cnf / nullaryremove / unaryremove / unarycycleremove / binarize / separate_start /
                separate_terminals / trim / cotrim with every option.  Oracles are independent of the repo:
                generating/reachable sets from vlib.spec.cfgspec.generating_reachable (on the neutral input
                and on the neutral snapshot of the output), strongly connected components of the unary graph
                of the output computed here (vlib.spec.polysys.sccs).
"""
import random

from props import common
from props.common import call, sig
from vlib import bridge, dom_cfg, domains, engine
from vlib.spec import cfgspec, polysys

ID = "C07"
LEVEL = "other"

SEMIRINGS_QUICK = ["Float", "Boolean", "Real", "MaxTimes"]
SEMIRINGS_THOROUGH = ["Float", "Boolean", "Real", "MaxTimes", "MaxPlus"]


def OB(method, kind):
    return f"C07/cfg.CFG.{method}/{kind}"


# ---------------------------------------------------------------------------- shape predicates
# each returns a list of offending rules (as strings); `out` is the real output CFG, `inp` the real input CFG
def _is_t(cfg, y):
    return y in cfg.V


def sh_cnf(out):
    bad = []
    for r in out.rules:
        b = r.body
        if len(b) == 0 and r.head == out.S:
            continue
        if len(b) == 1 and _is_t(out, b[0]):
            continue
        if len(b) == 2 and all((not _is_t(out, y)) and y != out.S for y in b):
            continue
        bad.append(repr(r))
    return bad


def sh_no_start_on_rhs(out):
    return [repr(r) for r in out.rules if out.S in r.body]


def sh_nullary_only_at_start(out):
    return [repr(r) for r in out.rules if len(r.body) == 0 and r.head != out.S]


def sh_no_unary(out):
    return [repr(r) for r in out.rules if len(r.body) == 1 and not _is_t(out, r.body[0])]


def sh_no_unary_cycle(out):
    succ = {}
    nodes = set()
    for r in out.rules:
        if len(r.body) == 1 and not _is_t(out, r.body[0]):
            succ.setdefault(r.head, set()).add(r.body[0])
            nodes.add(r.head)
            nodes.add(r.body[0])
    order = sorted(nodes, key=repr)
    comps = polysys.sccs(order, lambda x: sorted(succ.get(x, ()), key=repr))
    bad = []
    for comp in comps:
        if len(comp) > 1 or comp[0] in succ.get(comp[0], ()):
            bad.append("unary cycle through " + ", ".join(sorted(map(repr, comp))))
    return bad


def sh_binary(out):
    return [repr(r) for r in out.rules if len(r.body) > 2]


def sh_terminals_separated(out):
    bad = []
    for r in out.rules:
        if len(r.body) == 1 and _is_t(out, r.body[0]):
            continue
        if any(_is_t(out, y) for y in r.body):
            bad.append(repr(r))
    return bad


def _useful_oracle(g):
    """(generating symbols, symbols reachable from S through rules all of whose symbols generate)."""
    return cfgspec.generating_reachable(g)


def sh_trim(out, g_in, val):
    """every rule of the result: an input rule, all symbols generating and reachable from S (through useful
    rules) - judged on the input by the textbook oracle AND on the result itself; empty language => no rule."""
    bad = []
    gen, reach = _useful_oracle(g_in)
    snap = bridge.from_cfg(out, val)
    gen_o, reach_o = _useful_oracle(snap)
    avail = {}
    for _, h, b in g_in.rules:
        avail[(h, tuple(b))] = avail.get((h, tuple(b)), 0) + 1
    for r in out.rules:
        syms = (r.head,) + tuple(r.body)
        if not all(y in gen for y in syms):
            bad.append(f"keeps-non-generating-symbol: {r!r}")
        elif not all(y in reach for y in syms):
            bad.append(f"keeps-symbol-unreachable-through-productive-rules: {r!r}")
        elif not all(y in gen_o and y in reach_o for y in syms):
            bad.append(f"keeps-symbol-useless-within-result: {r!r}")
        k = (r.head, tuple(r.body))
        if avail.get(k, 0) <= 0:
            bad.append(f"invents-rule: {r!r}")
        else:
            avail[k] -= 1
    if g_in.S not in gen and out.rules and not bad:
        bad.append("empty-language-but-rules-remain: " + repr(out.rules[0]))
    return bad


def sh_cotrim(out, g_in, val):
    gen, _ = _useful_oracle(g_in)
    bad = []
    for r in out.rules:
        syms = (r.head,) + tuple(r.body)
        if not all(y in gen for y in syms):
            bad.append(f"keeps-non-generating-symbol: {r!r}")
    return bad


# (transformation name in dom_cfg.TRANSFORMS, [(obligation kind, predicate, needs input?)])
CHECKS = {
    "cnf": [("cnf-shape", sh_cnf, False), ("start-not-on-rhs", sh_no_start_on_rhs, False)],
    "nullaryremove": [("nullary-only-at-start", sh_nullary_only_at_start, False)],
    "nullaryremove[binarize=False]": [("nullary-only-at-start", sh_nullary_only_at_start, False)],
    "nullaryremove[trim=False]": [("nullary-only-at-start", sh_nullary_only_at_start, False)],
    "nullaryremove[binarize=False,trim=False]": [("nullary-only-at-start", sh_nullary_only_at_start, False)],
    "unaryremove": [("no-unary-rule", sh_no_unary, False)],
    "unarycycleremove": [("no-unary-cycle", sh_no_unary_cycle, False)],
    "unarycycleremove[trim=False]": [("no-unary-cycle", sh_no_unary_cycle, False)],
    "binarize": [("arity-at-most-2", sh_binary, False)],
    "separate_start": [("start-not-on-rhs", sh_no_start_on_rhs, False)],
    "separate_terminals": [("terminals-only-in-preterminal-rules", sh_terminals_separated, False)],
    "trim": [("only-useful-rules", sh_trim, True)],
    "trim[bottomup_only=True]": [("only-generating-rules", sh_cotrim, True)],
    "cotrim": [("only-generating-rules", sh_cotrim, True)],
}
# preparations: the shapes must also hold when the input is itself an output of the library (API-closed)
PREPS = [(), ("unarycycleremove",), ("nullaryremove",), ("cnf",), ("separate_terminals", "binarize"), ("renumber",)]

ENUM_CHUNK = 120


def make_cases(tier, seed, n_random=None, n_productive=None):
    quick = tier == "quick"
    n_random = (250 if quick else 3000) if n_random is None else n_random
    n_productive = (150 if quick else 2000) if n_productive is None else n_productive
    doms = dom_cfg.cfg_domain(tier, seed, n_random, n_productive)
    srs = SEMIRINGS_QUICK if quick else SEMIRINGS_THOROUGH
    cases = []
    for i, (name, g) in enumerate(doms):
        corpus = not (name.startswith("rand") or name.startswith("prod"))
        for j, sr in enumerate(srs):
            if corpus or quick is False or (i + j) % 2 == 0:
                cases.append(dict(kind="one", name=name, g=g, sr=sr, preps=PREPS if (corpus or (i + j) % 3 == 0) else [()]))
        if corpus or i % 7 == 0:
            cases.append(dict(kind="one", name=name + "#intV", g=dom_cfg.int_terminals(g), sr=srs[i % len(srs)], preps=[()]))
    # exact duplicates (identical weight, head and body: Rule objects that are == and hash alike); the first shape has a duplicated
    # production half of whose body generates while the rest does not, so its head must NOT count as generating
    from fractions import Fraction as F
    from vlib.spec.cfgspec import G
    drng = random.Random(seed + 4242)
    dups = [("dup_partial_generating", G("N0", frozenset("ab"), [(F(1, 2), "N0", ("N1",)), (F(1, 3), "N1", ("N2", "N3")), (F(1, 3), "N1", ("N2", "N3")),
                                                                (F(1, 5), "N2", ("b",)), (F(1, 7), "N3", ("N3", "a"))])),
            ("dup_partial_generating_long", G("N0", frozenset("ab"), [(F(1, 2), "N0", ("a", "N1")), (F(1, 2), "N0", ("b",)), (F(1, 3), "N1", ("N2", "N2", "N3", "N3")),
                                                                     (F(1, 3), "N1", ("N2", "N2", "N3", "N3")), (F(1, 5), "N2", ("b",)), (F(1, 7), "N3", ("N3",))]))]
    for i, (name, g) in enumerate(doms):
        corpus = not (name.startswith("rand") or name.startswith("prod"))
        if g.rules and (corpus or i % 9 == 0):
            dups.append((name + "#dup", dom_cfg.exact_duplicates(g, drng)))
    for i, (name, g) in enumerate(dups):
        cases.append(dict(kind="one", name=name, g=g, sr=srs[i % len(srs)], preps=PREPS if i < 2 else [()]))
    # exhaustive G(2,2,3,2): thorough = all shapes, quick = a seeded slice of chunks
    n = dom_cfg.enum_size()
    chunks = [(lo, min(lo + ENUM_CHUNK, n)) for lo in range(0, n, ENUM_CHUNK)]
    if quick:
        rng = random.Random(seed)
        chunks = rng.sample(chunks, 12)
    for k, (lo, hi) in enumerate(chunks):
        cases.append(dict(kind="enum", lo=lo, hi=hi, sr=srs[k % 2]))
    return cases


def check_one(case, out):
    g, sr = case["g"], case["sr"]
    R, ops, conv, val = bridge.SEMIRINGS[sr]
    desc = dict(grammar=bridge.fmt_grammar(g), semiring=sr)

    def viol(ob, what, prep, t, cls=None, **kw):
        # failing input class: trim failures are classified by reason and by whether the start symbol generates
        # (one class per root cause, whatever the instance); everything else by instance
        signature = sig("->".join(prep + (t,)), what.split(":")[0], cls or case["name"], sr)
        out["violations"].append(dict(
            obligation=ob, what=what, signature=signature,
            replay=dict(desc, preparation=list(prep), transformation=t, **{k: repr(v)[:700] for k, v in kw.items()},
                        case=common.enc(dict(kind="one", name=case["name"], g=g, sr=sr, preps=[prep], only=t)))))

    for prep in case.get("preps", [()]):
        prep = tuple(prep)
        for t, checks in CHECKS.items():
            if case.get("only") and t != case["only"]:
                continue
            # a fresh input object per transformation (trim caches its result on the object)
            cfg = bridge.to_cfg(g, sr)
            ok = True
            for p in prep:
                st, cfg = call(dom_cfg.apply_transform, cfg, p)
                if st != "ok":
                    ok = False      # reported by C06 (transformations must not raise); not a shape statement
                    break
            if not ok:
                continue
            g_in = bridge.from_cfg(cfg, val)
            st, new = call(dom_cfg.apply_transform, cfg, t)
            m = dom_cfg.method_of(t)
            if st != "ok":
                out["n"] += 1
                viol(OB(m, checks[0][0]), "raised: " + new.split(":")[0], prep, t, error=new)
                continue
            for kind, pred, needs_in in checks:
                out["n"] += 1
                bad = pred(new, g_in, val) if needs_in else pred(new)
                if bad:
                    cls = None
                    if m in ("trim", "cotrim"):
                        s_gen = g_in.S in cfgspec.generating_reachable(g_in)[0]
                        cls = bad[0].split(":")[0] + ("|S-generating" if s_gen else "|S-not-generating")
                    viol(OB(m, kind), "shape-violated: " + bad[0][:80], prep, t, cls=cls, offending=bad[:5],
                         input=bridge.fmt_grammar(g_in), output=bridge.fmt_grammar(bridge.from_cfg(new, val)))
            if len(new.rules) > 0 or len(g.rules) > 0:
                out["keys"].append(sig(case["name"], sr, "->".join(prep + (t,))))


def check_case(case):
    out = dict(n=0, keys=[], violations=[])
    if case["kind"] == "one":
        check_one(case, out)
        if case["name"] == "unprod_partner" and case["sr"] == "Float":
            out["sample"] = dict(grammar=bridge.fmt_grammar(case["g"]), semiring=case["sr"],
                                 transformations=list(CHECKS), preparations=[list(p) for p in case.get("preps", [()])])
        return out
    from vlib.spec.algebra import Q
    for k, shp in enumerate(dom_cfg.enum_shapes(case["lo"], case["hi"])):
        s = domains.convergent_scale(shp, Q)
        if s is None:
            continue
        g = domains.reweight(shp, s)
        check_one(dict(kind="one", name=f"enum{case['lo'] + k}", g=g, sr=case["sr"], preps=[()]), out)
    return out


def bounded(run):
    tier = run.tier
    cases = make_cases(tier, run.seed)
    srs = SEMIRINGS_QUICK if tier == "quick" else SEMIRINGS_THOROUGH
    n_enum = sum(c["hi"] - c["lo"] for c in cases if c["kind"] == "enum")
    run.rule(f"grammars: corpus of adversarial shapes (useless symbols, non-generating start symbol, nullable and unary cycles) + "
             f"seeded uniform random + seeded productive random grammars + integer-terminal copies + {n_enum} of the "
             f"{dom_cfg.enum_size()} rule sets of the exhaustive enumeration G(2,2,3,2) "
             f"({'all' if tier != 'quick' else 'seeded slice'}); semirings {srs}; outputs checked: {', '.join(CHECKS)}; inputs "
             f"additionally prepared by {[list(p) for p in PREPS[1:]]} (API-closed inputs); trim judged by the textbook "
             f"generating/useful oracle on the input and on the result; unary cycles by SCCs of the result's unary graph; "
             f"non-trivial = grammar or result has a rule; distinct = (grammar, semiring, preparation, transformation)")
    seeds = (0, 1) if tier == "quick" else (0, 1, 2, 3)
    run.extra["hash_seeds"] = list(seeds)
    engine.run_cases(run, "props.C07", "check_case", cases, hash_seeds=seeds, per_case_timeout=120, split=True)


def run(run, only=None):
    run.assume("the shapes are those of the property statement: CNF = {S->eps, A->a, A->B C with B,C nonterminals != S}; "
               "'reachable and generating' for trim is read as useful (reachable from S through rules all of whose symbols "
               "generate) - the reading under which the property's own corollary 'empty language trims to the empty rule set' holds",
               "oracle generating_reachable (textbook fix points) and Tarjan SCCs of vlib.spec.polysys are independent of the repo")
    if only != "bounded":
        common.run_proved(run, "C07")
    if only != "proved":
        bounded(run)


def replay(doc):
    rc = dom_cfg.replay_with_hashseed(doc, "props.C07")      # same PYTHONHASHSEED as the run that found it
    return common.generic_replay(doc, check_case) if rc is None else rc

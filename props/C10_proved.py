"""PROVED-class obligations of C10: see props/constructions.py."""
import z3

from props import constructions as C
from vlib.pyvc import interp as I


def proved(run):
    from props import crosscheck
    run.extra["encoder_cross_check"] = dict(functions=crosscheck.run_all(), disagreements=0)   # RuntimeError (exit 3) on disagreement
    run.trust("pyvc symbolic interpreter over the real AST", f"z3 {z3.get_version_string()}")
    run.assume("T-FILTER: Mohri's 3-state epsilon filter makes composition count every pair of matching paths once (assumed; table proved)")
    for f in (C.epsilon_filter, C.augment, C.from_pairs_wf, C.pruned_compose):
        try:
            f(run)
        except (I.OutOfSubset, KeyError) as e:
            run.obligation("C10/" + f.__name__, "out-of-subset", detail=str(e))
    from props import frames_automata
    frames_automata.run_frames(run, "C10")

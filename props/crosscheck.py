"""CPython cross-check of the pyvc interpreter (DESIGN 2.2 guard iv) for the construction harnesses.

Each function below is executed twice on the same *concrete* input: natively by CPython (the real library objects), and
by vlib.pyvc.interp on the function's AST with recording stand-ins.  The recorded effects must equal what the real
object ends up containing.  A disagreement is a tool bug: RuntimeError -> exit 3, never a verdict.
"""
from fractions import Fraction

from vlib.pyvc import interp as I, source, gharness as G
from props.constructions import Machine

Bag = G.Bag


def _norm(x):
    if isinstance(x, I.Z):
        import z3
        v = z3.simplify(x.e)
        if z3.is_rational_value(v):
            return Fraction(v.numerator_as_long(), v.denominator_as_long())
        if z3.is_int_value(v):
            return v.as_long()
        return str(v)
    if isinstance(x, tuple):
        return tuple(_norm(y) for y in x)
    if isinstance(x, (float, int)) and not isinstance(x, bool):
        return Fraction(x)
    return x


def _machine_sets(m):
    return (sorted(map(repr, (_norm(tuple(a)) for a in m.I))), sorted(map(repr, (_norm(tuple(a)) for a in m.F))),
            sorted(map(repr, (_norm(tuple(a)) for a in m.arcs))))


def _real_sets(m):
    def st(q):
        return _norm(q) if isinstance(q, tuple) else (Fraction(q) if isinstance(q, int) and not isinstance(q, bool) else q)
    I_ = sorted(repr((st(q), Fraction(w))) for q, w in m.start.items() if w != 0)
    F_ = sorted(repr((st(q), Fraction(w))) for q, w in m.stop.items() if w != 0)
    A_ = sorted(repr((st(i), a, st(j), Fraction(w))) for i, a, j, w in m.arcs())
    return I_, F_, A_


def run_all():
    from genlm.grammar.semiring import Float
    from genlm.grammar import cfg as rcfg, fst as rfst
    from genlm.grammar.wfsa import base as rbase
    n = 0
    R = Bag(one=1, zero=0)
    # 1. prefix_transducer
    fn = source.find("genlm/grammar/cfg.py", "prefix_transducer")
    m = Machine()
    it = I.Interp(I.Path([]))
    it.call_func(I.FuncObj(fn, I.Env(None, {"FST": I.Native("FST", lambda i2, a, k: m), "EPSILON": ""}), "prefix_transducer"), [R, ["a", "b"]], {})
    real = rcfg.prefix_transducer(Float, ["a", "b"])
    if _machine_sets(m) != _real_sets(real):
        raise RuntimeError(f"pyvc/CPython disagree on prefix_transducer: {_machine_sets(m)} vs {_real_sets(real)}")
    n += 1
    # 2. epsilon_filter_fst
    fn = source.find("genlm/grammar/fst.py", "epsilon_filter_fst")
    m = Machine()
    g = {"FST": I.Native("FST", lambda i2, a, k: m), "ε_1": rfst.ε_1, "ε_2": rfst.ε_2, "ε": rfst.ε}
    it = I.Interp(I.Path([]))
    it.call_func(I.FuncObj(fn, I.Env(None, g), "epsilon_filter_fst"), [R, ["x", "y"]], {})
    real = rfst.epsilon_filter_fst(Float, ["x", "y"])
    if _machine_sets(m) != _real_sets(real):
        raise RuntimeError("pyvc/CPython disagree on epsilon_filter_fst")
    n += 1
    # 3. WFSA.from_string, lift
    fn = source.find("genlm/grammar/wfsa/base.py", "WFSA.from_string")
    m = Machine()
    it = I.Interp(I.Path([]))
    it.call_func(I.FuncObj(fn, I.Env(None, {}), "WFSA.from_string"), [I.Native("cls", lambda i2, a, k: m), "abc", R], {})
    real = rbase.WFSA.from_string("abc", Float)
    if _machine_sets(m) != _real_sets(real):
        raise RuntimeError("pyvc/CPython disagree on WFSA.from_string")
    n += 1
    fn = source.find("genlm/grammar/wfsa/base.py", "WFSA.lift")
    m = Machine()
    it = I.Interp(I.Path([]))
    it.call_func(I.FuncObj(fn, I.Env(None, {}), "WFSA.lift"), [I.Native("cls", lambda i2, a, k: m), "a", Fraction(1, 2)], {"R": R})
    real = rbase.WFSA.lift("a", Fraction(1, 2), R=Float)
    if _machine_sets(m) != _real_sets(real):
        raise RuntimeError("pyvc/CPython disagree on WFSA.lift")
    n += 1
    # 4. CFG._fold on a concrete rule
    fn = source.find("genlm/grammar/cfg.py", "CFG._fold")
    names = iter(["@g1", "@g2"])
    it = I.Interp(I.Path([]))
    out = it.call_func(I.FuncObj(fn, I.Env(None, {"_gen_nt": I.Native("_gen_nt", lambda i2, a, k: next(names)),
                                                      "Rule": I.Native("Rule", lambda i2, a, k: (a[0], a[1], tuple(a[2])))}), "CFG._fold"),
                       [Bag(R=R), Bag(w=Fraction(1, 3), head="X", body=("a", "B", "c", "D")), [(0, 1)]], {})
    g = rcfg.CFG(Float, "X", {"a", "c"})
    old_i = rcfg._gen_nt.i
    real = g._fold(rcfg.Rule(Fraction(1, 3), "X", ("a", "B", "c", "D")), [(0, 1)])
    real_t = [(r.w, "@g1" if str(r.head).startswith("@") else r.head, tuple("@g1" if str(y).startswith("@") else y for y in r.body)) for r in real]
    if [(_norm(w), h, b) for (w, h, b) in out] != [(Fraction(w), h, b) for (w, h, b) in real_t]:
        raise RuntimeError(f"pyvc/CPython disagree on CFG._fold: {out} vs {real_t}")
    n += 1
    return n

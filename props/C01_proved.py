"""PROVED-class obligations of C01: see props/resolves.py (dispatch, Boolean model) and props/C20_proved.py (add_EOS construction)."""
import z3

from props import resolves
from props import C20_proved


def proved(run):
    run.trust("pyvc symbolic interpreter over the real AST", f"z3 {z3.get_version_string()}")
    run.assume("composition lemma: mask = support of next-token weights of the Boolean prefix grammar of G.EOS - over the contracts of C20 (add_EOS), "
               "C03 (prefix grammar), C02/C04 (parser, next-token weights); each premise is checked in its own property",
               "A: _gen_nt freshness")
    resolves.c01_resolves(run)
    resolves.c01_boolean_conversion(run)
    resolves.c01_mask_support(run)
    n0 = len(run.obligations)
    C20_proved.add_eos(run)
    for o in run.obligations[n0:]:
        o["name"] = o["name"].replace("C20/", "C01/", 1)

    from props import resolves as _res
    _res.budget_obligation(run, "C01")

"""Auxiliary frame obligations for automata, transducers, graphs and charts: no operation writes to a pre-existing object
(the classes memoise derived machines with cached_property - epsremove, reverse, push, trim, determinize, T - so an operation that
modified its operand would silently invalidate them).  Role: auxiliary (the properties C10-C15 do not state purity themselves)."""
from vlib.pyvc import source, frames
from vlib.pyvc.frames import Spec

BASE = "genlm/grammar/wfsa/base.py"
FST = "genlm/grammar/fst.py"
LIN = "genlm/grammar/linear.py"

TABLE = {
    "C11": [(BASE, "WFSA." + q) for q in ["__call__", "E", "epsremove", "total_weight", "G", "K", "forward", "backward", "rename", "renumber", "spawn"]],
    "C12": [(BASE, "WFSA." + q) for q in ["rename_apart", "reverse", "__add__", "__mul__", "zero", "one", "star", "kleene_plus", "lift", "from_string", "from_strings"]],
    "C13": [(BASE, "WFSA." + q) for q in ["push", "trim_vals", "accessible", "co_accessible", "trim", "_trim", "min_det", "determinize"]],
    "C17": [(BASE, "WFSA." + q) for q in ["to_cfg", "to_bytes"]],
    "C10": [(FST, "FST." + q) for q in ["__call__", "from_string", "from_pairs", "project", "T", "__matmul__", "_pruned_compose", "_augment_epsilon_transitions", "diag"]]
           + [(FST, "epsilon_filter_fst")],
    "C15": [(LIN, "WeightedGraph." + q) for q in ["closure", "closure_reference", "closure_scc_based", "solve_left", "solve_right", "_closure", "blocks", "buckets", "Blocks"]],
}
CALLEES = {k: Spec(writes_args={"self": True}) for k in ("add_arc", "add_I", "add_F", "add_state", "set_arc", "set_I", "set_F")}


def run_frames(run, pid):
    for rel, qual in TABLE.get(pid, []):
        mod = rel.split("/")[-1][:-3]
        name = f"{pid}/{mod}.{qual}/modifies"
        try:
            fn = source.find(rel, qual)
        except KeyError:
            run.obligation(name, "out-of-subset", role="auxiliary", detail="function not found in the current source")
            continue
        chk = frames.FrameChecker(fn, Spec(), CALLEES)
        findings, unclassified = chk.check()
        if findings:
            run.obligation(name, "refuted", role="auxiliary", backend="ownership", detail=str(findings[0]),
                           replay=dict(replayed=False, findings=[repr(f) for f in findings]), signature=f"{qual}:modifies")
        elif unclassified:
            run.obligation(name, "unknown", role="auxiliary", backend="ownership", detail="unclassified: " + "; ".join(repr(u) for u in unclassified[:2]))
        else:
            run.obligation(name, "proved", role="auxiliary", backend="ownership", detail="every store targets an object created in the call")

"""PROVED-class obligations of C15: see props/constructions2.py."""
import z3

from props import constructions2 as C2

from vlib.pyvc import interp as I


def proved(run):
    run.trust("pyvc symbolic interpreter over the real AST", f"z3 {z3.get_version_string()}")
    pass
    for f in (C2.c15, C2.c15_closure_step):
        try:
            f(run)
        except (I.OutOfSubset, KeyError) as e:
            run.obligation("C15/" + f.__name__, "out-of-subset", detail=str(e))
    from props import frames_automata
    frames_automata.run_frames(run, "C15")

"""PROVED-class obligations of C09: see props/constructions.py."""
import z3

from props import constructions as C
from vlib.pyvc import interp as I


def proved(run):
    run.trust("pyvc symbolic interpreter over the real AST", f"z3 {z3.get_version_string()}")
    run.assume('T-BARHILLEL: the triple construction with epsilon handling composes a WCFG with a WFST (assumed)')
    for f in (C.truncate_length, C.fst_matmul_cfg,):
        try:
            f(run)
        except (I.OutOfSubset, KeyError) as e:
            run.obligation("C09/" + f.__name__, "out-of-subset", detail=str(e))

"""C08 - total weights are the least solution of the grammar equations.

PROVED layer  : props/C08_proved.py (block-order, semi-naive update, lifting lemmas) - see run().
BOUNDED layer : the contract evaluated on the real CFG.agenda / naive_bottom_up / treesum / expected_length:
    agenda()[X]           == t[X]   for every nonterminal X   (t = independent least solution, cfgspec.treesums:
                                                                exact linear solve per SCC / Newton / finite Kleene)
    agenda()[a]           == one    for every terminal a
    naive_bottom_up()[X]  == t[X]   and == agenda()[X]
    treesum()             == t[S],  and  >= sum_{|x|<=L} [[G]](x)  for every L up to the bound (monotone lower
                                          bound by the derivation-sum spec; equality when the tail is exhausted)
    expected_length       == sum_x |x| [[G]](x)   (lenspec.total_length: linear system at the least solution,
                                          validated against truncated sums and a numeric derivative)
Numeric semirings are compared up to the convergence tolerance: the code stops at absolute tolerance 1e-12 per
update; an update dropped there moves a total by at most 1e-12 * ||(I-J)^-1||, so the absolute tolerance is
max(1e-9, 1e-10 * amplification) plus 1e-8 relative.  Boolean exactly.
"""
import random

from props import common
from props.common import call, sig
from vlib import bridge, dom_cfg, engine
from vlib.spec import cfgspec, fastops, lenspec, algebra

ID = "C08"
LEVEL = "other"

SEMIRINGS_QUICK = ["Float", "FloatFrac", "Real", "Boolean", "MaxTimes", "MaxPlus", "Log"]
SEMIRINGS_THOROUGH = ["Float", "FloatFrac", "Real", "Q", "Boolean", "MaxTimes", "MaxPlus", "Log"]
FLOATLIKE = {"Float", "FloatFrac"}

def _register_log():
    """The Log semiring is (R>=0, +, x) under log: weights log(w), values compared after exp against the rational spec."""
    import math
    from genlm.grammar.semiring import Log
    def unlog(v):
        try:
            return math.exp(v.score)
        except OverflowError:
            return math.inf

    if "Log" not in bridge.SEMIRINGS:
        bridge.SEMIRINGS["Log"] = (Log, algebra.Q, lambda f: Log(-math.inf if f == 0 else math.log(float(f))), unlog)


_register_log()

OB_AGENDA = "C08/cfg.CFG.agenda/least-solution"
OB_TERM = "C08/cfg.CFG.agenda/terminals-weigh-one"
OB_NAIVE = "C08/cfg.CFG.naive_bottom_up/least-solution"
OB_AGREE = "C08/cfg.CFG.naive_bottom_up/agrees-with-agenda"
OB_TREESUM = "C08/cfg.CFG.treesum/equals-language-sum"
OB_LEN = "C08/cfg.CFG.expected_length/equals-weighted-length"


def make_cases(tier, seed, n_random=None, n_productive=None):
    rng = random.Random(seed)
    quick = tier == "quick"
    n_random = (250 if quick else 2500) if n_random is None else n_random
    n_productive = (450 if quick else 3500) if n_productive is None else n_productive
    doms = dom_cfg.cfg_domain(tier, seed, n_random, n_productive)
    srs = SEMIRINGS_QUICK if quick else SEMIRINGS_THOROUGH
    cases = []
    for i, (name, g) in enumerate(doms):
        corpus = not (name.startswith("rand") or name.startswith("prod"))
        for j, sr in enumerate(srs):
            cases.append(dict(name=name, g=g, sr=sr, rename="id", order=None, pop="real", maxlen=4 if len(g.V) <= 2 else 3))
            pol = ["fifo", "random", "real"][(i + j) % 3]
            cases.append(dict(name=name, g=g, sr=sr, rename=["tuple", "rev"][i % 2], order=common.perm(len(g.rules), rng),
                              pop=pol, maxlen=0))
        if corpus or i % 10 == 0:
            # the log semiring exists for weights far below the double precision of probabilities: every rule weight scaled by 1e-9
            # (totals down to 1e-40); its convergence test is relative (a distance between scores), so these totals must come out
            # to the same relative precision (strengthened after seeded change C08-8)
            from fractions import Fraction
            cases.append(dict(name=name + "#tiny", g=g.map_weights(lambda w: w * Fraction(1, 10**9)), sr="Log", rename="id", order=None, pop="real",
                              maxlen=2))
    # a convergent system that needs ~16 000 sweeps of the naive evaluator and tens of thousands of agenda pops: a ring of 60
    # nonterminals whose lap weight is 0.9 (strengthened after seeded changes C08-7 and C20-6)
    from fractions import Fraction as F
    from vlib.spec.cfgspec import G
    K = 60
    ring = []
    for i in range(K - 1, -1, -1):
        ring.append((F(9, 10) if i == 0 else F(1), f"N{i}", (f"N{(i + 1) % K}",) if i % 2 else ("a", f"N{(i + 1) % K}")))
        ring.append((F(1, 10), f"N{i}", ("b",)))
    gr = G("N0", frozenset("ab"), ring)
    for sr in ("Float", "Real"):
        cases.append(dict(name="ring60", g=gr, sr=sr, rename="id", order=None, pop="real", maxlen=0))
    # a strongly connected block BELOW the top one that uses up the default budget of agenda pops (105 000 of 100 000): the block is
    # abandoned a hair short of its fixed point and the blocks above it must still be evaluated (seeded change C08-9)
    slow = G("N0", frozenset("abcd"), [(F(1), "N0", ("N1", "b")), (F(1), "N0", ("N2", "c")), (F(1, 2), "N2", ("N1", "N1")), (F(1, 2), "N2", ("d",)),
                                       (F(99982, 100000), "N1", ("a", "N1")), (F(18, 100000), "N1", ("a",))])
    cases.append(dict(name="slow_lower_block", g=slow, sr="Float", rename="id", order=None, pop="real", maxlen=0, abs_tol=1e-5))
    # a derivation of weight 1e-14 whose yield has 2**50 tokens: the weight component of the expectation semiring has long converged
    # when its length component arrives (seeded change C08-10)
    rare = [(F(1, 2), "N0", ("a",)), (F(1), "N0", ("N1", "b")), (F(1, 10**14), "N1", ("L50",)), (F(1), "L0", ("a",))]
    rare += [(F(1), f"L{k}", (f"L{k - 1}", f"L{k - 1}")) for k in range(1, 51)]
    cases.append(dict(name="long_rare_derivation", g=G("N0", frozenset("ab"), rare), sr="Float", rename="id", order=None, pop="real", maxlen=0, abs_tol=1e-9))
    return cases


def _num_close(a, b, abs_tol, rel=1e-8):
    if isinstance(a, bool) or isinstance(b, bool):
        return bool(a) == bool(b)
    try:
        if a == b:
            return True
        fa, fb = float(a), float(b)
    except (TypeError, ValueError):
        return False
    except OverflowError:               # a Fraction beyond the float range (only a broken evaluator produces one)
        return False
    if fa != fa or fb != fb:
        return False
    if fa in (float("inf"), float("-inf")) or fb in (float("inf"), float("-inf")):
        return fa == fb
    return abs(fa - fb) <= rel * max(abs(fa), abs(fb)) + abs_tol


def _install_pop(policy, seed):
    """Contract-equivalent replacement of dict.popitem on the library's Chart ("remove and return some item"):
    the agenda must reach the same least solution whatever pending update is popped next."""
    from genlm.grammar.chart import Chart
    if policy == "real":
        return lambda: None
    rng = random.Random(seed)

    def popitem(self):
        keys = list(self.keys())
        k = keys[0] if policy == "fifo" else rng.choice(keys)
        return k, self.pop(k)

    Chart.popitem = popitem

    def undo():
        del Chart.popitem
    return undo


def _grown(g, sr, rename, order):
    R, _, conv, _ = bridge.SEMIRINGS[sr]
    f = (lambda x: x) if rename is None else (lambda x: x if x in g.V else rename(x))
    cfg = bridge.CFG(R=R, S=f(g.S), V=set(g.V))
    rules = list(g.rules) if order is None else [g.rules[i] for i in order]
    half = len(rules) // 2
    for w, h, b in rules[:half]:
        cfg.add(conv(w), f(h), *[f(y) for y in b])
    for q in (cfg.agenda, cfg.treesum, cfg.dependency_graph):
        call(q)                      # a sub-grammar of a convergent grammar converges (monotone); results are not used
    for w, h, b in rules[half:]:
        cfg.add(conv(w), f(h), *[f(y) for y in b])
    return cfg


def check_case(case):
    g, sr = case["g"], case["sr"]
    R, ops, conv, val = bridge.SEMIRINGS[sr]
    ops = fastops.fast(ops)
    gs = bridge.spec_grammar(g, sr)
    out = dict(n=0, keys=[], violations=[])
    try:
        t, exact = cfgspec.treesums(ops, gs)
        amp = 1.0
        if not ops.idempotent and "abs_tol" not in case:
            amp = lenspec.amplification(bridge.spec_grammar(g, "Q"))
    except ArithmeticError:
        return out                      # divergent / critical: outside the property's domain
    if amp > 1e4 and "abs_tol" not in case:
        return out                      # ill-conditioned: skipped, not reported (hand-made cases state their own slack)
    if sr in ("FloatFrac", "Q") and not exact:
        sr = "Float"                    # Fractions blow up inside the fixed-point iteration of a nonlinear block
        R, _, conv, val = bridge.SEMIRINGS[sr]
    abs_tol = 0.0 if sr == "Boolean" else max(1e-9, 1e-10 * amp)
    if "abs_tol" in case:
        abs_tol = case["abs_tol"]
    if sr == "Log" and case["name"].endswith("#tiny"):
        # the log semiring's own convergence test is a distance between SCORES (relative in probability space): totals of 1e-30 must
        # be right to the same relative precision, so no absolute slack here (relative 1e-8 * amplification as everywhere)
        abs_tol = 0.0
    f = common.renamer(case["rename"]) or (lambda x: x)
    desc = dict(grammar=bridge.fmt_grammar(g), semiring=sr, rename=case["rename"], order=case["order"], pop=case["pop"])

    def viol(ob, what, cls=None, **kw):
        # failing input class: by default (function, failure kind, instance, semiring); a total that comes out as the semiring
        # zero although it is non-zero is one class per (function, semiring), whatever the instance (on the pinned tree: the
        # NaN stopping test of the semirings whose zero is -inf)
        out["violations"].append(dict(
            obligation=ob, what=what, signature=sig(ob.split("/")[1], what.split(":")[0], cls or case["name"], sr),
            replay=dict(desc, **{k: repr(v) for k, v in kw.items()}, case=common.enc(case))))

    def zcls(got, want):
        return "zero-for-nonzero-total" if (got == R.zero and not ops.is_zero(want)) else None

    undo = _install_pop(case["pop"], len(g.rules))
    try:
        cfg = bridge.to_cfg(g, sr, rename=common.renamer(case["rename"]), order=case["order"])
        if case["rename"] != "id" and len(g.rules) >= 2:
            # the same grammar, but built in two steps with total-weight queries in between: the value must depend on the grammar
            # as it is now, not on what was computed for an earlier state of the object (strengthened after seeded change C08-2)
            cfg = _grown(g, sr, common.renamer(case["rename"]), case["order"])
        N = sorted(gs.N, key=repr)
        nontrivial = any(not ops.is_zero(t[X]) for X in N)
        # ---- agenda
        st, Z = call(cfg.agenda)
        if st != "ok":
            out["n"] += 1
            viol(OB_AGENDA, "raised: " + Z.split(":")[0], error=Z)
            Z = None
        else:
            for X in N:
                out["n"] += 1
                got = Z[f(X)]
                if not common.in_semiring(got, sr):
                    viol(OB_AGENDA, "result-not-in-semiring: " + type(got).__name__, symbol=X, observed=got, expected=t[X])
                elif not _num_close(val(got), t[X], abs_tol):
                    viol(OB_AGENDA, "wrong-value", cls=zcls(got, t[X]), symbol=X, observed=val(got), expected=t[X], all_expected={str(k): str(v) for k, v in t.items()})
            for a in sorted(g.V, key=repr):
                out["n"] += 1
                if not common.in_semiring(Z[a], sr):
                    viol(OB_TERM, "result-not-in-semiring: " + type(Z[a]).__name__, symbol=a, observed=Z[a], expected=ops.one)
                elif not _num_close(val(Z[a]), ops.one, 0.0):
                    viol(OB_TERM, "wrong-value", symbol=a, observed=val(Z[a]), expected=ops.one)
        # ---- naive evaluator
        st, U = call(cfg.naive_bottom_up)
        if st != "ok":
            out["n"] += 1
            viol(OB_NAIVE, "raised: " + U.split(":")[0], error=U)
        else:
            for X in N:
                out["n"] += 2
                got = U[f(X)]
                if not common.in_semiring(got, sr):
                    viol(OB_NAIVE, "result-not-in-semiring: " + type(got).__name__, symbol=X, observed=got, expected=t[X])
                    continue
                if not _num_close(val(got), t[X], abs_tol):
                    viol(OB_NAIVE, "wrong-value", symbol=X, observed=val(got), expected=t[X])
                if Z is not None and common.in_semiring(Z[f(X)], sr) and not _num_close(val(got), val(Z[f(X)]), 2 * abs_tol):
                    viol(OB_AGREE, "evaluators-disagree", cls=zcls(Z[f(X)], t[X]), symbol=X, naive=val(got), agenda=val(Z[f(X)]), expected=t[X])
        # ---- treesum and the language sum (a coarse query first: a later default query must not be answered from it)
        call(lambda: cfg.treesum(tol=1e-2))
        call(lambda: cfg.treesum(maxiter=3))
        st, ts = call(cfg.treesum)
        out["n"] += 1
        if st != "ok":
            viol(OB_TREESUM, "raised: " + ts.split(":")[0], error=ts)
        elif not common.in_semiring(ts, sr):
            viol(OB_TREESUM, "result-not-in-semiring: " + type(ts).__name__, observed=ts, expected=t[gs.S])
        else:
            tsv = val(ts)
            if not _num_close(tsv, t[gs.S], abs_tol):
                viol(OB_TREESUM, "wrong-value", cls=zcls(ts, t[gs.S]), observed=tsv, expected=t[gs.S])
            elif case["maxlen"]:
                # truncated language sums (independent derivation-sum spec): a monotone lower bound of the total
                by_len = {}
                try:
                    for x in cfgspec.strings_upto(g.V, case["maxlen"]):
                        w = cfgspec.cfg_weight(ops, gs, x)[0]
                        by_len[len(x)] = ops.add(by_len.get(len(x), ops.zero), w)
                except ArithmeticError:
                    by_len = {}
                part = ops.zero
                for L in sorted(by_len):
                    part = ops.add(part, by_len[L])
                    out["n"] += 1
                    if ops.idempotent:
                        ok = _num_close(ops.add(part, tsv), tsv, abs_tol)          # part <= total in the natural order
                    else:
                        try:
                            ok = float(part) <= float(tsv) * (1 + 1e-8) + abs_tol
                        except OverflowError:
                            ok = False
                    if not ok:
                        viol(OB_TREESUM, "below-truncated-language-sum", max_length=L, truncated=part, observed=tsv)
                        break
        # ---- expected length (Float only: the method asserts it)
        if sr in FLOATLIKE:
            try:
                want_len, _ = lenspec.total_length(bridge.spec_grammar(g, "Q"))
            except ArithmeticError:
                want_len = None
            if want_len is not None:
                st, el = call(lambda: cfg.expected_length)
                out["n"] += 1
                if st != "ok":
                    viol(OB_LEN, "raised: " + el.split(":")[0], error=el)
                elif not _num_close(el, want_len, max(1e-9, 1e-10 * amp * amp), rel=1e-7):
                    viol(OB_LEN, "wrong-value", observed=el, expected=want_len)
        if nontrivial:
            out["keys"].append(sig(case["name"], sr, case["rename"], case["pop"]))
        if case["name"] in ("two_scc", "catalan_null") and case["sr"] == "Float" and case["rename"] == "id":
            out["sample"] = dict(grammar=desc["grammar"], semiring=sr, expected={str(k): str(v) for k, v in t.items()},
                                 amplification=amp, abs_tol=abs_tol)
    finally:
        undo()
    return out


def bounded(run):
    tier = run.tier
    cases = make_cases(tier, run.seed)
    srs = SEMIRINGS_QUICK if tier == "quick" else SEMIRINGS_THOROUGH
    run.rule(f"grammars: corpus of adversarial shapes (several SCCs, mutual recursion, nullary/unary rules and cycles, duplicate "
             f"rules, repeated body symbols) + seeded uniform random + seeded productive random grammars, generic rational weights "
             f"scaled for convergence (divergent, critical or ill-conditioned [amplification > 1e4] instances skipped); semirings {srs}; "
             f"variants: rule permutation, nonterminal renaming, pending-update pop order real(LIFO)/fifo/random (contract-equivalent "
             f"Chart.popitem), PYTHONHASHSEED in the listed set; every nonterminal and terminal of agenda() and naive_bottom_up(), "
             f"treesum() vs the spec and vs truncated language sums up to length 4 (3 for three terminals), expected_length "
             f"(Float) vs the independent length oracle; non-trivial = some nonterminal has non-zero total; distinct = (grammar, "
             f"semiring, variant). NOT covered: Entropy semiring; "
             f"Expectation only through expected_length")
    seeds = (0, 1, 2, 3) if tier == "quick" else (0, 1, 2, 3, 4, 5, 6, 7)
    run.extra["hash_seeds"] = list(seeds)
    engine.run_cases(run, "props.C08", "check_case", cases, hash_seeds=seeds, per_case_timeout=20, split=(tier == "quick"))


def run(run, only=None):
    run.assume("T-DERIV: total weights are finite (weights scaled so every infinite sum converges; instances that are divergent, "
               "critical or ill-conditioned are outside the property's domain and skipped)",
               "oracle: cfgspec.treesums = least solution per SCC (exact linear solve / Newton / finite Kleene), cross-validated by "
               "vlib/spec self-checks; lenspec.total_length validated against truncated sums and a numeric derivative",
               "tolerance: 1e-8 relative + max(1e-9, 1e-10 * ||(I-J)^-1||) absolute, because CFG.agenda stops at absolute tolerance "
               "1e-12 per update (the property says 'up to the convergence tolerance'); Boolean exact")
    if only != "bounded":
        common.run_proved(run, "C08")
    if only != "proved":
        bounded(run)


def replay(doc):
    rc = dom_cfg.replay_with_hashseed(doc, "props.C08")      # same PYTHONHASHSEED as the run that found it
    return common.generic_replay(doc, check_case) if rc is None else rc

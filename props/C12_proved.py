"""PROVED-class obligations of C12: see props/constructions2.py and props/resolves.py."""
import z3

from props import constructions2 as C2
from props import resolves
from vlib.pyvc import interp as I


def proved(run):
    from props import crosscheck
    run.extra["encoder_cross_check"] = dict(functions=crosscheck.run_all(), disagreements=0)   # RuntimeError (exit 3) on disagreement
    run.trust("pyvc symbolic interpreter over the real AST", f"z3 {z3.get_version_string()}")
    resolves.c12_one_resolves(run)
    for f in (C2.c12,):
        try:
            f(run)
        except (I.OutOfSubset, KeyError) as e:
            run.obligation("C12/" + f.__name__, "out-of-subset", detail=str(e))
    from props import frames_automata
    frames_automata.run_frames(run, "C12")

"""PROVED-class obligations of C12: see props/resolves.py."""
import z3

from props import resolves


def proved(run):
    run.trust("pyvc symbolic interpreter over the real AST", f"z3 {z3.get_version_string()}")
    resolves.c12_one_resolves(run)

"""Helpers shared by the per-property checks."""
import hashlib
import os
import random

from vlib import bridge, domains
from vlib.spec import cfgspec, fsaspec, algebra

QUICK = "quick"


def num_close(a, b, rel=1e-7, abs_=1e-14):
    """Equality of two plain numbers (Fraction/float/int/bool/inf) up to the stated tolerance."""
    if isinstance(a, bool) or isinstance(b, bool):
        return bool(a) == bool(b)
    try:
        if a == b:
            return True
        fa, fb = float(a), float(b)
    except (TypeError, ValueError):
        return False
    except OverflowError:
        # beyond float range (huge exact rationals): compare the exact values relatively
        from fractions import Fraction
        try:
            qa, qb = Fraction(a), Fraction(b)
            return abs(qa - qb) <= Fraction(rel).limit_denominator(10**12) * max(abs(qa), abs(qb))
        except (TypeError, ValueError, OverflowError):
            return False
    if fa != fa or fb != fb:
        return False
    if fa in (float("inf"), float("-inf")) or fb in (float("inf"), float("-inf")):
        return fa == fb
    return abs(fa - fb) <= rel * max(abs(fa), abs(fb)) + abs_


def in_semiring(v, sr):
    """Is v a value of semiring `sr` (property C02/C11: the *semiring* zero, not int 0)?"""
    R = bridge.SEMIRINGS[sr][0]
    if R is bridge.Float:
        return not isinstance(v, bridge.Semiring) and isinstance(v, (int, float, bridge.Fraction)) or _is_np_number(v)
    return isinstance(v, R)


def _is_np_number(v):
    try:
        import numpy as np
        return isinstance(v, np.generic)
    except Exception:  # noqa: BLE001
        return False


def call(f, *a, **k):
    """Run a repo function; returns ('ok', value) or ('exc', 'Type: message')."""
    try:
        return "ok", f(*a, **k)
    except bridge.Timeout:
        raise
    except AssertionError as e:
        return "exc", f"AssertionError: {e}"
    except Exception as e:  # noqa: BLE001
        return "exc", f"{type(e).__name__}: {e}"


def perm(n, rng):
    p = list(range(n))
    rng.shuffle(p)
    return p


def renamer(kind):
    if kind == "id":
        return None
    if kind == "tuple":
        return lambda x: ("nt", x)
    if kind == "rev":
        return lambda x: "Z" + x[::-1]
    if kind == "START0":      # the user's start symbol is literally named like the library's internal start-symbol prefix
        return lambda x: "<START>" if x == "N0" else x
    if kind == "START1":      # ... or some other nonterminal is
        return lambda x: "<START>" if x == "N1" else x
    raise ValueError(kind)


def sig(*parts):
    s = "|".join(str(p) for p in parts)
    return s if len(s) <= 160 else s[:120] + "#" + hashlib.sha1(s.encode()).hexdigest()[:10]


def tier_params(tier):
    return dict(maxlen=4 if tier == QUICK else 6)


# ---------------------------------------------------------------- replayable case encoding
def enc(o):
    from fractions import Fraction
    from vlib.spec.cfgspec import G
    from vlib.spec.fsaspec import A
    if isinstance(o, G):
        return {"__G__": [enc(o.S), enc(sorted(o.V, key=repr)), [enc(list(r)) for r in o.rules]]}
    if isinstance(o, A):
        return {"__A__": [enc(sorted(o.states, key=repr)), enc(list(o.start.items())), enc(list(o.stop.items())),
                          [enc(list(a)) for a in o.arcs]]}
    if isinstance(o, bool) or o is None or isinstance(o, (int, str)):
        return o
    if isinstance(o, float):
        return {"__f__": repr(o)}
    if isinstance(o, Fraction):
        return {"__q__": str(o)}
    if isinstance(o, tuple):
        return {"__t__": [enc(x) for x in o]}
    if isinstance(o, (set, frozenset)):
        return {"__s__": [enc(x) for x in sorted(o, key=repr)]}
    if isinstance(o, list):
        return [enc(x) for x in o]
    if isinstance(o, dict):
        return {"__d__": [[enc(k), enc(v)] for k, v in o.items()]}
    return {"__repr__": repr(o)}


def dec(o):
    from fractions import Fraction
    from vlib.spec.cfgspec import G
    from vlib.spec.fsaspec import A
    if isinstance(o, list):
        return [dec(x) for x in o]
    if isinstance(o, dict):
        if "__G__" in o:
            S, V, rules = o["__G__"]
            return G(dec(S), frozenset(dec(V)), [tuple(dec(r)) for r in rules])
        if "__A__" in o:
            st, a, b, arcs = o["__A__"]
            return A(frozenset(dec(st)), dict(tuple(x) for x in dec(a)), dict(tuple(x) for x in dec(b)),
                     [tuple(dec(x)) for x in arcs])
        if "__f__" in o:
            return float(o["__f__"])
        if "__q__" in o:
            return Fraction(o["__q__"])
        if "__t__" in o:
            return tuple(dec(x) for x in o["__t__"])
        if "__s__" in o:
            return frozenset(dec(x) for x in o["__s__"])
        if "__d__" in o:
            return {dec(k): dec(v) for k, v in o["__d__"]}
        if "__repr__" in o:
            return o["__repr__"]
    return o


def generic_replay(doc, check_case):
    """Re-execute the stored failing case against the *current* tree; exit 1 iff it still fails."""
    r = doc.get("replay", {})
    print(f"replay of {doc['obligation']} - {doc['what']}")
    for k, v in r.items():
        if k != "case":
            print(f"   {k}: {v}")
    if "case" not in r:
        print("   (no concrete input stored: obligation-level violation; solver output above)")
        return 1
    case = dec(r["case"])
    out = check_case(case)
    hits = [v for v in out["violations"] if v["obligation"] == doc["obligation"]]
    for v in hits[:5]:
        print("   STILL FAILS:", v["what"], {k: w for k, w in v["replay"].items() if k != "case"})
    if not hits:
        print("   does not fail on the current tree")
    return 1 if hits else 0


def run_proved(run, pid):
    """Call props/<pid>_proved.proved(run) when that module exists."""
    import importlib
    try:
        mod = importlib.import_module(f"props.{pid}_proved")
    except ModuleNotFoundError as e:
        if e.name != f"props.{pid}_proved":
            raise
        run.notes.append("no PROVED-class obligations registered for this property yet")
        return
    mod.proved(run)

"""PROVED-class obligation of C14:  C14/field_wfsa.WFSA.simple/faithful

Every start, arc and stop weight of `epsremove.renumber` is stored *unchanged* in the dense arrays handed to `Simple`.
numpy contract (A7): `np.full(shape, v)` has the element type of v (a Python int gives an integer array); storing a real
number into an integer array truncates it.  Everything else in field_wfsa.py (pinv, @, allclose, Gram-Schmidt) is bounded only.
"""
import z3

from vlib.pyvc import interp as I, smt, source, symstruct as S, gharness as G

REL = "genlm/grammar/wfsa/field_wfsa.py"
Bag = G.Bag


class Arr:
    def __init__(self, fill, dtype):
        self.fill = fill
        self.dtype = dtype
        self.stores = []

    def __pyvc_getitem__(self, interp, k, node):
        return I.Z(I.to_real(self.fill)) if self.dtype == "float" else self.fill

    def __pyvc_setitem__(self, interp, k, v):
        self.stores.append((k, v))


def simple_faithful(run):
    name = "C14/field_wfsa.WFSA.simple/faithful"
    run.trust("pyvc symbolic interpreter over the real AST", f"z3 {z3.get_version_string()}",
              "numpy contract A7: np.full(shape, v) takes the dtype of v (int -> integer array, truncating stores) unless dtype= is given")
    run.assume("T-KIEFER: Tzeng/Kiefer basis search decides equivalence over a field; conjugates are minimal (assumed; bounded in this property's stand-in)",
               "A1: floats as reals; numerical linear algebra (pinv, allclose, Gram-Schmidt) is NOT verified - bounded only; termination not proved (A4)")
    fn = source.find(REL, "WFSA.simple")
    run.function_under_contract("genlm.grammar.wfsa.field_wfsa.WFSA.simple", source.sha(fn))
    w = z3.Real("w")
    arrays = []

    def np_full(it, a, kw):
        shape, v = a[0], a[1]
        dt = kw.get("dtype")
        if dt is not None:
            dtype = "float" if (dt is float or getattr(dt, "name", "") in ("float", "float64") or dt == "float") else "int" if dt is int else "object"
        else:
            dtype = "int" if (isinstance(v, int) and not isinstance(v, bool)) or (isinstance(v, I.Z) and v.is_int()) else "float"
        arr = Arr(v, dtype)
        arrays.append(arr)
        return arr

    def np_zeros(it, a, kw):
        arr = Arr(0, "float" if kw.get("dtype") in (None, float) else "int")
        arrays.append(arr)
        return arr

    def harness(path):
        del arrays[:]
        it = I.Interp(path)
        i, j = z3.Ints("i j")
        m = Bag(dim=I.Z(z3.Int("dim")), R=Bag(zero=0, one=1), alphabet=["a"], I=[(I.Z(i), I.Z(w))], F=[(I.Z(i), I.Z(w))],
                arcs=I.Native("arcs", lambda i2, x, k: [(I.Z(i), "a", I.Z(j), I.Z(w))]))
        selfobj = Bag(epsremove=Bag(renumber=m))
        np = Bag(full=I.Native("full", np_full), zeros=I.Native("zeros", np_zeros), float64="float", float_="float")
        g = {"np": np, "EPSILON": "", "Simple": I.Native("Simple", lambda i2, a, k: ("Simple", a, k)), "float": float, "int": int}
        fobj = I.FuncObj(fn, I.Env(None, g), "WFSA.simple")
        it.call_func(fobj, [selfobj], {})
        return list(arrays)

    try:
        results = I.explore(harness)
    except (I.OutOfSubset, I.PyRaise) as e:
        run.obligation(name, "out-of-subset", detail=str(e))
        return
    n = 0
    for path, arrs in results:
        for arr in arrs:
            for k, v in arr.stores:
                n += 1
                stored = I.to_real(v)
                if arr.dtype == "int":
                    stored = z3.ToReal(z3.ToInt(stored))     # an integer array cannot hold a non-integral weight
                q = smt.prove(list(path.pc), stored == w)
                if q["verdict"] != "proved":
                    model = {"w": str(smt.model_value(q["model"], w))} if q.get("model") is not None else None
                    run.obligation(name, q["verdict"], ms=q["ms"], detail=f"a weight is not stored unchanged (array dtype {arr.dtype})", model=model,
                                   replay=dict(replayed=False, model=model, hint="WFSA.lift('a', 0.5) == WFSA.lift('a', 0.25)"),
                                   signature="simple:int-dtype")
                    return
    if n < 3:
        run.obligation(name, "out-of-subset", detail="vacuous: fewer than three stores observed")
    else:
        run.obligation(name, "proved", backend="pyvc+z3", detail=f"{n} stores (start, arc, stop): each array element receives exactly the automaton's weight")


def eq_hash_glue(run):
    """C14/field_wfsa.<cls>.__eq__/is-counterexample-none and .../__hash__/eq-compatible (auxiliary, read off the AST of the current
    source): equality of automata IS the outcome of the equivalence test (`counterexample(other) is None`, on the dense forms), and the
    hash cannot separate equivalent automata (the dense form hashes to a constant; the automaton hashes its dense form).  Any other
    definition withdraws this glue: the bounded pairs decide."""
    import ast
    want = {
        ("WFSA", "__eq__"): ["return self.simple == other.simple"],
        ("WFSA", "__hash__"): ["return hash(self.simple)"],
        ("WFSA", "counterexample"): ["return self.simple.counterexample(other.simple)"],
        ("Simple", "__eq__"): ["return self.counterexample(other) is None"],
        ("Simple", "__hash__"): None,       # any constant
    }
    for (cls, m), bodies in want.items():
        name = f"C14/field_wfsa.{cls}.{m}/" + ("eq-compatible" if m == "__hash__" else "delegates-to-equivalence-test" if m != "__eq__" else "is-counterexample-none")
        try:
            fn = source.find(REL, f"{cls}.{m}")
        except KeyError:
            run.obligation(name, "refuted", role="auxiliary", backend="ast", detail=f"{cls}.{m} is not defined (object identity would be used)",
                           replay=dict(replayed=False), signature=f"{cls}.{m}:glue")
            continue
        run.function_under_contract(f"genlm.grammar.wfsa.field_wfsa.{cls}.{m}", source.sha(fn))
        stmts = [st for st in fn.body if not (isinstance(st, ast.Expr) and isinstance(st.value, ast.Constant))]
        src = [ast.unparse(st) for st in stmts]
        if bodies is None:
            ok = len(stmts) == 1 and isinstance(stmts[0], ast.Return) and isinstance(stmts[0].value, ast.Constant)
        else:
            ok = src == bodies
        if ok:
            run.obligation(name, "proved", role="auxiliary", backend="ast", detail="; ".join(src))
        else:
            run.obligation(name, "refuted", role="auxiliary", backend="ast", detail="body is " + "; ".join(src)[:160],
                           replay=dict(replayed=False, body=src), signature=f"{cls}.{m}:glue")


def proved(run):
    simple_faithful(run)
    eq_hash_glue(run)

"""PROVED-class obligation of C14:  C14/field_wfsa.WFSA.simple/faithful

Every start, arc and stop weight of `epsremove.renumber` is stored *unchanged* in the dense arrays handed to `Simple`.
numpy contract (A7): `np.full(shape, v)` has the element type of v (a Python int gives an integer array); storing a real
number into an integer array truncates it.  Everything else in field_wfsa.py (pinv, @, allclose, Gram-Schmidt) is bounded only.
"""
import z3

from vlib.pyvc import interp as I, smt, source, symstruct as S, gharness as G

REL = "genlm/grammar/wfsa/field_wfsa.py"
Bag = G.Bag


class Arr:
    def __init__(self, fill, dtype):
        self.fill = fill
        self.dtype = dtype
        self.stores = []

    def __pyvc_getitem__(self, interp, k, node):
        return I.Z(I.to_real(self.fill)) if self.dtype == "float" else self.fill

    def __pyvc_setitem__(self, interp, k, v):
        self.stores.append((k, v))


def simple_faithful(run):
    name = "C14/field_wfsa.WFSA.simple/faithful"
    run.trust("pyvc symbolic interpreter over the real AST", f"z3 {z3.get_version_string()}",
              "numpy contract A7: np.full(shape, v) takes the dtype of v (int -> integer array, truncating stores) unless dtype= is given")
    run.assume("T-KIEFER: Tzeng/Kiefer basis search decides equivalence over a field; conjugates are minimal (assumed; bounded in this property's stand-in)",
               "A1: floats as reals; numerical linear algebra (pinv, allclose, Gram-Schmidt) is NOT verified - bounded only; termination not proved (A4)")
    fn = source.find(REL, "WFSA.simple")
    run.function_under_contract("genlm.grammar.wfsa.field_wfsa.WFSA.simple", source.sha(fn))
    w = z3.Real("w")
    arrays = []

    def np_full(it, a, kw):
        shape, v = a[0], a[1]
        dt = kw.get("dtype")
        if dt is not None:
            dtype = "float" if (dt is float or getattr(dt, "name", "") in ("float", "float64") or dt == "float") else "int" if dt is int else "object"
        else:
            dtype = "int" if (isinstance(v, int) and not isinstance(v, bool)) or (isinstance(v, I.Z) and v.is_int()) else "float"
        arr = Arr(v, dtype)
        arrays.append(arr)
        return arr

    def np_zeros(it, a, kw):
        arr = Arr(0, "float" if kw.get("dtype") in (None, float) else "int")
        arrays.append(arr)
        return arr

    def harness(path):
        del arrays[:]
        it = I.Interp(path)
        i, j = z3.Ints("i j")
        m = Bag(dim=I.Z(z3.Int("dim")), R=Bag(zero=0, one=1), alphabet=["a"], I=[(I.Z(i), I.Z(w))], F=[(I.Z(i), I.Z(w))],
                arcs=I.Native("arcs", lambda i2, x, k: [(I.Z(i), "a", I.Z(j), I.Z(w))]))
        selfobj = Bag(epsremove=Bag(renumber=m))
        np = Bag(full=I.Native("full", np_full), zeros=I.Native("zeros", np_zeros), float64="float", float_="float")
        g = {"np": np, "EPSILON": "", "Simple": I.Native("Simple", lambda i2, a, k: ("Simple", a, k)), "float": float, "int": int}
        fobj = I.FuncObj(fn, I.Env(None, g), "WFSA.simple")
        it.call_func(fobj, [selfobj], {})
        return list(arrays)

    try:
        results = I.explore(harness)
    except (I.OutOfSubset, I.PyRaise) as e:
        run.obligation(name, "out-of-subset", detail=str(e))
        return
    n = 0
    for path, arrs in results:
        for arr in arrs:
            for k, v in arr.stores:
                n += 1
                stored = I.to_real(v)
                if arr.dtype == "int":
                    stored = z3.ToReal(z3.ToInt(stored))     # an integer array cannot hold a non-integral weight
                q = smt.prove(list(path.pc), stored == w)
                if q["verdict"] != "proved":
                    model = {"w": str(smt.model_value(q["model"], w))} if q.get("model") is not None else None
                    run.obligation(name, q["verdict"], ms=q["ms"], detail=f"a weight is not stored unchanged (array dtype {arr.dtype})", model=model,
                                   replay=dict(replayed=False, model=model, hint="WFSA.lift('a', 0.5) == WFSA.lift('a', 0.25)"),
                                   signature="simple:int-dtype")
                    return
    if n < 3:
        run.obligation(name, "out-of-subset", detail="vacuous: fewer than three stores observed")
    else:
        run.obligation(name, "proved", backend="pyvc+z3", detail=f"{n} stores (start, arc, stop): each array element receives exactly the automaton's weight")


def eq_hash_glue(run):
    """C14/field_wfsa.<cls>.__eq__/is-counterexample-none and .../__hash__/eq-compatible (auxiliary, read off the AST of the current
    source): equality of automata IS the outcome of the equivalence test (`counterexample(other) is None`, on the dense forms), and the
    hash cannot separate equivalent automata (the dense form hashes to a constant; the automaton hashes its dense form).  Any other
    definition withdraws this glue: the bounded pairs decide."""
    import ast
    want = {
        ("WFSA", "__eq__"): ["return self.simple == other.simple"],
        ("WFSA", "__hash__"): ["return hash(self.simple)"],
        ("WFSA", "counterexample"): ["return self.simple.counterexample(other.simple)"],
        ("Simple", "__eq__"): ["return self.counterexample(other) is None"],
        ("Simple", "__hash__"): None,       # any constant
    }
    for (cls, m), bodies in want.items():
        name = f"C14/field_wfsa.{cls}.{m}/" + ("eq-compatible" if m == "__hash__" else "delegates-to-equivalence-test" if m != "__eq__" else "is-counterexample-none")
        try:
            fn = source.find(REL, f"{cls}.{m}")
        except KeyError:
            run.obligation(name, "refuted", role="auxiliary", backend="ast", detail=f"{cls}.{m} is not defined (object identity would be used)",
                           replay=dict(replayed=False), signature=f"{cls}.{m}:glue")
            continue
        run.function_under_contract(f"genlm.grammar.wfsa.field_wfsa.{cls}.{m}", source.sha(fn))
        stmts = [st for st in fn.body if not (isinstance(st, ast.Expr) and isinstance(st.value, ast.Constant))]
        src = [ast.unparse(st) for st in stmts]
        if bodies is None:
            ok = len(stmts) == 1 and isinstance(stmts[0], ast.Return) and isinstance(stmts[0].value, ast.Constant)
        else:
            ok = src == bodies
        if ok:
            run.obligation(name, "proved", role="auxiliary", backend="ast", detail="; ".join(src))
        else:
            run.obligation(name, "refuted", role="auxiliary", backend="ast", detail="body is " + "; ".join(src)[:160],
                           replay=dict(replayed=False, body=src), signature=f"{cls}.{m}:glue")


# ------------------------------------------------------------------------------------------------------------------
# C14/field_wfsa.Simple.counterexample/witness-genuine  (loop invariant over the real while/for body)
#
# Spec functions (uninterpreted, defined by the recursion that IS the string weight of a dense automaton):
#     back_X(())      = stop_X                      back_X((a, w)) = M_X(a) · back_X(w)      weight_X(w) = start_X · back_X(w)
# with M_X(a) = arcs_X[a] when a is a key of arcs_X and the zero matrix otherwise.
# Invariant on every worklist entry (w, VA, VB):  VA = back_A(w)  and  VB = back_B(w).
# Obligations: the initial entry satisfies it; a generic iteration (generic entry, two successive generic symbols) appends only
# entries that satisfy it; every `return (w', va, vb)` has va = weight_A(w'), vb = weight_B(w') and is guarded by
# `not approx_equal(va, vb)` on that very pair.  Linear algebra is uninterpreted except for ONE axiom (Z · v = 0 * v, both the zero vector);
# approx_equal is an uninterpreted predicate (A1 reads it as equality); proj and the basis are opaque (they only decide what is
# explored: completeness is T-KIEFER, assumed and bounded).
_Vec = z3.DeclareSort("Vec")
_Mat = z3.DeclareSort("Mat")
_Word = z3.Datatype("Word")
_Word.declare("nil")
_Word.declare("cons", ("hd", z3.IntSort()), ("tl", _Word))
_Word = _Word.create()
_mv = z3.Function("mv", _Mat, _Vec, _Vec)
_vm = z3.Function("vm", _Vec, _Mat, _Vec)
_dot = z3.Function("dot", _Vec, _Vec, z3.RealSort())
_scale = z3.Function("scale", z3.RealSort(), _Vec, _Vec)
_vsub = z3.Function("vsub", _Vec, _Vec, _Vec)
_hstack = z3.Function("hstack", _Vec, _Vec, _Vec)
_approxS = z3.Function("approx_scalar", z3.RealSort(), z3.RealSort(), z3.BoolSort())
_approxV = z3.Function("approx_vector", _Vec, _Vec, z3.BoolSort())
_zeroM = z3.Const("ZeroMatrix", _Mat)
_zeroV = z3.Const("ZeroVector", _Vec)


class LA:
    """A vector or matrix term."""

    def __init__(self, e):
        self.e = e

    def __pyvc_binop__(self, it, op, other, rev, node):
        import ast
        t = type(op)
        a, b = (other, self) if rev else (self, other)
        sa = a.e.sort() if isinstance(a, LA) else None
        sb = b.e.sort() if isinstance(b, LA) else None
        if t is ast.MatMult and sa is not None and sb is not None:
            if sa == _Vec and sb == _Vec:
                return I.Z(_dot(a.e, b.e))
            if sa == _Mat and sb == _Vec:
                return LA(_mv(a.e, b.e))
            if sa == _Vec and sb == _Mat:
                return LA(_vm(a.e, b.e))
        if t is ast.Mult and (sa is None) != (sb is None):
            k, v = (a, b) if sa is None else (b, a)
            if v.e.sort() == _Vec and (isinstance(k, (int, float)) or (isinstance(k, I.Z) and k.is_num())):
                return LA(_scale(I.to_real(k), v.e))
        if t is ast.Sub and sa == _Vec and sb == _Vec:
            return LA(_vsub(a.e, b.e))
        raise I.OutOfSubset(f"linear-algebra operator {t.__name__} outside the modelled fragment (line {getattr(node, 'lineno', '?')})")


class _Arcs:
    """arcs of one dense automaton: key test and lookup are uninterpreted functions of the symbol."""

    def __init__(self, tag):
        self.tag = tag
        self.has = z3.Function(f"has_{tag}", z3.IntSort(), z3.BoolSort())
        self.mat = z3.Function(f"arcs_{tag}", z3.IntSort(), _Mat)

    def __pyvc_contains__(self, it, x):
        return I.Z(self.has(x.e))

    def __pyvc_getitem__(self, it, k, node):
        if not it.path.decide(self.has(k.e)):
            raise I.PyRaise("KeyError", f"arcs_{self.tag}[symbol] for a symbol that is not a key", node)
        return LA(self.mat(k.e))

    def M(self, a):
        return z3.If(self.has(a), self.mat(a), _zeroM)

    def __pyvc_getattr__(self, it, name, node):
        if name == "items":
            return I.Native("items", lambda i2, a, kw: [(x, LA(self.mat(x.e))) for x in self.__pyvc_iter__(i2)])
        if name == "keys":
            return I.Native("keys", lambda i2, a, kw: self.__pyvc_iter__(i2))
        raise I.OutOfSubset(f"attribute {name} of an arcs map")

    def __pyvc_iter__(self, it):
        # iterating one automaton's own symbols (soundness of the witnesses does not depend on which symbols are explored)
        out = []
        for n in ("a1", "a2"):
            a = z3.Int(n)
            it.path.assume(self.has(a))
            out.append(I.Z(a))
        return out


class _Alphabet:
    """set(self.arcs) | set(B.arcs): two successive generic symbols."""

    def __init__(self, parts):
        self.parts = parts

    def __pyvc_binop__(self, it, op, other, rev, node):
        import ast
        if isinstance(op, ast.BitOr) and isinstance(other, _Alphabet):
            return _Alphabet(self.parts + other.parts)
        raise I.OutOfSubset("alphabet expression")

    def __pyvc_iter__(self, it):
        if len(self.parts) != 2:
            raise I.OutOfSubset("the alphabet is not the union of the two key sets")
        out = []
        for n in ("a1", "a2"):
            a = z3.Int(n)
            it.path.assume(z3.Or(*[p.has(a) for p in self.parts]))
            out.append(I.Z(a))
        return out


def _toword(x):
    if isinstance(x, tuple) and len(x) == 0:
        return _Word.nil
    if isinstance(x, tuple) and len(x) == 2 and isinstance(x[0], I.Z) and x[0].is_int():
        t = _toword(x[1])
        return None if t is None else _Word.cons(x[0].e, t)
    if isinstance(x, LA) and x.e.sort() == _Word:
        return x.e
    return None


def witness_genuine(run):
    name = "C14/field_wfsa.Simple.counterexample/witness-genuine"
    try:
        fn = source.find(REL, "Simple.counterexample")
    except KeyError:
        run.obligation(name, "out-of-subset", detail="Simple.counterexample not found")
        return
    run.function_under_contract("genlm.grammar.wfsa.field_wfsa.Simple.counterexample", source.sha(fn))
    run.trust("linear algebra uninterpreted (mv, vm, dot, scale, vsub, hstack) with the single axiom ZeroMatrix·v = 0*v; "
              "approx_equal uninterpreted (A1: equality); proj/basis opaque")
    A, B = _Arcs("A"), _Arcs("B")
    startA, stopA, startB, stopB = (z3.Const(n, _Vec) for n in ("startA", "stopA", "startB", "stopB"))
    backA = z3.Function("back_A", _Word, _Vec)
    backB = z3.Function("back_B", _Word, _Vec)
    w0 = z3.Const("w0", _Word)
    VA0, VB0 = z3.Const("VA0", _Vec), z3.Const("VB0", _Vec)
    a1, a2 = z3.Int("a1"), z3.Int("a2")
    words = [w0, _Word.cons(a1, w0), _Word.cons(a2, w0)]
    ax = [backA(_Word.nil) == stopA, backB(_Word.nil) == stopB]
    for a in (a1, a2):                       # ground instances of the defining recursion and of the zero-matrix axiom
        ax += [backA(_Word.cons(a, w0)) == _mv(A.M(a), backA(w0)), backB(_Word.cons(a, w0)) == _mv(B.M(a), backB(w0))]
    ax += [_mv(_zeroM, backA(w0)) == _scale(z3.RealVal(0), backA(w0)), _mv(_zeroM, backB(w0)) == _scale(z3.RealVal(0), backB(w0))]
    inv0 = [VA0 == backA(w0), VB0 == backB(w0)]

    def weightA(w):
        return _dot(startA, backA(w))

    def weightB(w):
        return _dot(startB, backB(w))

    def harness(path):
        it = I.Interp(path)
        appended, state = [], dict(n=0, fresh=0)

        def fresh_vec(tag):
            state["fresh"] += 1
            return LA(z3.Const(f"{tag}_{state['fresh']}", _Vec))

        def approx(i2, a, kw):
            x, y = a
            if isinstance(x, LA) or isinstance(y, LA):
                ex = x.e if isinstance(x, LA) else _zeroV if (x == 0 and not isinstance(x, I.Z)) else None
                ey = y.e if isinstance(y, LA) else _zeroV if (y == 0 and not isinstance(y, I.Z)) else None
                if ex is None or ey is None:
                    raise I.OutOfSubset("approx_equal on a vector and a non-zero scalar")
                return I.Z(_approxV(ex, ey))
            return I.Z(_approxS(I.to_real(x), I.to_real(y)))

        class WL(Bag):
            def __pyvc_truth__(self, i2):
                state["n"] += 1
                return state["n"] == 1          # one generic iteration of the while loop

        def wl_append(i2, a, kw):
            appended.append((a[0], list(i2.path.pc), state["n"] >= 1))

        def wl_pop(i2, a, kw):
            return (LA(w0), LA(VA0), LA(VB0))

        def hstack(i2, a, kw):
            (xs,) = a
            if not (isinstance(xs, (list, tuple)) and len(xs) == 2 and all(isinstance(x, LA) and x.e.sort() == _Vec for x in xs)):
                raise I.OutOfSubset("np.hstack outside the modelled fragment")
            return LA(_hstack(xs[0].e, xs[1].e))

        def mkset(i2, a, kw):
            if len(a) == 1 and isinstance(a[0], _Arcs):
                return _Alphabet([a[0]])
            raise I.OutOfSubset("set() of something other than an arcs map")

        selfobj = Bag(start=LA(startA), stop=LA(stopA), arcs=A)
        other = Bag(start=LA(startB), stop=LA(stopB), arcs=B)
        g = {"np": Bag(hstack=I.Native("hstack", hstack)), "approx_equal": I.Native("approx_equal", approx),
             "proj": I.Native("proj", lambda i2, a, kw: fresh_vec("proj")), "set": I.Native("set", mkset),
             "deque": I.Native("deque", lambda i2, a, kw: WL(append=I.Native("append", wl_append), pop=I.Native("pop", wl_pop),
                                                             popleft=I.Native("popleft", wl_pop)))}
        fobj = I.FuncObj(fn, I.Env(None, g), "Simple.counterexample")
        ret = it.call_func(fobj, [selfobj, other], {})
        return ret, appended, state["n"]

    try:
        results = I.explore(harness)
    except (I.OutOfSubset, I.PyRaise) as e:
        run.obligation(name, "out-of-subset", detail=str(e))
        return
    n_ret = n_app = n_none = 0
    ms = 0.0
    for path, (ret, appended, nloop) in results:
        in_loop = nloop >= 1
        hyp = list(ax) + (inv0 if in_loop else [])
        for k, (entry, pc, inside) in enumerate(appended):
            ok = isinstance(entry, tuple) and len(entry) == 3 and isinstance(entry[1], LA) and isinstance(entry[2], LA)
            wt = _toword(entry[0]) if ok else None
            if wt is None:
                run.obligation(name, "out-of-subset", detail="a worklist entry is not (word, vector, vector)")
                return
            # the entry appended before the loop is checked without the invariant hypothesis
            h = list(ax) + (inv0 if inside else [])
            q = smt.prove(h + pc, z3.And(entry[1].e == backA(wt), entry[2].e == backB(wt)))
            ms += q["ms"]
            n_app += 1
            if q["verdict"] != "proved":
                run.obligation(name, q["verdict"], ms=ms, detail=f"a worklist entry (w, VA, VB) does not satisfy VA = back_A(w), VB = back_B(w): entry #{k} word {wt}",
                               replay=dict(replayed=False, hint="two one-state automata over {a, b} that differ on one symbol; compare the reported weights with Simple.__call__-style products"),
                               signature="counterexample:worklist-invariant")
                return
        if ret is None:
            n_none += 1
            continue
        ok = isinstance(ret, tuple) and len(ret) == 3
        wt = _toword(ret[0]) if ok else None
        if wt is None or not all(isinstance(x, I.Z) and x.is_num() for x in ret[1:]):
            run.obligation(name, "out-of-subset", detail="a returned value is not (word, scalar, scalar)")
            return
        va, vb = I.to_real(ret[1]), I.to_real(ret[2])
        goal = z3.And(va == weightA(wt), vb == weightB(wt), z3.Not(_approxS(va, vb)))
        q = smt.prove(hyp + list(path.pc), goal)
        ms += q["ms"]
        n_ret += 1
        if q["verdict"] != "proved":
            run.obligation(name, q["verdict"], ms=ms, detail=f"a returned witness (w, va, vb) is not (w, weight_A(w), weight_B(w)) guarded by `not approx_equal(va, vb)`: word {wt}",
                           replay=dict(replayed=False, hint="compare counterexample()'s reported weights with the automata's own string weights on the reported string"),
                           signature="counterexample:witness")
            return
    if n_ret < 2 or n_app < 2 or n_none < 1:
        run.obligation(name, "out-of-subset", detail=f"vacuous: {n_ret} returns, {n_app} appends, {n_none} None-paths")
    else:
        run.obligation(name, "proved", backend="pyvc+z3", ms=ms,
                       detail=f"{len(results)} paths: {n_app} worklist appends keep VA = back_A(w), VB = back_B(w); {n_ret} returns report "
                              f"(w, start_A·back_A(w), start_B·back_B(w)) under `not approx_equal`; {n_none} paths return None")


def reverse_and_glue(run):
    """Auxiliary: `Simple.reverse` swaps start and stop and transposes every arc matrix (the real body executed on symbolic
    vectors/matrices); `backward_conjugate` is reverse . forward_conjugate . reverse and `min` is forward_conjugate then
    backward_conjugate (read off the AST) - the composition T-KIEFER's Propositions 3.4/3.5 are stated for."""
    import ast
    name = "C14/field_wfsa.Simple.reverse/swap-and-transpose"
    _T = z3.Function("transpose", _Mat, _Mat)
    try:
        fn = source.find(REL, "Simple.reverse")
        run.function_under_contract("genlm.grammar.wfsa.field_wfsa.Simple.reverse", source.sha(fn))
        st, sp = z3.Const("start", _Vec), z3.Const("stop", _Vec)
        Ma, Mb = z3.Const("M_a", _Mat), z3.Const("M_b", _Mat)
        made = []

        def mkSimple(i2, a, kw):
            if a:
                kw = dict(kw, **dict(zip(("start", "arcs", "stop"), a)))
            made.append(kw)
            return Bag(**kw)

        it = I.Interp(I.Path([]))
        selfobj = Bag(start=LA(st), stop=LA(sp), arcs={"a": Bag(T=LA(_T(Ma))), "b": Bag(T=LA(_T(Mb)))})
        fobj = I.FuncObj(fn, I.Env(None, {"Simple": I.Native("Simple", mkSimple)}), "Simple.reverse")
        it.call_func(fobj, [selfobj], {})
        ok = len(made) == 1
        if ok:
            kw = made[0]
            arcs = kw.get("arcs")
            ok = (isinstance(kw.get("start"), LA) and kw["start"].e.eq(sp) and isinstance(kw.get("stop"), LA) and kw["stop"].e.eq(st)
                  and isinstance(arcs, dict) and set(arcs) == {"a", "b"} and all(isinstance(v, LA) for v in arcs.values())
                  and arcs["a"].e.eq(_T(Ma)) and arcs["b"].e.eq(_T(Mb)))
        if ok:
            run.obligation(name, "proved", role="auxiliary", backend="pyvc", detail="Simple(start=stop, arcs={a: M_a^T}, stop=start)")
        else:
            run.obligation(name, "refuted", role="auxiliary", backend="pyvc", detail=f"reverse builds {made!r}"[:200],
                           replay=dict(replayed=False), signature="reverse:swap-transpose")
    except (I.OutOfSubset, I.PyRaise, KeyError) as e:
        run.obligation(name, "out-of-subset", role="auxiliary", detail=str(e))
    want = {"backward_conjugate": ("C14/field_wfsa.Simple.backward_conjugate/reverse-forward-reverse", ["return self.reverse.forward_conjugate().reverse"]),
            "min": ("C14/field_wfsa.Simple.min/forward-then-backward-conjugate", ["return self.forward_conjugate().backward_conjugate()"])}
    for m, (nm, bodies) in want.items():
        try:
            fn = source.find(REL, f"Simple.{m}")
        except KeyError:
            run.obligation(nm, "out-of-subset", role="auxiliary", detail=f"Simple.{m} not found")
            continue
        run.function_under_contract(f"genlm.grammar.wfsa.field_wfsa.Simple.{m}", source.sha(fn))
        src = [ast.unparse(x) for x in fn.body if not (isinstance(x, ast.Expr) and isinstance(x.value, ast.Constant))]
        if src == bodies:
            run.obligation(nm, "proved", role="auxiliary", backend="ast", detail="; ".join(src))
        else:
            # another definition withdraws the glue (the bounded layer decides: min is equivalent and has hankel_rank states)
            run.obligation(nm, "out-of-subset", role="auxiliary", backend="ast", detail="body is " + "; ".join(src)[:160])


def proved(run):
    simple_faithful(run)
    eq_hash_glue(run)
    witness_genuine(run)
    reverse_and_glue(run)

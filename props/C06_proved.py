"""PROVED-class obligations of C06 (transformations preserve the weighted language): construction conformance
(auxiliary role: `code(f) == T_f`, the textbook construction whose preservation theorem is ASSUMED) and FRESH-NAMES
(property role: invented symbols are not symbols of the input).

  C06/cfg.CFG.rename/construction            rules' = [(w, f(head), f*(body))],  S' = f(S), terminals untouched
  C06/cfg.CFG.unfold/construction            rules - {rule_i}  +  { s.w*r.w : s.head -> s.body[:k] r.body s.body[k+1:]  |  r in rhs[s.body[k]] }
  C06/cfg.CFG.separate_start/construction    {S' -> S : one} + rules   (or the grammar itself when S is on no right-hand side)
  C06/cfg.CFG.unaryremove/construction       { W[Y,h]*w : Y -> body | (w,h,body) non-unary, Y in N }
  C06/cfg.CFG.unarycycleremove/fresh-names   the acyclic copy of X gets a name that is not a symbol of the grammar, one name per X
"""
import ast

import z3

from vlib.pyvc import interp as I, smt, source, symstruct as S, gharness as G
from props.C07_proved import Harness, hyp_instances, hooks_unaryremove, CFG

AUX = "auxiliary"


def _prove(path, gs, goal):
    inst = hyp_instances(gs, set(), None, list(path.pc) + [goal])
    v, t, m, ge = G.prove_all(path, [goal], extra=inst)
    return v == "proved"


def rename(run):
    name = "C06/cfg.CFG.rename/construction"
    h = Harness("CFG.rename")
    run.function_under_contract("genlm.grammar.cfg.CFG.rename", source.sha(h.fn))
    ff = z3.Function("f_rename", S.SYM, S.SYM)
    fnat = I.Native("f", lambda it, a, k: I.Z(ff(I.zexpr(a[0]))))

    def post(it, gs, ret):
        goals = []
        if not isinstance(ret, G.GramRec):
            raise I.OutOfSubset("rename does not return a spawned grammar")
        goals.append(I.zexpr(ret.f["S"]) == ff(gs.S.e))
        r = gs.generic[0] if gs.generic else None
        for a in ret.adds:
            goals.append(z3.BoolVal(a["w"] is r.w))
            goals.append(I.zexpr(a["head"]) == ff(r.head.e))
            n = a["body"].length()
            goals.append((n if not isinstance(n, int) else z3.IntVal(n)) == r.body.L)
            i = S.fresh("i")
            if it.path.decide(z3.And(i >= 0, i < r.body.L)):
                v = I.zexpr(a["body"].at(it, I.Z(i)))
                goals.append(v == z3.If(gs.V.mem(r.body.elem(i)), r.body.elem(i), ff(r.body.elem(i))))
        return goals, len(ret.adds)

    _conf(run, name, h, lambda it, gs: ([fnat], {}), post, min_sites=1)


def _conf(run, name, h, make_args, post, hooks=None, min_sites=1, role=AUX):
    try:
        results = h.run(make_args, post, hooks)
    except (I.OutOfSubset, I.PyRaise) as e:
        run.obligation(name, "out-of-subset", role=role, detail=str(e))
        return
    sites = 0
    for path, r in results:
        if "raised" in r:
            if r["raised"].startswith("AssertionError"):
                continue
            run.obligation(name, "refuted", role=role, detail="raises " + r["raised"], replay=dict(replayed=False), signature=name)
            return
        goals, n = r["goals"]
        sites += n
        for g in goals:
            if not _prove(path, r["gs"], g):
                run.obligation(name, "refuted", role=role, detail=f"construction differs from the specified one: {str(z3.simplify(g))[:160]}",
                               replay=dict(replayed=False, goal=str(g)[:400]), signature=name.split("/", 1)[1])
                return
    if sites < min_sites:
        run.obligation(name, "out-of-subset", role=role, detail="vacuous: no rule emitted")
        return
    run.obligation(name, "proved", role=role, detail=f"{len(results)} paths, {sites} emitted rules compared with the specified construction")


def separate_start(run):
    name = "C06/cfg.CFG.separate_start/construction"
    h = Harness("CFG.separate_start")

    def post(it, gs, ret):
        goals = []
        if ret is gs:
            goals.append(z3.Not(gs.onrhs.mem(gs.S.e)))      # returned unchanged only when S is on no right-hand side
            return goals, 1
        if not isinstance(ret, G.GramRec) or len(ret.adds) != 2:
            raise I.OutOfSubset("unexpected result structure")
        a0, a1 = ret.adds
        r = gs.generic[-1]
        goals.append(gs.onrhs.mem(gs.S.e))
        goals.append(z3.BoolVal(I.zexpr(a0["w"]).eq(G.w1) and I.zexpr(a0["head"]).eq(I.zexpr(ret.f["S"])) and isinstance(a0["body"], S.TupleSeq)
                                and len(a0["body"].items) == 1 and a0["body"].items[0] is gs.S))
        goals.append(z3.BoolVal(a1["w"] is r.w and a1["head"] is r.head and a1["body"] is r.body))
        goals.append(z3.And(z3.Not(gs.N.mem(I.zexpr(ret.f["S"]))), z3.Not(gs.V.mem(I.zexpr(ret.f["S"]))), z3.Not(gs.onrhs.mem(I.zexpr(ret.f["S"])))))
        return goals, 2

    _conf(run, name, h, lambda it, gs: ([], {}), post)


def unfold(run):
    name = "C06/cfg.CFG.unfold/construction"
    fn = source.find(CFG, "CFG.unfold")
    run.function_under_contract("genlm.grammar.cfg.CFG.unfold", source.sha(fn))
    k = z3.Int("k")
    iv, jv = z3.Ints("i j")

    def harness(path):
        it = I.Interp(path, uf=G.UF)
        gs = G.GramSelf(path)
        s_rule = gs.new_rule("s")
        other = gs.new_rule("o")
        inner = gs.new_rule("r")
        path.assume(z3.And(k >= 0, k < s_rule.body.L))
        path.assume(z3.Not(gs.V.mem(s_rule.body.elem(k))))
        path.assume(inner.head.e == s_rule.body.elem(k))          # r in rhs[s.body[k]]

        class Rules:
            def __pyvc_getitem__(self, interp, key, node):
                return s_rule

        class Rhs:
            def __pyvc_getitem__(self, interp, key, node):
                it.path.assume(I.zexpr(key) == s_rule.body.elem(k))
                return [inner]

        gs.methods["rules"] = Rules()
        gs.methods["rhs"] = Rhs()
        # `for j, r in enumerate(self)`: generic position j with generic rule `other`; j == i exactly when it is rule i itself
        loops = source.loops(fn, (ast.For,))

        def enum_hook(i2, st, env):
            same = S.fresh("j_is_i", z3.BoolSort())
            i2.path.assume(same == (jv == iv))
            i2.assign(st.target, (I.Z(jv), other), env)
            try:
                i2.exec_block(st.body, env)
            except I._Continue:
                pass

        for lp in loops:
            if "enumerate" in ast.unparse(lp.iter):
                it.loop_hooks[id(lp)] = enum_hook
        genv = I.Env(None, {"isinstance": I.Native("isinstance", lambda i2, a, kw: True), "int": int})
        fobj = I.FuncObj(fn, genv, "CFG.unfold")
        try:
            ret = it.call_func(fobj, [gs, I.Z(iv), I.Z(k)], {})
        except I.PyRaise as e:
            return dict(raised=f"{e.kind}: {e.msg}", gs=gs)
        goals = []
        copies = [a for a in ret.adds if a["body"] is other.body]
        news = [a for a in ret.adds if a["body"] is not other.body]
        # copied rule: present iff j != i, unchanged
        goals.append(z3.BoolVal(len(copies) <= 1 and len(news) <= 1))
        if not news:
            goals.append(G.wmul(s_rule.w.e, inner.w.e) == G.w0)      # dropped only because its weight is zero (contract of add)
        goals.append((jv != iv) if copies else (jv == iv))
        for a in copies:
            goals.append(z3.BoolVal(a["w"] is other.w and a["head"] is other.head))
        for a in news:
            goals.append(I.zexpr(a["w"]) == G.wmul(s_rule.w.e, inner.w.e))
            goals.append(z3.BoolVal(a["head"] is s_rule.head))
            n = a["body"].length()
            goals.append((n if not isinstance(n, int) else z3.IntVal(n)) == s_rule.body.L - 1 + inner.body.L)
            t = S.fresh("t")
            if it.path.decide(z3.And(t >= 0, t < s_rule.body.L - 1 + inner.body.L)):
                v = I.zexpr(a["body"].at(it, I.Z(t)))
                want = z3.If(t < k, s_rule.body.elem(t), z3.If(t < k + inner.body.L, inner.body.elem(t - k), s_rule.body.elem(t - inner.body.L + 1)))
                goals.append(v == want)
        return dict(goals=(goals, len(ret.adds)), gs=gs)

    try:
        results = I.explore(harness, max_paths=400)
    except (I.OutOfSubset, I.PyRaise) as e:
        run.obligation(name, "out-of-subset", role=AUX, detail=str(e))
        return
    sites = 0
    for path, r in results:
        if "raised" in r:
            if r["raised"].startswith("AssertionError"):
                continue
            run.obligation(name, "refuted", role=AUX, detail="raises " + r["raised"], replay=dict(replayed=False), signature="unfold:raises")
            return
        goals, n = r["goals"]
        sites += n
        for g in goals:
            if not _prove(path, r["gs"], g):
                run.obligation(name, "refuted", role=AUX, detail=f"unfold differs from the specified construction: {str(z3.simplify(g))[:200]}",
                               replay=dict(replayed=False, goal=str(g)[:400]), signature="unfold:construction")
                return
    if not sites:
        run.obligation(name, "out-of-subset", role=AUX, detail="vacuous")
        return
    run.obligation(name, "proved", role=AUX, detail=f"{len(results)} paths: rule i replaced by s.head -> s.body[:k] r.body s.body[k+1:] with weight s.w*r.w; other rules copied")


def unaryremove(run):
    name = "C06/cfg.CFG.unaryremove/construction"
    h = Harness("CFG.unaryremove")

    def post(it, gs, ret):
        goals = []
        r = gs.generic[0]
        unary = z3.And(r.body.L == 1, z3.Not(gs.V.mem(r.body.elem(0))))
        if not ret.adds:
            # nothing emitted: the rule is unary, or the closure weight times w is zero
            return [z3.BoolVal(True)], 0
        for a in ret.adds:
            goals.append(z3.Not(unary))
            goals.append(z3.BoolVal(a["body"] is r.body))
            goals.append(gs.N.mem(I.zexpr(a["head"])))
            goals.append(I.zexpr(a["w"]) == G.wmul(gs.closure.f(I.zexpr(a["head"]), r.head.e), r.w.e))
        return goals, len(ret.adds)

    _conf(run, name, h, lambda it, gs: ([], {}), post, hooks=hooks_unaryremove)


def fresh_names_bot(run):
    name = "C06/cfg.CFG.unarycycleremove/fresh-names"
    fn = source.find(CFG, "CFG.unarycycleremove")
    run.function_under_contract("genlm.grammar.cfg.CFG.unarycycleremove", source.sha(fn))
    bot = [n for n in ast.walk(fn) if isinstance(n, ast.FunctionDef) and n.name == "bot"]
    if not bot:
        run.obligation(name, "out-of-subset", detail="no helper `bot` found")
        return
    pre = []
    for st in fn.body:
        pre.append(st)
        if st is bot[0]:
            break
    gen_log = []

    def harness(path):
        del gen_log[:]
        it = I.Interp(path)
        x, y = S.sym("X"), S.sym("Y")
        path.assume(x.e != y.e)

        def gen(i2, a, k):
            s = S.fresh("gen_nt")
            gen_log.append(s)
            return I.Z(s)

        acyc = S.SymSet("acyclic")
        path.assume(z3.Not(acyc.mem(x.e)))
        path.assume(z3.Not(acyc.mem(y.e)))
        env = I.Env(None, {"_gen_nt": I.Native("_gen_nt", gen), "acyclic": acyc, "self": G.Bag(N=S.SymSet("N"))})
        stmts = [s for s in pre if isinstance(s, (ast.FunctionDef, ast.Assign)) and not (isinstance(s, ast.Assign) and isinstance(s.value, ast.Call) and "self." in ast.unparse(s.value))]
        for s in stmts:
            if isinstance(s, ast.Assign) and ast.unparse(s.targets[0]) == "acyclic":
                continue
            it.exec_stmt(s, env)
        b = env.get("bot")
        r1 = it.call(b, [x], {})
        r2 = it.call(b, [x], {})
        r3 = it.call(b, [y], {})
        return r1, r2, r3, list(gen_log)

    try:
        results = I.explore(harness, prune=True)
    except (I.OutOfSubset, I.PyRaise) as e:
        run.obligation(name, "out-of-subset", detail=str(e))
        return
    for path, (r1, r2, r3, log) in results:
        from_gen = lambda r: isinstance(r, I.Z) and any(r.e.eq(s) for s in log)      # noqa: E731
        ok = from_gen(r1) and from_gen(r3) and isinstance(r2, I.Z) and r1.e.eq(r2.e) and not r1.e.eq(r3.e)
        if not ok:
            run.obligation(name, "refuted", detail=f"the copy of a cyclic nonterminal X is named {_show(r1)}: not a fresh symbol (it may already be a symbol of the grammar) "
                           "or not one name per X", model={"bot(X)": _show(r1), "bot(X) again": _show(r2), "bot(Y)": _show(r3)},
                           replay=dict(replayed=False, hint="Earley(g.unarycycleremove()) on N0->eps|N0 N0|N1 N1, N1->N0 N0 N1|a|N1"),
                           signature="unarycycleremove:bot-name")
            return
    run.obligation(name, "proved", backend="pyvc", detail="bot(X) for cyclic X is a _gen_nt() symbol (fresh by assumption A), memoised per X, distinct for distinct X")


def _show(v):
    if isinstance(v, I.Z):
        return str(v.e)
    if isinstance(v, tuple):
        return "(" + ", ".join(_show(x) for x in v) + ")"
    return repr(v)


def proved(run):
    run.trust("pyvc symbolic interpreter over the real AST (generic-rule loop cut)", f"z3 {z3.get_version_string()}")
    run.assume("T-TRIM, T-BIN, T-SEP, T-UNFOLD, T-RENAME, T-NULL, T-UNARY: each textbook construction preserves the derivation sum (DESIGN App. B) - assumed; "
               "conformance of the code to the construction is proved where listed, the property itself is checked bounded",
               "A: _gen_nt freshness; rename's f injective (precondition of the property)",
               "CLOSURE(G) for closure_scc_based [bounded in C15]")
    for f in (rename, separate_start, unfold, unaryremove, fresh_names_bot, nullaryremove_provenance):
        try:
            f(run)
        except (I.OutOfSubset, KeyError) as e:
            run.obligation(f"C06/{f.__name__}", "out-of-subset", role=AUX, detail=str(e))


def nullaryremove_provenance(run):
    """C06/cfg.CFG.nullaryremove/pushes-null-weights-of-the-same-grammar (auxiliary): executing the real body over grammar tokens,
    the chart handed to _push_null_weights is the null_weight() of the very grammar it is applied to (after separate_start and,
    with binarize=True, after binarisation: the fold nonterminals must have their null weights in the chart)."""
    from props import C07_proved
    any_tbl = {k: (lambda a, kw: ([], [], [])) for k in ("separate_terminals", "binarize", "separate_start", "_push_null_weights", "trim", "unaryremove")}
    for bz in (True, False):
        C07_proved.compose(run, "CFG.nullaryremove", f"C06/cfg.CFG.nullaryremove/pushes-null-weights-of-the-same-grammar[binarize={bz}]",
                           any_tbl, start=set(), kwargs=dict(binarize=bz), want=set(), provenance=True, role=AUX)


"""PROVED-class obligations of C13: see props/constructions.py."""
import z3

from props import constructions as C
from props import constructions2 as C2
from vlib.pyvc import interp as I


def proved(run):
    run.trust("pyvc symbolic interpreter over the real AST", f"z3 {z3.get_version_string()}")
    run.assume('T-PUSH: diagonal conjugacy preserves every path weight (telescoping; the per-arc identity is proved)', 'contract of WFSA.backward: V = stop + A V [bounded in C15]', 'T-DET, T-BRZ (assumed)')
    for f in (C.push, C2.c13_determinize):
        try:
            f(run)
        except (I.OutOfSubset, KeyError) as e:
            run.obligation("C13/" + f.__name__, "out-of-subset", detail=str(e))
    from props import frames_automata
    frames_automata.run_frames(run, "C13")

"""More construction-conformance / structural obligations (C11, C12, C13, C15, C19), from the current source.

  C11/wfsa.base.WFSA.epsremove/no-epsilon-arcs       (property)  +  /construction (auxiliary)
  C12/wfsa.base.WFSA.<op>/construction               __add__, __mul__, kleene_plus, reverse, lift, from_string   (auxiliary)
  C12/wfsa.base.WFSA.rename_apart/disjoint-tags      (property: operands get disjoint state sets)
  C13/wfsa.base.WFSA.determinize/one-arc-per-symbol  (property)   /single-initial-state (property)
  C15/linear.WeightedGraph.__setitem__/wf            (property)   buckets/B5, _closure/singleton (auxiliary)
  C19/lark_interface.LarkStuff.convert/uniform       (property: weights of the rules of one left-hand side sum to one)
"""
import ast

import z3

from vlib.pyvc import interp as I, smt, source, symstruct as S, gharness as G
from props.constructions import Machine, _multiset_equal, _show, conformance

Bag = G.Bag
BASE = "genlm/grammar/wfsa/base.py"
LIN = "genlm/grammar/linear.py"
LARK = "genlm/grammar/lark_interface.py"
AUX = "auxiliary"
EPS = ""


def W(n):
    return I.Z(z3.Const(n, G.W))


class Src:
    """An input automaton with one generic initial state, final state, symbol arc and epsilon arc."""

    def __init__(self, tag, path=None):
        t = tag
        self.qi, self.qf, self.p, self.q, self.p2, self.q2 = (S.sym(f"{n}_{t}") for n in ("qi", "qf", "p", "q", "p2", "q2"))
        self.a = S.sym(f"a_{t}")
        self.wi, self.wf, self.w1, self.w2 = (W(f"{n}_{t}") for n in ("wi", "wf", "w1", "w2"))
        self.Ilist = [(self.qi, self.wi)]
        self.Flist = [(self.qf, self.wf)]
        self.arclist = [(self.p, self.a, self.q, self.w1), (self.p2, EPS, self.q2, self.w2)]
        self.spawned = []

    def obj(self, **extra):
        def spawn(it, a, k):
            m = Machine()
            m.flags = dict(k)
            if k.get("keep_init"):
                m.I += [tuple(x) for x in self.Ilist]
            if k.get("keep_arcs"):
                m.arcs += [tuple(x) for x in self.arclist]
            if k.get("keep_stop"):
                m.F += [tuple(x) for x in self.Flist]
            self.spawned.append(m)
            return m
        f = dict(I=list(self.Ilist), F=list(self.Flist), arcs=I.Native("arcs", lambda it, a, k: list(self.arclist)),
                 spawn=I.Native("spawn", spawn), R=Bag(one=W("R_one"), zero=I.Z(G.w0)))
        f.update(extra)
        return Bag(**f)


def _binary(run, op, want):
    name = f"C12/wfsa.base.WFSA.{op}/construction"
    fn = source.find(BASE, "WFSA." + op)
    run.function_under_contract("genlm.grammar.wfsa.base.WFSA." + op, source.sha(fn))

    def harness(path):
        it = I.Interp(path, uf=G.UF)
        A, B = Src("A"), Src("B")
        a_obj, b_obj = A.obj(), B.obj()
        selfobj = Bag(rename_apart=I.Native("rename_apart", lambda i2, x, k: (a_obj, b_obj)))   # contract: disjoint copies
        fobj = I.FuncObj(fn, I.Env(None, {"EPSILON": EPS}), "WFSA." + op)
        ret = it.call_func(fobj, [selfobj, "other"], {})
        if not (A.spawned and ret is A.spawned[0]):
            raise I.OutOfSubset("result is not spawned from the (renamed) left operand")
        ret.want = want(A, B)
        return ret

    conformance(run, name, harness, lambda m: m.want)


def c12(run):
    _binary(run, "__add__", lambda A, B: (A.Ilist + B.Ilist, A.Flist + B.Flist, A.arclist + B.arclist))
    _binary(run, "__mul__", lambda A, B: (A.Ilist, B.Flist, A.arclist + B.arclist + [(A.qf, EPS, B.qi, I.Z(G.wmul(A.wf.e, B.wi.e)))]))
    # kleene_plus
    fn = source.find(BASE, "WFSA.kleene_plus")
    run.function_under_contract("genlm.grammar.wfsa.base.WFSA.kleene_plus", source.sha(fn))

    def h_plus(path):
        it = I.Interp(path, uf=G.UF)
        A = Src("A")
        fobj = I.FuncObj(fn, I.Env(None, {"EPSILON": EPS}), "WFSA.kleene_plus")
        ret = it.call_func(fobj, [A.obj()], {})
        ret.want = (A.Ilist, A.Flist, A.arclist + [(A.qf, EPS, A.qi, I.Z(G.wmul(A.wf.e, A.wi.e)))])
        return ret

    conformance(run, "C12/wfsa.base.WFSA.kleene_plus/construction", h_plus, lambda m: m.want)
    # reverse
    fn_r = source.find(BASE, "WFSA.reverse")
    run.function_under_contract("genlm.grammar.wfsa.base.WFSA.reverse", source.sha(fn_r))

    def h_rev(path):
        it = I.Interp(path, uf=G.UF)
        A = Src("A")
        fobj = I.FuncObj(fn_r, I.Env(None, {"EPSILON": EPS}), "WFSA.reverse")
        ret = it.call_func(fobj, [A.obj()], {})
        ret.want = ([(A.qf, A.wf)], [(A.qi, A.wi)], [(A.q, A.a, A.p, A.w1), (A.q2, EPS, A.p2, A.w2)])
        return ret

    conformance(run, "C12/wfsa.base.WFSA.reverse/construction", h_rev, lambda m: m.want)
    # lift
    fn_l = source.find(BASE, "WFSA.lift")

    def h_lift(path):
        it = I.Interp(path, uf=G.UF)
        m = Machine()
        one = W("R_one")
        x, w = S.sym("x"), W("w")
        R = Bag(one=one)
        fobj = I.FuncObj(fn_l, I.Env(None, {}), "WFSA.lift")
        ret = it.call_func(fobj, [I.Native("cls", lambda i2, a, k: m), x, w], {"R": R})
        if ret is not m:
            raise I.OutOfSubset("lift does not return the machine it builds")
        m.want = ([(0, one)], [(1, one)], [(0, x, 1, w)])
        return m

    conformance(run, "C12/wfsa.base.WFSA.lift/construction", h_lift, lambda m: m.want)
    # from_string
    fn_s = source.find(BASE, "WFSA.from_string")
    run.function_under_contract("genlm.grammar.wfsa.base.WFSA.from_string", source.sha(fn_s))

    def h_fs(path):
        it = I.Interp(path, uf=G.UF)
        m = Machine()
        one = W("R_one")
        xs = ("x0", "x1", "x2")
        fobj = I.FuncObj(fn_s, I.Env(None, {}), "WFSA.from_string")
        ret = it.call_func(fobj, [I.Native("cls", lambda i2, a, k: m), xs, Bag(one=one)], {})
        if ret is not m:
            raise I.OutOfSubset("from_string does not return the machine it builds")
        m.want = ([((), one)], [(xs, one)], [(xs[:i], xs[i], xs[:i + 1], one) for i in range(3)])
        return m

    conformance(run, "C12/wfsa.base.WFSA.from_string/construction", h_fs, lambda m: m.want)
    # rename_apart: the two renamings use distinct tags under one injective numbering
    name = "C12/wfsa.base.WFSA.rename_apart/disjoint-tags"
    fn_ra = source.find(BASE, "WFSA.rename_apart")
    run.function_under_contract("genlm.grammar.wfsa.base.WFSA.rename_apart", source.sha(fn_ra))
    seen = {}

    def h_ra(path):
        it = I.Interp(path)
        keys = []
        integerizer = I.Native("f", lambda i2, a, k: (keys.append(a[0]), ("id", a[0]))[1])

        def rename(tag):
            def f(i2, a, k):
                q = S.sym("q")
                seen[tag] = i2.call(a[0], [q], {})
                return tag
            return I.Native("rename", f)

        fobj = I.FuncObj(fn_ra, I.Env(None, {"Integerizer": I.Native("Integerizer", lambda i2, a, k: integerizer)}), "WFSA.rename_apart")
        return it.call_func(fobj, [Bag(rename=rename("self")), Bag(rename=rename("other"))], {})

    try:
        res = I.explore(h_ra, prune=False)
        a, b = seen.get("self"), seen.get("other")
        ok = (res and res[0][1] == ("self", "other") and isinstance(a, tuple) and isinstance(b, tuple) and a[0] == "id" and b[0] == "id"
              and isinstance(a[1], tuple) and isinstance(b[1], tuple) and a[1][0] != b[1][0] and a[1][0] in (0, 1) and b[1][0] in (0, 1))
        if ok:
            run.obligation(name, "proved", backend="pyvc", detail="states are numbered through one Integerizer on keys (0, q) resp. (1, q): disjoint images (injectivity of Integerizer assumed, A7)")
        else:
            run.obligation(name, "refuted", detail=f"renamings {a!r} / {b!r} do not use distinct tags", replay=dict(replayed=False), signature="rename_apart")
    except (I.OutOfSubset, I.PyRaise) as e:
        run.obligation(name, "out-of-subset", detail=str(e))


def c11_epsremove(run):
    fn = source.find(BASE, "WFSA.epsremove")
    run.function_under_contract("genlm.grammar.wfsa.base.WFSA.epsremove", source.sha(fn))
    n1, n2 = "C11/wfsa.base.WFSA.epsremove/no-epsilon-arcs", "C11/wfsa.base.WFSA.epsremove/construction"
    Sf = z3.Function("Sclosure", S.SYM, S.SYM, G.W)
    k1 = S.sym("k")

    class Clo:
        def __pyvc_getitem__(self, interp, key, node):
            return I.Z(Sf(I.zexpr(key[0]), I.zexpr(key[1])))

        def __pyvc_getattr__(self, interp, nm, node):
            if nm == "outgoing":
                class Out:
                    def __pyvc_getitem__(s2, interp2, key, node2):
                        return [k1]
                return Out()
            raise I.OutOfSubset("closure." + nm)

    def harness(path):
        it = I.Interp(path, uf=G.UF)
        A = Src("A")
        selfobj = A.obj(E=Bag(closure=I.Native("closure", lambda i2, a, k: Clo())))
        fobj = I.FuncObj(fn, I.Env(None, {"EPSILON": EPS}), "WFSA.epsremove")
        ret = it.call_func(fobj, [selfobj], {})
        ret.src = A
        return ret

    try:
        results = I.explore(harness, prune=True)
    except (I.OutOfSubset, I.PyRaise) as e:
        run.obligation(n1, "out-of-subset", detail=str(e))
        return
    bad_eps = False
    conf = True
    why = None
    for path, m in results:
        A = m.src
        for arc in m.arcs:
            if arc[1] == EPS:
                bad_eps = True
        want_arcs = [(A.p, A.a, k1, I.Z(G.wmul(A.w1.e, Sf(A.q.e, k1.e))))]
        # the symbolic label A.a may equal EPSILON only if the code says so: labels are symbols here, so the symbol arc is kept
        ok_a, why_a = _multiset_equal(m.arcs, want_arcs)
        ok_i, why_i = _multiset_equal(m.I, [(k1, I.Z(G.wmul(A.wi.e, Sf(A.qi.e, k1.e))))])
        ok_f, why_f = _multiset_equal(m.F, A.Flist)
        if not (ok_a and ok_i and ok_f and m.flags.get("keep_stop") and not m.flags.get("keep_arcs") and not m.flags.get("keep_init")):
            conf = False
            why = why_a or why_i or why_f
        from props.constructions import overwriting
        if overwriting(m):
            # several paths i -a-> j -eps*-> k land on the same new arc (i, a, k): their weights must add up
            conf = False
            why = ("overwrites", (overwriting(m)[0],))
    if bad_eps:
        run.obligation(n1, "refuted", detail="an epsilon-labelled arc is copied into the result", replay=dict(replayed=False), signature="epsremove:eps-arc")
    else:
        run.obligation(n1, "proved", backend="pyvc", detail="no add_arc with label EPSILON on any path; the epsilon arc of the input is skipped")
    if conf:
        run.obligation(n2, "proved", role=AUX, backend="pyvc", detail="start' = start*S[i,k], arcs (i,a,k): w*S[j,k] for k in S.outgoing[j], stop kept")
    else:
        run.obligation(n2, "refuted", role=AUX, backend="pyvc", detail=f"differs from closure pushing: {why[0]} {_show(why[1])}" if why else "flags differ",
                       replay=dict(replayed=False), signature="epsremove:construction")


def c13_determinize(run):
    fn = source.find(BASE, "WFSA.determinize")
    run.function_under_contract("genlm.grammar.wfsa.base.WFSA.determinize", source.sha(fn))
    n1, n2 = "C13/wfsa.base.WFSA.determinize/one-arc-per-symbol", "C13/wfsa.base.WFSA.determinize/single-initial-state"
    # (i) _powerarcs yields exactly one (a, Q, w) per alphabet symbol
    pa = [n for n in ast.walk(fn) if isinstance(n, ast.FunctionDef) and n.name == "_powerarcs"]
    wl = source.loops(fn, (ast.While,))
    if not pa or len(wl) != 1:
        run.obligation(n1, "out-of-subset", detail="expected helper _powerarcs and one work-list loop")
        return
    src_loop = ast.unparse(wl[0])
    pushes = [n for n in ast.walk(wl[0]) if isinstance(n, ast.Call) and ast.unparse(n.func) == "stack.append"]
    guarded = all(_guarded_by_not_visited(wl[0], p) for p in pushes) and "visited.add(Q)" in src_loop
    adds_i = [n for n in ast.walk(fn) if isinstance(n, ast.Call) and ast.unparse(n.func) == "D.add_I"]
    in_loop = any(isinstance(l, (ast.For, ast.While)) and any(c is n for c in ast.walk(l)) for l in source.loops(fn) for n in adds_i)

    def harness(path):
        it = I.Interp(path)
        Rl = lambda n: I.Z(z3.Real(n))     # noqa: E731  (determinisation needs a field: reals)
        path.assume(z3.Real("Wsum") != 0)   # zero-sum-free weights (stated precondition of determinize)
        it_self = Bag(alphabet=["a1", "a2"], R=Bag(chart=I.Native("chart", lambda i2, a, k: Counter_()), zero=0, one=1),
                      arcs=I.Native("arcs", lambda i2, a, k: [("a1", "j1", Rl("v1"))]))
        env = I.Env(None, {"self": it_self, "frozendict": I.Native("frozendict", lambda i2, a, k: ("frozen", a[0])), "sum": I.Native("sum", lambda i2, a, k: Rl("Wsum"))})
        it.exec_stmt(pa[0], env)
        gen = it.call(env.get("_powerarcs"), [{"i0": Rl("u0")}], {})
        return [x[0] for x in gen.items]

    class Counter_:
        def __init__(self):
            self.d = {}

        def __pyvc_getitem__(self, interp, k, node):
            return self.d.get(k, 0)

        def __pyvc_setitem__(self, interp, k, v):
            self.d[k] = v

        def __pyvc_iter__(self, interp):
            return list(self.d)

        def __pyvc_getattr__(self, interp, nm, node):
            if nm == "values":
                return I.Native("values", lambda i2, a, k: list(self.d.values()))
            if nm == "items":
                return I.Native("items", lambda i2, a, k: list(self.d.items()))
            raise I.OutOfSubset("chart." + nm)

    try:
        res = I.explore(harness, prune=True)
        labels_ok = all(sorted(r) == ["a1", "a2"] for _, r in res) and res
    except (I.OutOfSubset, I.PyRaise) as e:
        run.obligation(n1, "out-of-subset", detail=str(e))
        labels_ok = None
    if labels_ok is not None:
        if labels_ok and guarded:
            run.obligation(n1, "proved", backend="pyvc", detail="_powerarcs yields exactly one target per alphabet symbol; every state set is pushed at most once (guarded by `not in visited`), so each (P, a) gets one add_arc")
        else:
            run.obligation(n1, "refuted", detail=f"one-target-per-symbol={bool(labels_ok)}, pushed-once={guarded}", replay=dict(replayed=False),
                           signature="determinize:one-arc")
    if len(adds_i) == 1 and not in_loop:
        run.obligation(n2, "proved", backend="ast", detail="exactly one D.add_I call, outside every loop")
    else:
        run.obligation(n2, "refuted", detail=f"{len(adds_i)} add_I calls (in a loop: {in_loop})", replay=dict(replayed=False), signature="determinize:single-initial")


def _guarded_by_not_visited(loop, call):
    for n in ast.walk(loop):
        if isinstance(n, ast.If) and any(c is call for c in ast.walk(n)):
            t = ast.unparse(n.test)
            if "not in visited" in t:
                return True
    return False


def c15(run):
    # __setitem__ wf
    name = "C15/linear.WeightedGraph.__setitem__/wf"
    fn = source.find(LIN, "WeightedGraph.__setitem__")
    run.function_under_contract("genlm.grammar.linear.WeightedGraph.__setitem__", source.sha(fn))

    def harness(path):
        it = I.Interp(path, uf=G.UF)
        N, E, inc, out = set(), {}, {}, {}

        class DD:
            def __init__(self, d):
                self.d = d

            def __pyvc_getitem__(self, interp, k, node):
                return self.d.setdefault(k, set())

        class EE:
            def __pyvc_setitem__(self, interp, k, v):
                E[k] = v

        selfobj = Bag(N=N, E=EE(), incoming=DD(inc), outgoing=DD(out), WeightType=Bag(zero=I.Z(G.w0)))
        v = W("value")
        fobj = I.FuncObj(fn, I.Env(None, {}), "WeightedGraph.__setitem__")
        it.call_func(fobj, [selfobj, ("i", "j"), v], {})
        return N, E, inc, out, v

    # __init__ establishes the invariant the harness above starts from: incoming / outgoing map every node to a *set* (no successor is
    # listed twice, whatever the number of assignments to an edge), N is an empty set
    name0 = "C15/linear.WeightedGraph.__init__/wf"
    fn0 = source.find(LIN, "WeightedGraph.__init__")
    run.function_under_contract("genlm.grammar.linear.WeightedGraph.__init__", source.sha(fn0))
    try:
        it0 = I.Interp(I.Path([]))
        o0 = Bag()
        g0 = {"defaultdict": I.Native("defaultdict", lambda i2, a, k: ("defaultdict", a[0] if a else None))}
        it0.call_func(I.FuncObj(fn0, I.Env(None, g0), "WeightedGraph.__init__"), [o0, Bag(chart=I.Native("chart", lambda i2, a, k: "chart"))], {})
        f0 = o0.f
        setb = I.BUILTINS["set"]
        ok0 = f0.get("incoming") == ("defaultdict", setb) and f0.get("outgoing") == ("defaultdict", setb) and f0.get("N") == set() and f0.get("E") == "chart"
        if ok0:
            run.obligation(name0, "proved", backend="pyvc", detail="N = {} ; incoming, outgoing = defaultdict(set) ; E = WeightType.chart()")
        else:
            replay = dict(replayed=False, fields={k: repr(v)[:60] for k, v in f0.items()})
            try:
                from genlm.grammar.linear import WeightedGraph as RealWG
                from genlm.grammar.semiring import Float
                g = RealWG(Float)
                g["i", "j"] += 0.25
                g["i", "j"] += 0.25
                replay.update(input="G = WeightedGraph(Float); G['i','j'] += 0.25 (twice)", outgoing_i=repr(list(g.outgoing["i"])), incoming_j=repr(list(g.incoming["j"])))
                replay["replayed"] = list(g.outgoing["i"]) != ["j"] or list(g.incoming["j"]) != ["i"]
            except Exception as e:  # noqa: BLE001
                replay.update(native_error=repr(e), replayed=True)
            run.obligation(name0, "refuted", backend="pyvc", detail="adjacency maps are not defaultdict(set): " + repr({k: f0.get(k) for k in ("incoming", "outgoing")})[:150],
                           replay=replay, signature="WeightedGraph.__init__:wf")
    except (I.OutOfSubset, I.PyRaise) as e:
        run.obligation(name0, "out-of-subset", detail=str(e))
    try:
        res = I.explore(harness)
        ok = True
        for path, (N, E, inc, out, v) in res:
            zero = smt.prove(list(path.pc), v.e == G.w0)["verdict"] == "proved"
            if zero:
                ok &= (N == {"i", "j"} and not E and not inc and not out)
            else:
                ok &= (N == {"i", "j"} and list(E) == [("i", "j")] and E[("i", "j")] is v and inc == {"j": {"i"}} and out == {"i": {"j"}})
        if ok and len(res) == 2:
            run.obligation(name, "proved", backend="pyvc+z3", detail="non-zero value: E[i,j] set, i in incoming[j], j in outgoing[i]; zero value: only N grows (no zero entry stored)")
        else:
            run.obligation(name, "refuted", detail="WeightedGraph.wf broken by __setitem__", replay=dict(replayed=False), signature="WeightedGraph.__setitem__")
    except (I.OutOfSubset, I.PyRaise) as e:
        run.obligation(name, "out-of-subset", detail=str(e))
    # buckets (B5)
    name = "C15/linear.WeightedGraph.buckets/B5"
    fnb = source.find(LIN, "WeightedGraph.buckets")
    run.function_under_contract("genlm.grammar.linear.WeightedGraph.buckets", source.sha(fnb))
    try:
        it = I.Interp(I.Path([]))
        fobj = I.FuncObj(fnb, I.Env(None, {}), "WeightedGraph.buckets")
        d = it.call_func(fobj, [Bag(blocks=[frozenset(["a", "b"]), frozenset(["c"]), frozenset(["d", "e", "f"])])], {})
        if d == {"a": 0, "b": 0, "c": 1, "d": 2, "e": 2, "f": 2}:
            run.obligation(name, "proved", role=AUX, backend="pyvc", detail="buckets[x] = index of the block containing x")
        else:
            run.obligation(name, "refuted", role=AUX, detail=f"buckets = {d}", replay=dict(replayed=False), signature="buckets")
    except (I.OutOfSubset, I.PyRaise) as e:
        run.obligation(name, "out-of-subset", role=AUX, detail=str(e))
    # _closure on a singleton block
    name = "C15/linear.WeightedGraph._closure/singleton"
    fnc = source.find(LIN, "WeightedGraph._closure")
    run.function_under_contract("genlm.grammar.linear.WeightedGraph._closure", source.sha(fnc))
    try:
        it = I.Interp(I.Path([]), uf=G.UF)
        e = W("e_ii")
        starf = z3.Function("star", G.W, G.W)

        class E_:
            def __pyvc_getitem__(self, interp, k, node):
                return e if k == ("i", "i") else I.Z(G.w0)

        fobj = I.FuncObj(fnc, I.Env(None, {}), "WeightedGraph._closure")
        r = it.call_func(fobj, [Bag(E=E_(), WeightType=Bag(star=I.Native("star", lambda i2, a, k: I.Z(starf(a[0].e))))), "A", ["i"]], {})
        if isinstance(r, dict) and list(r) == [("i", "i")] and r[("i", "i")].e.eq(starf(e.e)):
            run.obligation(name, "proved", role=AUX, backend="pyvc", detail="|N| = 1: closure is {(i,i): star(E[i,i])}")
        else:
            run.obligation(name, "refuted", role=AUX, detail=f"singleton closure = {r!r}", replay=dict(replayed=False), signature="_closure:singleton")
    except (I.OutOfSubset, I.PyRaise) as e:
        run.obligation(name, "out-of-subset", role=AUX, detail=str(e))


def c19_convert(run):
    name = "C19/lark_interface.LarkStuff.convert/uniform"
    fn = source.find(LARK, "LarkStuff.convert")
    run.function_under_contract("genlm.grammar.lark_interface.LarkStuff.convert", source.sha(fn))
    from collections import Counter
    ok = True
    try:
        for k in (1, 2, 3, 5):
            adds = []

            class Cfg:
                def __pyvc_getattr__(self, interp, nm, node):
                    if nm == "add":
                        return I.Native("add", lambda i2, a, kw: adds.append(tuple(a)))
                    if nm == "renumber":
                        return I.Native("renumber", lambda i2, a, kw: self)
                    raise I.OutOfSubset("cfg." + nm)

            def name_(n):
                return Bag(name=n)

            rules = [Bag(lhs=name_("A"), rhs=[name_(f"t{j}")]) for j in range(k)] + [Bag(lhs=name_("start"), rhs=[name_("A")])]
            it = I.Interp(I.Path([]))
            g = {"Rule": I.Native("Rule", lambda i2, a, kw: Bag(w=a[0], head=a[1], body=a[2])), "Counter": I.Native("Counter", lambda i2, a, kw: dict(Counter(a[0]))),
                 "CFG": I.Native("CFG", lambda i2, a, kw: Cfg()), "Float": "Float"}
            fobj = I.FuncObj(fn, I.Env(None, g), "LarkStuff.convert")
            it.call_func(fobj, [Bag(rules=rules, terminals=[])], {})
            by_head = {}
            for a in adds:
                by_head.setdefault(a[1], []).append(a[0])
            for h, ws in by_head.items():
                if sum(ws) != 1:
                    ok = False
            if len(adds) != k + 1:
                ok = False
    except (I.OutOfSubset, I.PyRaise) as e:
        run.obligation(name, "out-of-subset", detail=str(e))
        return
    # vocabulary: every terminal of the Lark grammar - ignored ones included, they may also occur explicitly in a rule - is a terminal
    # of the converted grammar (else renumber() turns the occurrence into a nonterminal without rules and the derivations vanish)
    name_v = "C19/lark_interface.LarkStuff.convert/vocabulary"
    try:
        made = {}

        class Cfg2:
            def __pyvc_getattr__(self, interp, nm, node):
                if nm == "add":
                    return I.Native("add", lambda i2, a, kw: None)
                if nm == "renumber":
                    return I.Native("renumber", lambda i2, a, kw: self)
                raise I.OutOfSubset("cfg." + nm)

        def mk(i2, a, kw):
            made.update(kw)
            return Cfg2()

        nm_ = lambda n: Bag(name=n)   # noqa: E731
        it = I.Interp(I.Path([]))
        g = {"Rule": I.Native("Rule", lambda i2, a, kw: Bag(w=a[0], head=a[1], body=a[2])), "Counter": I.Native("Counter", lambda i2, a, kw: dict(Counter(a[0]))),
             "CFG": I.Native("CFG", mk), "Float": "Float"}
        selfobj = Bag(rules=[Bag(lhs=nm_("start"), rhs=[nm_("T0"), nm_("WS"), nm_("T1")])], terminals=[nm_("T0"), nm_("WS"), nm_("T1")],
                      ignore_terms=["WS"], ignore_regex="(?:WS)?")
        it.call_func(I.FuncObj(fn, I.Env(None, g), "LarkStuff.convert"), [selfobj], {})
        V = made.get("V")
        if isinstance(V, (set, frozenset)) and set(V) == {"T0", "WS", "T1"} and made.get("S") == "start" and made.get("R") == "Float":
            run.obligation(name_v, "proved", backend="pyvc", detail="V = names of all terminals (ignored ones included), S = 'start', R = Float")
        else:
            replay = dict(replayed=False, V=repr(V), S=repr(made.get("S")))
            try:
                from genlm.grammar.lark_interface import LarkStuff
                gtext = 'start: "a" (WS "b")* "c"\nWS: " "\n%ignore WS\n'
                cfg = LarkStuff(gtext).char_cfg()
                got = float(cfg("a bc"))
                replay.update(input=gtext, string="a bc", weight=got, expected="non-zero (the explicit WS occurrence is a terminal)")
                replay["replayed"] = got == 0.0
            except Exception as e:  # noqa: BLE001
                replay.update(native_error=repr(e), replayed=True)
            run.obligation(name_v, "refuted", backend="pyvc", detail=f"converted vocabulary {sorted(V) if isinstance(V, (set, frozenset)) else V!r} != all terminal names",
                           replay=replay, signature="convert:vocabulary")
    except (I.OutOfSubset, I.PyRaise) as e:
        run.obligation(name_v, "out-of-subset", detail=str(e))
    if ok:
        run.obligation(name, "proved", backend="pyvc (exact rationals)", detail="k = 1, 2, 3, 5 rules per left-hand side: weight 1/k each, sum exactly one")
    else:
        run.obligation(name, "refuted", detail="rule weights of one left-hand side do not sum to one", replay=dict(replayed=False), signature="convert:uniform")


def c19_char_cfg_wiring(run):
    """C19/lark_interface.LarkStuff._char_cfg/ignore-wiring and /disjoint-nonterminals: the real body executed on a small
    concrete token/rule list with recording stand-ins for convert / interegular_to_wfsa / to_bytes / to_cfg."""
    fn = source.find(LARK, "LarkStuff._char_cfg")
    run.function_under_contract("genlm.grammar.lark_interface.LarkStuff._char_cfg", source.sha(fn))
    n_wire, n_disj = "C19/lark_interface.LarkStuff._char_cfg/ignore-wiring", "C19/lark_interface.LarkStuff._char_cfg/disjoint-nonterminals"
    problems, disj_problems = [], []
    # terminal namings: neutral names, and names that look like "<terminal>_<state>" / "<terminal><state>" / a tuple's repr / the helper
    # prefix - a state key that is not structurally different from a symbol name collides with one of them
    namings = [("A", "WS", "NL"), ("A", "A_0", "A_1"), ("A", "A0", "A1"), ("A", "('A', 0)", "tmp"), ("A", "A 0", "tmp_A")]
    for (tA, tWS, tNL), with_ignore, to_bytes in [(nm_, wi_, tb_) for nm_ in namings for wi_ in (False, True) for tb_ in (False, True)]:
        if True:
            adds = []
            calls = []

            class Foo:
                def __init__(self, S):
                    self.S = S
                    self.V = set()
                    self.N = set()

                def __pyvc_getattr__(self, interp, nm, node):
                    if nm == "add":
                        def add(i2, a, k):
                            adds.append(tuple(a))
                            self.N.add(a[1])
                        return I.Native("add", add)
                    if nm in ("V", "N", "S"):
                        return getattr(self, nm)
                    raise I.OutOfSubset("foo." + nm)

                def __pyvc_setattr__(self, interp, nm, v):
                    setattr(self, nm, v)

            class Fsa:
                def __init__(self, tname, namefn, bytes_=False):
                    self.tname, self.namefn, self.bytes_ = tname, namefn, bytes_

                def __pyvc_getattr__(self, interp, nm, node):
                    if nm == "to_bytes":
                        return I.Native("to_bytes", lambda i2, a, k: Fsa(self.tname, self.namefn, True))
                    if nm == "to_cfg":
                        def to_cfg(i2, a, k):
                            # contract of to_cfg: nonterminals = S + the automaton's state names; V = its alphabet
                            st = [i2.call(self.namefn, [q], {}) for q in (0, 1)]
                            if self.bytes_:
                                st.append(f"_bytes{len(calls)}")     # unique per call (contract of to_bytes after the fix)
                            calls.append((self.tname, k.get("S"), k.get("recursion"), self.bytes_, tuple(st)))
                            sym = ord("a") if self.bytes_ else "a"
                            rules = [Bag(w=Fraction(1, 2), head=k["S"], body=(st[0],)), Bag(w=Fraction(1, 2), head=st[0], body=(sym, st[1])),
                                     Bag(w=1, head=st[1], body=())]
                            return Bag(V={sym}, __iter__=None, rules=rules, _it=rules)
                        return I.Native("to_cfg", to_cfg)
                    raise I.OutOfSubset("fsa." + nm)

            from fractions import Fraction
            ids = {}
            arsenal = Bag(Integerizer=I.Native("Integerizer", lambda i2, a, k: I.Native("intern", lambda i3, a3, k3: ids.setdefault(a3[0], len(ids)))))
            terminals = [Bag(name=tA, pattern=Bag(to_regexp=I.Native("to_regexp", lambda *x: "a"))),
                         Bag(name=tWS, pattern=Bag(to_regexp=I.Native("to_regexp", lambda *x: " "))),
                         Bag(name=tNL, pattern=Bag(to_regexp=I.Native("to_regexp", lambda *x: "n")))]
            rules0 = [Bag(w=1, head="start", body=(tA, tA))]

            class CfgTok:
                S = "start"
                V = {tA, tWS, tNL}

                def __pyvc_getattr__(self, interp, nm, node):
                    if nm in ("S", "V"):
                        return getattr(self, nm)
                    raise I.OutOfSubset("cfg." + nm)

                def __pyvc_iter__(self, interp):
                    return list(rules0)

            class GIter(Bag):
                def __pyvc_iter__(self, interp):
                    return list(self.f["rules"])

            def regex2fsa(i2, a, k):
                return Fsa({"a": tA, " ": tWS, "n": tNL}[a[0]], k["name"])

            foo_holder = {}

            def CFGc(i2, a, k):
                foo_holder["foo"] = Foo(k.get("S"))
                return foo_holder["foo"]

            selfobj = Bag(convert=I.Native("convert", lambda i2, a, k: CfgTok()), ignore_terms=([tWS, tNL] if with_ignore else []), terminals=terminals)   # two ignored terminals: alternatives, not a sequence
            g = {"arsenal": arsenal, "CFG": I.Native("CFG", CFGc), "Float": "Float", "interegular_to_wfsa": I.Native("i2w", regex2fsa),
                 "NotImplementedError": "NotImplementedError"}
            it = I.Interp(I.Path([]))
            # Bag results of to_cfg must be iterable over their rules
            orig_iterate = it.iterate

            def iterate(v, node=None):
                if isinstance(v, Bag) and "rules" in v.f:
                    return list(v.f["rules"])
                return orig_iterate(v, node)

            it.iterate = iterate
            fobj = I.FuncObj(fn, I.Env(None, g), "LarkStuff._char_cfg")
            try:
                ret = it.call_func(fobj, [selfobj], {"to_bytes": to_bytes})
            except I.PyRaise as e:
                problems.append(f"ignore={with_ignore} bytes={to_bytes}: raises {e.kind}: {e.msg}")
                continue
            except I.OutOfSubset as e:
                run.obligation(n_wire, "out-of-subset", role=AUX, detail=str(e))
                return
            N = lambda x: f"N{ids[x]}"      # noqa: E731
            want_top = [(1, N("start"), N(tA), N(tA))]
            have = [tuple(a) for a in adds]
            if not all(any(h == w for h in have) for w in want_top):
                problems.append(f"ignore={with_ignore}: renamed rule grammar missing")
            if with_ignore:
                ign = N("$IGNORE")
                need = [(1, ign), (1, ign, N(tWS)), (1, ign, N(tNL)), (1, N(tA), ign, N(("tmp", tA)))]
                for w in need:
                    if w not in have:
                        problems.append(f"ignore wiring: missing rule {w}")
                ign_rules = sorted((h for h in have if len(h) > 1 and h[1] == ign), key=repr)
                if len(ign_rules) != 3:
                    problems.append(f"ignore wiring: $IGNORE has the rules {ign_rules}, expected exactly eps | WS | NL")
                starts = {c[0]: c[1] for c in calls}
                if starts.get(tA) != N(("tmp", tA)) or starts.get(tWS) != N(tWS) or starts.get(tNL) != N(tNL):
                    problems.append(f"ignore wiring: to_cfg start symbols {starts}")
            else:
                starts = {c[0]: c[1] for c in calls}
                if starts != {tA: N(tA), tWS: N(tWS), tNL: N(tNL)}:
                    problems.append(f"to_cfg start symbols {starts}")
            # disjointness: state names of different terminals never coincide, nor with rule nonterminals, nor with terminals
            pools = [set(c[4]) for c in calls]
            for x_ in range(len(pools)):
                for y_ in range(x_ + 1, len(pools)):
                    if pools[x_] & pools[y_]:
                        disj_problems.append(f"terminals share automaton nonterminals {pools[x_] & pools[y_]} (bytes={to_bytes})")
            # ... nor with the nonterminals of the rule grammar, the terminals' own start symbols, $IGNORE and the tmp helpers
            outer = {f"N{v}" for k_, v in ids.items() if k_ in ("start", "$IGNORE", tA, tWS, tNL)} | {c[1] for c in calls}
            for c in calls:
                if set(c[4]) & outer:
                    disj_problems.append(f"automaton states of terminal {c[0]!r} are named like grammar symbols {sorted(set(c[4]) & outer)} "
                                         f"(terminals {tA!r}, {tWS!r}, {tNL!r}; bytes={to_bytes})")
            foo = foo_holder["foo"]
            if foo.N & foo.V:
                disj_problems.append(f"nonterminal/terminal name clash {foo.N & foo.V}")
    if problems:
        run.obligation(n_wire, "refuted", role=AUX, backend="pyvc", detail=problems[0], replay=dict(replayed=False, problems=problems), signature="_char_cfg:wiring")
    else:
        run.obligation(n_wire, "proved", role=AUX, backend="pyvc", detail="rule grammar renamed through f; $IGNORE -> eps | ignored terminals; tok -> $IGNORE tmp with tmp the start of the terminal's own grammar; 4 configurations x 5 terminal namings")
    if disj_problems:
        run.obligation(n_disj, "refuted", backend="pyvc", detail=disj_problems[0], replay=dict(replayed=False, problems=disj_problems), signature="_char_cfg:disjoint")
    else:
        run.obligation(n_disj, "proved", backend="pyvc", detail="automaton states are named f((terminal, state)): disjoint across terminals and from rule nonterminals (Integerizer injective, A7); byte chain states unique per call; N and V disjoint")


def c17_to_bytes_fresh(run):
    """C17/wfsa.base.WFSA.to_bytes/chain: a k-byte label becomes a chain of k arcs through k-1 new states, weight on the last arc;
    /fresh-chain-states: the new states of two calls are disjoint from each other and from the input states."""
    import itertools
    fn = source.find(BASE, "WFSA.to_bytes")
    run.function_under_contract("genlm.grammar.wfsa.base.WFSA.to_bytes", source.sha(fn))
    n_chain, n_fresh = "C17/wfsa.base.WFSA.to_bytes/chain", "C17/wfsa.base.WFSA.to_bytes/fresh-chain-states"
    # module-level state the function may use (read from the current source)
    mod = source.module_ast(BASE)
    genv = {"EPSILON": "", "ValueError": "ValueError", "next": I.Native("next", lambda i2, a, k: next(a[0])),
            "itertools": Bag(count=I.Native("itertools.count", lambda i2, a, k: itertools.count(*a)))}
    for st in mod.body:
        if isinstance(st, ast.Assign) and isinstance(st.value, ast.Call) and ast.unparse(st.value) == "itertools.count()":
            genv[ast.unparse(st.targets[0])] = itertools.count()
    w = W("w")
    one = W("R_one")
    results = []
    try:
        for call_no in range(2):
            it = I.Interp(I.Path([]), uf=G.UF)
            m = Machine()
            selfobj = Bag(R=Bag(one=one), spawn=I.Native("spawn", lambda i2, a, k: m),
                          arcs=I.Native("arcs", lambda i2, a, k: [("p", "é", "q", w), ("p", "a", "q", w), ("q", "", "p", w), ("p", "€", "q", w), ("p", "\u4e38", "q", w)]))   # U+4E38 = e4 b8 b8: last byte recurs
            fobj = I.FuncObj(fn, I.Env(None, dict(genv)), "WFSA.to_bytes")
            ret = it.call_func(fobj, [selfobj], {})
            if ret is not m:
                raise I.OutOfSubset("to_bytes does not return the spawned machine")
            results.append(m)
    except (I.OutOfSubset, I.PyRaise) as e:
        run.obligation(n_chain, "out-of-subset", role=AUX, detail=str(e))
        run.obligation(n_fresh, "out-of-subset", detail=str(e))
        return
    ok_chain = True
    news = []
    for m in results:
        arcs = [(_c(a[0]), a[1], _c(a[2]), a[3]) for a in m.arcs]
        new_states = {s for a in arcs for s in (a[0], a[2])} - {"p", "q"}
        news.append(new_states)
        be = list("é".encode()), list("€".encode()), list("\u4e38".encode())
        for bs in be:
            # follow the chain p -bs[0]-> s1 -...-> q
            cur, wts = "p", []
            for k, b in enumerate(bs):
                nxt = [a for a in arcs if a[0] == cur and a[1] == b and (a[2] == "q") == (k == len(bs) - 1) and (k == 0 or cur in new_states)]
                nxt = [a for a in nxt if k < len(bs) - 1 and a[2] in new_states or k == len(bs) - 1]
                if len(nxt) != 1:
                    ok_chain = False
                    break
                wts.append(nxt[0][3])
                cur = nxt[0][2]
            else:
                if not (all(x.e.eq(one.e) for x in wts[:-1]) and wts[-1].e.eq(w.e)):
                    ok_chain = False
        if not any(a == ("p", ord("a"), "q", w) or (a[0], a[1], a[2]) == ("p", ord("a"), "q") for a in arcs) or not any((a[0], a[1], a[2]) == ("q", "", "p") for a in arcs):
            ok_chain = False
        if len(new_states) != 5:       # é: 1 intermediate state, €: 2, U+4E38: 2
            ok_chain = False
    if ok_chain:
        run.obligation(n_chain, "proved", role=AUX, backend="pyvc", detail="2- and 3-byte labels become chains through 1 resp. 2 new states with weight one on all but the last arc; single-byte and epsilon arcs unchanged")
    else:
        run.obligation(n_chain, "refuted", role=AUX, backend="pyvc", detail="multi-byte arc is not expanded into a chain with the weight on the last arc", replay=dict(replayed=False), signature="to_bytes:chain")
    if news[0] & news[1]:
        replay = dict(replayed=False, hint="LarkStuff('start: A B\\nA: \"é\"\\nB: \"ü\"').byte_cfg() accepts 'üé'")
        try:
            from genlm.grammar.wfsa.base import WFSA as RealWFSA
            from genlm.grammar.semiring import Float
            m1, m2 = RealWFSA.from_string("é", Float), RealWFSA.from_string("ü", Float)
            b1, b2 = m1.to_bytes(), m2.to_bytes()
            shared = (set(b1.states) - set(m1.states)) & (set(b2.states) - set(m2.states))
            replay.update(input="WFSA.from_string('é', Float).to_bytes() and WFSA.from_string('ü', Float).to_bytes()", shared_chain_states=sorted(map(str, shared)),
                          expected="no chain state in common")
            replay["replayed"] = bool(shared)
        except Exception as e:  # noqa: BLE001
            replay.update(native_error=repr(e))
        run.obligation(n_fresh, "refuted", backend="pyvc", detail=f"two to_bytes() calls reuse the chain-state names {sorted(news[0] & news[1])}: automata merged into one grammar share states",
                       replay=replay, signature="to_bytes:fresh-states")
    else:
        run.obligation(n_fresh, "proved", backend="pyvc", detail="chain states of two calls are pairwise distinct (module-level counter) and differ from the input's states")


def _c(x):
    return x


class NCPoly:
    """Element of the free (non-commutative) semiring N<atoms>: dict ordered-monomial -> natural coefficient."""

    def __init__(self, t):
        self.t = {m: c for m, c in t.items() if c}

    @staticmethod
    def atom(n):
        return NCPoly({(n,): 1})

    def __pyvc_binop__(self, interp, op, other, reflected, node):
        if not isinstance(other, NCPoly):
            raise I.OutOfSubset("NCPoly with " + type(other).__name__)
        a, b = (other, self) if reflected else (self, other)
        if isinstance(op, ast.Add):
            r = dict(a.t)
            for m, c in b.t.items():
                r[m] = r.get(m, 0) + c
            return NCPoly(r)
        if isinstance(op, ast.Mult):
            r = {}
            for m1, c1 in a.t.items():
                for m2, c2 in b.t.items():
                    r[m1 + m2] = r.get(m1 + m2, 0) + c1 * c2
            return NCPoly(r)
        raise I.OutOfSubset("operator on semiring element")

    def __eq__(self, other):
        return isinstance(other, NCPoly) and self.t == other.t

    def __hash__(self):
        return hash(frozenset(self.t.items()))

    def __repr__(self):
        return " + ".join((f"{c}*" if c != 1 else "") + (".".join(m) or "1") for m, c in sorted(self.t.items())) or "0"


def c15_closure_step(run):
    """C15/linear.WeightedGraph._closure/elimination-order: on a 2- and 3-node block with symbolic entries of a NON-commutative
    semiring, the real loop computes  new[i,k] = old[i,k] + old[i,j] * star(old[j,j]) * old[j,k]  (factors in path order)."""
    name = "C15/linear.WeightedGraph._closure/elimination-order"
    fn = source.find(LIN, "WeightedGraph._closure")

    class Chart:
        def __init__(self, d=None):
            self.d = dict(d or {})

        def __pyvc_getitem__(self, interp, k, node):
            return self.d.get(k, NCPoly({}))

        def __pyvc_setitem__(self, interp, k, v):
            self.d[k] = v

        def __pyvc_getattr__(self, interp, nm, node):
            if nm == "copy":
                return I.Native("copy", lambda i2, a, k: Chart(self.d))
            if nm == "clear":
                return I.Native("clear", lambda i2, a, k: self.d.clear())
            raise I.OutOfSubset("chart." + nm)

    def star(x):
        return NCPoly.atom("star(" + repr(x) + ")")

    def reference(E, N):
        old = dict(E)
        g = lambda d, k: d.get(k, NCPoly({}))    # noqa: E731
        mul = lambda a, b: a.__pyvc_binop__(None, ast.Mult(), b, False, None)   # noqa: E731
        add = lambda a, b: a.__pyvc_binop__(None, ast.Add(), b, False, None)    # noqa: E731
        for j in N:
            s = star(g(old, (j, j)))
            new = {}
            for i in N:
                for k in N:
                    new[i, k] = add(g(old, (i, k)), mul(mul(g(old, (i, j)), s), g(old, (j, k))))
            old = new
        for i in N:
            old[i, i] = add(g(old, (i, i)), NCPoly({(): 1}))
        return old

    try:
        for N in (["p", "q"], ["p", "q", "r"]):
            E = {(a, b): NCPoly.atom(f"e_{a}{b}") for a in N for b in N}
            it = I.Interp(I.Path([]))
            selfobj = Bag(E=Chart(E), WeightType=Bag(star=I.Native("star", lambda i2, a, k: star(a[0])), one=NCPoly({(): 1}),
                                                      chart=I.Native("chart", lambda i2, a, k: Chart())))
            fobj = I.FuncObj(fn, I.Env(None, {}), "WeightedGraph._closure")
            got = it.call_func(fobj, [selfobj, "A", list(N)], {})
            want = reference(E, N)
            gd = got.d if isinstance(got, Chart) else got
            for k in want:
                if not (gd.get(k) == want[k]):
                    run.obligation(name, "refuted", role=AUX, backend="free non-commutative semiring", detail=f"|N|={len(N)}: entry {k} is {gd.get(k)!r}, Lehmann's elimination gives {want[k]!r}",
                                   replay=dict(replayed=False, entry=str(k)), signature="_closure:elimination-order")
                    return
    except (I.OutOfSubset, I.PyRaise) as e:
        run.obligation(name, "out-of-subset", role=AUX, detail=str(e))
        return
    run.obligation(name, "proved", role=AUX, backend="free non-commutative semiring", detail="2- and 3-node blocks with symbolic non-commuting entries: the result is Lehmann's elimination with factors in path order, plus the identity")


# ---------------------------------------------------------------------------------------------------------- C17: CFG.to_bytes
class _EncTok:
    """The block of UTF-8 bytes of one terminal, in order, treated as one opaque generic element (parametricity: the code may
    iterate the block, copy it with list() and splice it with extend(); any other use is out of the subset)."""

    def __init__(self, x):
        self.x = x

    def __repr__(self):
        return f"<utf8 {self.x}>"


class _EncList:
    def __init__(self, tok):
        self.tok = tok

    def __pyvc_iter__(self, interp):
        return [self.tok]

    def __iter__(self):          # list.extend(block) / list(block) performed by the interpreter's native list
        return iter([self.tok])


def c17_cfg_to_bytes(run):
    """C17/cfg.CFG.to_bytes/rule-homomorphism: for a generic rule (w, h, b_1..b_k), k = 0..3, of a generic grammar, on every path that
    does not raise ValueError (non-string terminal: documented), the result receives exactly one rule, unconditionally, with the same
    weight object and head and with body  t_1 .. t_k,  t_j = utf8(b_j) if b_j is a terminal else b_j ;  every utf8 block that occurs
    in a body is added to the new alphabet; start symbol and semiring are those of the input.  Weights of rules that coincide after
    encoding therefore accumulate in the rule multiset (CFG.add appends), which is what 'total weight of the symbol strings whose
    encoding it is' needs (T-UTF8: utf8 is injective on strings of characters, assumed)."""
    from props.C07_proved import Harness
    name = "C17/cfg.CFG.to_bytes/rule-homomorphism"
    h = Harness("CFG.to_bytes", lengths=[0, 1, 2, 3])
    pairs = [Harness("CFG.to_bytes", lengths=[k, k], together=True) for k in (0, 1, 2)]
    run.function_under_contract("genlm.grammar.cfg.CFG.to_bytes", source.sha(h.fn))
    isstr = z3.Function("is_str", S.SYM, z3.BoolSort())
    state = {}

    def hooks(it, gs, fn, genv):
        toks = {}

        def enc(i2, node, env):
            x = i2.eval(node.func.value, env)
            key = str(I.zexpr(x))
            if key not in toks:
                toks[key] = _EncTok(key)
            return _EncList(toks[key])
        state["toks"] = toks
        n_enc = 0
        for n in ast.walk(fn):
            if isinstance(n, ast.Call) and isinstance(n.func, ast.Attribute) and n.func.attr == "encode":
                it.expr_hooks[id(n)] = enc
                n_enc += 1
        if n_enc == 0:
            raise I.OutOfSubset("no .encode() call found")

        def isinst(i2, a, k):
            v, c = a
            if isinstance(v, I.Z) and c is str:
                return I.Z(isstr(v.e))
            return I._b_isinstance(i2, a, k)
        genv.vars["isinstance"] = I.Native("isinstance", isinst)
        genv.vars["list"] = I.Native("list", lambda i2, a, k: _EncList(a[0].tok) if a and isinstance(a[0], _EncList) else I._b_list(i2, a, k))

    def make_args(it, gs):
        return [], {}

    def post(it, gs, ret):
        return ret

    try:
        try:
            results = h.run(make_args, post, hooks)
        except I.OutOfSubset as e:
            if "carries state" not in str(e):
                raise
            results = []       # the one-rule abstraction does not apply: decide on the two-rule executions alone
            pairs.append(Harness("CFG.to_bytes", lengths=[1, 2], together=True))
        # two generic rules in one execution: an iteration must not interfere with another one (rules that produce the same
        # head and body are both kept)
        for hp in pairs:
            results += hp.run(make_args, post, hooks)
    except (I.OutOfSubset, I.PyRaise) as e:
        run.obligation(name, "out-of-subset", detail=str(e))
        return
    sites, why = 0, None
    work = []
    for path, r in results:
        gs = r["gs"]
        gens = list(gs.generic)
        if "raised" in r:
            if r["raised"].startswith("ValueError") and gens:
                # allowed exactly when some terminal of a body is not a string
                alts = [z3.And(gs.V.mem(I.zexpr(gen.body.at(None, j))), z3.Not(isstr(I.zexpr(gen.body.at(None, j)))))
                        for gen in gens for j in range(gen.body.length())]
                bad = z3.Or(*alts) if alts else z3.BoolVal(False)
                if smt.prove(list(path.pc), bad)["verdict"] == "proved":
                    continue
            if r["raised"].startswith("NameError"):
                run.obligation(name, "out-of-subset", detail="module-level name not supplied by the harness: " + r["raised"])
                return
            why = "raises " + r["raised"]
            break
        ret = r["goals"]
        if not isinstance(ret, G.GramRec):
            why = "does not return a spawned grammar"
            break
        if len(ret.adds) != len(gens):
            why = f"{len(ret.adds)} rules emitted for {len(gens)} input rules (path {path.taken})"
            break
        for gen, a in zip(gens, ret.adds):
            work.append((path, gs, ret, gen, a))
    for path, gs, ret, gen, a in ([] if why else work):
        sites += 1
        k = gen.body.length()
        goals = [z3.BoolVal(a["w"] is gen.w), I.zexpr(a["head"]) == gen.head.e, z3.BoolVal(ret.f["S"] is gs.S), z3.BoolVal(ret.f["R"] is gs.R)]
        n = a["body"].length()
        if not isinstance(n, int) or n != k:
            why = f"body of length {n} for a rule of length {k}"
            break
        newV = ret.f["V"]
        for j in range(k):
            bj = gen.body.at(None, j)
            tj = a["body"].at(None, j)
            is_t = gs.V.mem(I.zexpr(bj))
            if isinstance(tj, _EncTok):
                goals.append(is_t)
                goals.append(z3.BoolVal(tj.x == str(I.zexpr(bj))))
                goals.append(z3.BoolVal(isinstance(newV, set) and tj in newV))
            else:
                goals.append(z3.Not(is_t))
                goals.append(I.zexpr(tj) == I.zexpr(bj))
        for g in goals:
            if smt.prove(list(path.pc), g)["verdict"] != "proved":
                why = f"emitted rule differs from the specified one: {str(z3.simplify(g))[:120]}"
                break
        if why:
            break
    if why:
        replay = dict(replayed=False, why=why, hint="rules A -> 'ab' and A -> 'a' 'b' coincide after encoding; their weights must add up")
        try:
            # replay on the real code: three rules whose encodings coincide (one exact duplicate, one spelled-out variant)
            from genlm.grammar.cfg import CFG as RealCFG
            from genlm.grammar.semiring import Float
            g = RealCFG(R=Float, S="S", V={"ab", "a", "b", "é"})
            for w, body in ((0.25, ("ab",)), (0.5, ("ab",)), (0.125, ("a", "b")), (0.0625, ("é", "S"))):
                g.add(w, "S", *body)
            gb = g.to_bytes()
            got = sorted((float(r.w), tuple(r.body)) for r in gb.rules)
            want = sorted([(0.25, (97, 98)), (0.5, (97, 98)), (0.125, (97, 98)), (0.0625, (195, 169, "S"))])
            replay.update(input="S -> 'ab' [0.25] | 'ab' [0.5] | 'a' 'b' [0.125] | 'é' S [0.0625]", got=repr(got), want=repr(want),
                          got_V=repr(sorted(gb.V)), want_V="[97, 98, 169, 195]")
            replay["replayed"] = got != want or sorted(gb.V) != [97, 98, 169, 195]
        except Exception as e:  # noqa: BLE001
            replay["native_error"] = repr(e)
            replay["replayed"] = True
        run.obligation(name, "refuted", backend="pyvc+z3", detail=why, replay=replay, signature="cfg.CFG.to_bytes:rule-homomorphism")
    elif sites < 8:
        run.obligation(name, "out-of-subset", detail=f"vacuous: only {sites} emitted rules")
    else:
        run.obligation(name, "proved", backend="pyvc+z3", detail=f"{len(results)} paths over arity 0..3 x terminal/nonterminal x str/non-str; {sites} emitted rules")

"""PROVED-class obligations of C08 (total weights are the least solution of the grammar equations).

  C08/cfg.CFG.agenda/semi-naive[arity<=4]   for one popped (u, v) with new = old[u] + v and one rule of arity n <= 4 with any
        non-empty set P of positions holding u:   sum_{k in P} W_k  +  w * PROD(old)  =  w * PROD(old with u := new)
        - decided by expansion to polynomial normal form, which is complete for identities of commutative semirings
        (both sides are polynomials with natural coefficients in the free commutative semiring).  Loop-free, full-domain
        weights: complete for arity <= 4, labelled bounded-in-arity.
  C08/cfg.CFG.dependency_graph/edges        one edge head -> y per body symbol y of every rule
  C08/cfg.CFG.agenda/block-order            an update is never routed to a block that was already left
  C08/cfg.CFG._bottom_up_step/one-application   U[X] accumulates w * prod(V[nonterminals of body]) for a generic rule
  C08/cfg.CFG.expected_length/lifting       rule weight w becomes Expectation(w, w * #terminals(body))
"""
import ast
import itertools
from collections import Counter

import z3

from vlib.pyvc import interp as I, smt, source, symstruct as S, gharness as G

CFG = "genlm/grammar/cfg.py"
Bag = G.Bag


class Poly:
    """Element of the free commutative semiring N[atoms]: Counter(monomial -> natural coefficient)."""

    def __init__(self, terms):
        self.t = Counter({m: c for m, c in terms.items() if c})

    @staticmethod
    def atom(name):
        return Poly({(name,): 1})

    @staticmethod
    def const(n):
        return Poly({(): n}) if n else Poly({})

    def __pyvc_binop__(self, interp, op, other, reflected, node):
        o = other if isinstance(other, Poly) else (Poly.const(other) if isinstance(other, int) else None)
        if o is None:
            raise I.OutOfSubset("Poly with " + type(other).__name__)
        if isinstance(op, ast.Add):
            r = Counter(self.t)
            r.update(o.t)
            return Poly(r)
        if isinstance(op, ast.Mult):
            r = Counter()
            for m1, c1 in self.t.items():
                for m2, c2 in o.t.items():
                    r[tuple(sorted(m1 + m2))] += c1 * c2
            return Poly(r)
        raise I.OutOfSubset("operator on semiring element")

    def __pyvc_eq__(self, interp, other):
        return isinstance(other, Poly) and self.t == other.t

    def __eq__(self, other):
        return isinstance(other, Poly) and self.t == other.t

    def __hash__(self):
        return hash(frozenset(self.t.items()))

    def __repr__(self):
        return " + ".join((f"{c}*" if c != 1 else "") + ("*".join(m) or "1") for m, c in sorted(self.t.items())) or "0"


def semi_naive(run):
    name = "C08/cfg.CFG.agenda/semi-naive[arity<=4]"
    fn = source.find(CFG, "CFG.agenda")
    run.function_under_contract("genlm.grammar.cfg.CFG.agenda", source.sha(fn))
    wl = [l for l in source.loops(fn, (ast.While,))]
    if len(wl) != 1:
        run.obligation(name, "out-of-subset", detail="expected one while loop in agenda")
        return
    body = wl[0].body
    start = None
    for i, st in enumerate(body):
        if isinstance(st, ast.Assign) and ast.unparse(st.targets[0]) == "new":
            start = i
    if start is None:
        run.obligation(name, "out-of-subset", detail="cannot find `new = ...` in the agenda loop")
        return
    frag = body[start:]
    cases = 0
    for n in range(1, 5):
        for r_ in range(1, n + 1):
            for P in itertools.combinations(range(n), r_):
                cases += 1
                syms = ["u" if j in P else f"y{j}" for j in range(n)]

                class Old:
                    def __init__(self):
                        self.over = {}

                    def __pyvc_getitem__(self, interp, k, node):
                        return self.over.get(k, Poly.atom("old_" + k))

                    def __pyvc_setitem__(self, interp, k, v):
                        self.over[k] = v

                old = Old()
                sent = []
                rule = Bag(w=Poly.atom("w"), body=tuple(syms), head="H")
                routing = {"u": [(rule, k) for k in P]}
                path = I.Path([])
                it = I.Interp(path)
                env = I.Env(None, {"old": old, "u": "u", "v": Poly.atom("v"), "routing": routing, "tol": 0,
                                   "self": Bag(R=Bag(metric=I.Native("metric", lambda i2, a, k: 1))),
                                   "update": I.Native("update", lambda i2, a, k: sent.append(tuple(a)))})
                try:
                    try:
                        it.exec_block(frag, env)
                    except I._Continue:
                        pass
                except (I.OutOfSubset, I.PyRaise) as e:
                    run.obligation(name, "out-of-subset", detail=str(e))
                    return
                new = Poly.atom("old_u").__pyvc_binop__(it, ast.Add(), Poly.atom("v"), False, None)
                if not (env.get("new") == new):
                    run.obligation(name, "refuted", detail=f"new is {env.get('new')}, expected old[u] + v", replay=dict(replayed=False), signature="agenda:new")
                    return
                lhs = Poly.const(0)
                for head, Wk in sent:
                    if head != "H":
                        run.obligation(name, "refuted", detail="update routed to a symbol other than the rule head", replay=dict(replayed=False), signature="agenda:head")
                        return
                    lhs = lhs.__pyvc_binop__(it, ast.Add(), Wk, False, None)
                base = Poly.atom("w")
                target = Poly.atom("w")
                for j in range(n):
                    o = Poly.atom("old_" + syms[j])
                    base = base.__pyvc_binop__(it, ast.Mult(), o, False, None)
                    target = target.__pyvc_binop__(it, ast.Mult(), new if j in P else o, False, None)
                lhs = lhs.__pyvc_binop__(it, ast.Add(), base, False, None)
                ok = lhs == target and len(sent) == len(P) and old.over.get("u") == new
                if not ok:
                    why = (f"rule H -> {' '.join(syms)}: sum of routed updates + w*PROD(old) = {lhs} but w*PROD(old[u:=new]) = {target}"
                           if lhs != target else "old[u] is not set to new after routing / wrong number of updates")
                    run.obligation(name, "refuted", backend="polynomial normal form", detail=why,
                                   model={"body": syms, "positions_of_u": list(P)},
                                   replay=dict(replayed=False, body=syms, positions=list(P), lhs=repr(lhs), rhs=repr(target)),
                                   signature="agenda:semi-naive")
                    return
    run.obligation(name, "proved", backend="polynomial normal form (free commutative semiring)",
                   detail=f"{cases} (arity, occurrence pattern) cases: the updates routed for one pop account exactly for the change of w*PROD(old)")


def dep_edges_and_block_order(run):
    n_e, n_b = "C08/cfg.CFG.dependency_graph/edges", "C08/cfg.CFG.agenda/block-order"
    fn = source.find(CFG, "CFG.dependency_graph")
    run.function_under_contract("genlm.grammar.cfg.CFG.dependency_graph", source.sha(fn))
    loops = source.loops(fn, (ast.For,))
    outer = loops[0] if loops else None
    if outer is None:
        run.obligation(n_e, "out-of-subset", detail="no loop over the rules")
        return
    ok = True
    count = 0
    for n in (0, 1, 2, 3):
        writes = []

        class Gr:
            def __pyvc_getitem__(self, interp, k, node):
                return 0

            def __pyvc_setitem__(self, interp, k, v):
                writes.append(k)

        it = I.Interp(I.Path([]))
        body = tuple(f"y{j}" for j in range(n))
        env = I.Env(None, {"deps": Gr(), "Boolean": Bag(one=1), "self": None})
        it.assign(outer.target, Bag(head="H", body=body, w=1), env)
        try:
            it.exec_block(outer.body, env)
        except (I.OutOfSubset, I.PyRaise) as e:
            run.obligation(n_e, "out-of-subset", detail=str(e))
            return
        count += 1
        if sorted(writes) != sorted(("H", y) for y in body):
            ok = False
    if ok:
        run.obligation(n_e, "proved", backend="pyvc", detail=f"rule H -> y0..y(n-1), n = 0..3: exactly the edges (H, y_j) are accumulated")
    else:
        run.obligation(n_e, "refuted", detail="dependency_graph does not add one edge head -> y per body symbol",
                       replay=dict(replayed=False), signature="dependency_graph:edges")
    # block order: SCC_ORDER(B4) on edges head -> y gives bucket[head] <= bucket[y]; the agenda walks b downwards from len(blocks)
    ag = source.find(CFG, "CFG.agenda")
    src = ast.unparse(ag)
    walks_down = "b -= 1" in src and "b = len(blocks)" in src and "while b >= 0" in src
    routes_by_bucket = "change[bucket[x]][x] += W" in src
    b, bh, bu = z3.Ints("b bucket_head bucket_u")
    q = smt.prove([bu == b, bh <= bu], bh <= b)
    if ok and walks_down and routes_by_bucket and q["verdict"] == "proved":
        run.obligation(n_b, "proved", ms=q["ms"], detail="edges head -> y and SCC_ORDER(B4) give bucket[head] <= bucket[u] = b for every routed update; b only decreases")
    else:
        run.obligation(n_b, "refuted" if q["verdict"] == "proved" else q["verdict"],
                       detail=f"agenda does not process blocks from the last to the first with updates routed by bucket (walks_down={walks_down}, routes_by_bucket={routes_by_bucket})",
                       replay=dict(replayed=False), signature="agenda:block-order")


def bottom_up_step(run):
    name = "C08/cfg.CFG._bottom_up_step/one-application"
    fn = source.find(CFG, "CFG._bottom_up_step")
    run.function_under_contract("genlm.grammar.cfg.CFG._bottom_up_step", source.sha(fn))
    ok = True
    for n in (0, 1, 2, 3):
        for pat in itertools.product([0, 1], repeat=n):     # 1 = terminal
            body = tuple((f"t{j}" if pat[j] else f"X{j}") for j in range(n))
            store = {}

            class U:
                def __pyvc_getitem__(self, interp, k, node):
                    return store.get(k, Poly.const(0))

                def __pyvc_setitem__(self, interp, k, v):
                    store[k] = v

            class V_:
                def __pyvc_getitem__(self, interp, k, node):
                    return Poly.atom("V_" + k)

            u = U()
            selfobj = Bag(R=Bag(one=Poly.const(1), chart=I.Native("chart", lambda i2, a, k: u)), V=[f"t{j}" for j in range(n) if pat[j]],
                          is_nonterminal=I.Native("nt", lambda i2, a, k: a[0].startswith("X") or a[0] == "H"))

            class Rules:
                def __pyvc_iter__(self, interp):
                    return [Bag(w=Poly.atom("w"), head="H", body=body)]

            selfobj.f["__iter__"] = None
            it = I.Interp(I.Path([]))
            fobj = I.FuncObj(fn, I.Env(None, {}), "CFG._bottom_up_step")
            # iterate `for p in self` over one generic rule
            for lp in source.loops(fn, (ast.For,)):
                if ast.unparse(lp.iter) == "self":
                    it.loop_hooks[id(lp)] = (lambda i2, st, env: [i2.assign(st.target, Bag(w=Poly.atom("w"), head="H", body=body), env),
                                                                  i2.exec_block(st.body, env)])
            try:
                ret = it.call_func(fobj, [selfobj, V_()], {})
            except (I.OutOfSubset, I.PyRaise) as e:
                run.obligation(name, "out-of-subset", detail=str(e))
                return
            want = Poly.atom("w")
            for j in range(n):
                if not pat[j]:
                    want = want.__pyvc_binop__(it, ast.Mult(), Poly.atom("V_" + body[j]), False, None)
            if not (ret is u and store.get("H") == want and all(store.get(f"t{j}") == Poly.const(1) for j in range(n) if pat[j])):
                ok = False
    if ok:
        run.obligation(name, "proved", backend="polynomial normal form", detail="U[a] = one for terminals; U[head] += w * prod of V over the nonterminals of the body (arity <= 3, every terminal pattern)")
    else:
        run.obligation(name, "refuted", detail="_bottom_up_step is not one application of the grammar equations", replay=dict(replayed=False), signature="bottom_up_step")


def expected_length_lifting(run):
    name = "C08/cfg.CFG.expected_length/lifting"
    fn = source.find(CFG, "CFG.expected_length")
    run.function_under_contract("genlm.grammar.cfg.CFG.expected_length", source.sha(fn))
    ok = True
    for n in (0, 1, 2, 3):
        for pat in itertools.product([0, 1], repeat=n):
            body = tuple((f"t{j}" if pat[j] else f"X{j}") for j in range(n))
            adds = []
            w = z3.Real("w")

            class NewG:
                def __pyvc_getattr__(self, interp, nm, node):
                    if nm == "add":
                        return I.Native("add", lambda i2, a, k: adds.append(tuple(a)))
                    if nm == "treesum":
                        return I.Native("treesum", lambda i2, a, k: Bag(score=(0, 0)))
                    raise I.OutOfSubset("new_cfg." + nm)

            Fl = object()
            selfobj = Bag(R=Fl, S="S", V=set(), is_terminal=I.Native("is_terminal", lambda i2, a, k: a[0].startswith("t")))
            selfobj.f["__class__"] = I.Native("CFG", lambda i2, a, k: NewG())
            it = I.Interp(I.Path([]))
            for lp in source.loops(fn, (ast.For,)):
                if ast.unparse(lp.iter) == "self":
                    it.loop_hooks[id(lp)] = (lambda i2, st, env: [i2.assign(st.target, Bag(w=I.Z(w), head="H", body=body), env),
                                                                  i2.exec_block(st.body, env)])
            fobj = I.FuncObj(fn, I.Env(None, {"Float": Fl, "Expectation": I.Native("Expectation", lambda i2, a, k: ("Expectation", a[0], a[1]))}),
                             "CFG.expected_length")
            try:
                it.call_func(fobj, [selfobj], {})
            except (I.OutOfSubset, I.PyRaise) as e:
                run.obligation(name, "out-of-subset", detail=str(e))
                return
            if len(adds) != 1:
                ok = False
                continue
            (tag, p, r), head, *b = adds[0]
            k = sum(pat)
            good = smt.prove([], z3.And(I.to_real(p) == w, I.to_real(r) == w * k))["verdict"] == "proved"
            if not (good and head == "H" and tuple(b) == body):
                ok = False
    if ok:
        run.obligation(name, "proved", backend="pyvc+z3", detail="every rule keeps head/body and gets weight <w, w * (number of terminals in the body)> (first-order lifting; C16-Expectation)")
    else:
        run.obligation(name, "refuted", detail="rule weights are not lifted to <w, w * #terminals>", replay=dict(replayed=False), signature="expected_length:lifting")


def proved(run):
    run.trust("pyvc symbolic interpreter over the real AST", f"z3 {z3.get_version_string()}",
              "polynomial normal form in N[atoms]: complete decision procedure for identities of commutative semirings")
    run.assume("T-FIX: semi-naive agenda iteration from zero converges to the least solution (monotone, omega-continuous) - assumed; the per-pop accounting identity is proved",
               "SCC_ORDER(B4,B5) for dependency_graph().blocks/buckets [bounded in C15]",
               "metric/tolerance behaviour (when to stop) is bounded only")
    for f in (semi_naive, dep_edges_and_block_order, bottom_up_step, expected_length_lifting):
        try:
            f(run)
        except (I.OutOfSubset, KeyError) as e:
            run.obligation(f"C08/{f.__name__}", "out-of-subset", detail=str(e))

    from props import resolves as _res
    _res.budget_obligation(run, "C08")

"""Construction-conformance and local-identity obligations over automata / transducers, from the current source.

  C03/cfg.prefix_transducer/construction           exactly Mohri-style 2-state prefix machine            (auxiliary)
  C10/fst.epsilon_filter_fst/table                 exactly the 3-state epsilon filter of Mohri (table from the paper)   (auxiliary)
  C10/fst.FST._augment_epsilon_transitions/construction[idx]                                             (auxiliary)
  C10/fst.FST.from_pairs/wf-labels                 every arc label of the result is a pair                (property: FST.wf)
  C09/cfg.CFG.truncate_length/construction         length automaton: states 0..n all final, every symbol  (auxiliary)
  C09/fst.FST.__matmul__/cfg-branch                fst @ cfg returns cfg @ fst.T                          (auxiliary)
  C13/wfsa.base.WFSA.push/conjugacy                w' = V[i]^-1 w V[j], start' = start V, stop' = V^-1 stop, divisions guarded   (property)
  C13/wfsa.base.WFSA.push/stochastic[deg<=3]       with V = stop + A V:  sum of outgoing w' + stop' = 1     (property, bounded in out-degree)
  C17/wfsa.base.WFSA.to_cfg/construction[rec]      right-/left-linear rule families                        (auxiliary)
"""
import ast

import z3

from vlib.pyvc import interp as I, smt, source, symstruct as S, gharness as G

Bag = G.Bag
FSTF = "genlm/grammar/fst.py"
CFGF = "genlm/grammar/cfg.py"
BASE = "genlm/grammar/wfsa/base.py"
R = z3.RealSort()


class Machine:
    """Recording WFSA/FST: add_I / add_F / add_arc / set_* calls with symbolic arguments."""

    def __init__(self, tag="m"):
        self.I, self.F, self.arcs = [], [], []
        self.methods = []     # 'add_arc' (accumulates) / 'set_arc' (overwrites) per recorded arc
        self.methods_IF = []  # the same for initial / final weights
        self.tag = tag
        self.fields = {}

    def __pyvc_getattr__(self, interp, nm, node):
        if nm in ("add_I", "set_I"):
            return I.Native(nm, lambda it, a, k, nm=nm: (self.I.append(tuple(a)), self.methods_IF.append(nm))[0])
        if nm in ("add_F", "set_F"):
            return I.Native(nm, lambda it, a, k, nm=nm: (self.F.append(tuple(a)), self.methods_IF.append(nm))[0])
        if nm in ("add_arc", "set_arc"):
            return I.Native(nm, lambda it, a, k, nm=nm: (self.arcs.append(tuple(a)), self.methods.append(nm))[0])
        if nm in self.fields:
            return self.fields[nm]
        raise I.OutOfSubset(f"machine.{nm}")


def overwriting(m):
    """Recorded writes that overwrite instead of accumulating.  Two contributions to the same arc / initial / final weight (parallel
    paths, several rules, several epsilon-closure members) must add up, so a generic construction may only use add_arc / add_I /
    add_F; set_* is legitimate only where the written key is provably new (WFSA.from_strings' trie, not checked through here)."""
    return [x for x in list(getattr(m, "methods", [])) + list(getattr(m, "methods_IF", [])) if not x.startswith("add_")]


def _same(a, b):
    """structural equality of recorded values (ints, strings, tuples, z3 terms)"""
    if isinstance(a, tuple) and isinstance(b, tuple):
        return len(a) == len(b) and all(_same(x, y) for x, y in zip(a, b))
    if isinstance(a, I.Z) and isinstance(b, I.Z):
        return a.e.eq(b.e)
    if isinstance(a, I.Z) or isinstance(b, I.Z):
        z, c = (a, b) if isinstance(a, I.Z) else (b, a)
        try:
            return z3.is_true(z3.simplify(z.e == I.zexpr(c)))
        except Exception:  # noqa: BLE001
            return False
    return a == b and type(a) is type(b) or (isinstance(a, (int, str)) and a == b)


def _multiset_equal(have, want):
    have = list(have)
    for w in want:
        for i, h in enumerate(have):
            if _same(h, w):
                del have[i]
                break
        else:
            return False, ("missing", w)
    if have:
        return False, ("extra", have[0])
    return True, None


def _show(x):
    if isinstance(x, tuple):
        return "(" + ", ".join(_show(y) for y in x) + ")"
    if isinstance(x, I.Z):
        return str(x.e)
    return repr(x)


def conformance(run, name, harness, want, role="auxiliary"):
    """harness(path) -> Machine; want(result) -> (I, F, arcs) expected multisets."""
    try:
        results = I.explore(harness, prune=False)
    except (I.OutOfSubset, I.PyRaise) as e:
        run.obligation(name, "out-of-subset", role=role, detail=str(e))
        return
    for path, m in results:
        wi, wf, wa = want(m)
        ow = overwriting(m)
        if ow:
            run.obligation(name, "refuted", role=role, backend="pyvc", detail=f"the construction overwrites ({ow[0]}) where contributions must accumulate",
                           replay=dict(replayed=False, calls=ow[:5]), signature=name.split("/", 1)[1] + ":accumulates")
            return
        for have, w, what in ((m.I, wi, "initial weights"), (m.F, wf, "final weights"), (m.arcs, wa, "arcs")):
            ok, why = _multiset_equal(have, w)
            if not ok:
                run.obligation(name, "refuted", role=role, backend="pyvc", detail=f"{what}: {why[0]} {_show(why[1])}",
                               replay=dict(replayed=False, have=[_show(x) for x in have], want=[_show(x) for x in w]),
                               signature=name.split("/", 1)[1])
                return
    run.obligation(name, "proved", role=role, backend="pyvc", detail=f"{len(results)} paths: recorded construction equals the specified machine")


def prefix_transducer(run):
    fn = source.find(CFGF, "prefix_transducer")
    run.function_under_contract("genlm.grammar.cfg.prefix_transducer", source.sha(fn))
    one = I.Z(z3.Const("R_one", G.W))
    x = S.sym("x")
    EPS = ""

    def harness(path):
        it = I.Interp(path)
        m = Machine()
        fobj = I.FuncObj(fn, I.Env(None, {"FST": I.Native("FST", lambda i2, a, k: m), "EPSILON": EPS}), "prefix_transducer")
        ret = it.call_func(fobj, [Bag(one=one, zero=I.Z(G.w0)), [x]], {})
        if ret is not m:
            raise I.OutOfSubset("does not return the machine it builds")
        return m

    conformance(run, "C03/cfg.prefix_transducer/construction", harness,
                lambda m: ([(0, one), (1, one)], [(1, one)],
                           [(0, (x, x), 0, one), (0, (x, x), 1, one), (1, (x, EPS), 1, one)]))


def epsilon_filter(run):
    fn = source.find(FSTF, "epsilon_filter_fst")
    run.function_under_contract("genlm.grammar.fst.epsilon_filter_fst", source.sha(fn))
    one = I.Z(z3.Const("R_one", G.W))
    a = S.sym("a")
    e1, e2 = "eps1", "eps2"

    def harness(path):
        it = I.Interp(path)
        m = Machine()
        g = {"FST": I.Native("FST", lambda i2, x, k: m), "ε_1": e1, "ε_2": e2, "ε": ""}
        fobj = I.FuncObj(fn, I.Env(None, g), "epsilon_filter_fst")
        ret = it.call_func(fobj, [Bag(one=one), [a]], {})
        if ret is not m:
            raise I.OutOfSubset("does not return the machine it builds")
        return m

    # Mohri, "Weighted Automata Algorithms" (2009), Fig. 8: states 0,1,2 all final, 0 initial;
    # x:x from every state to 0; (e2:e1) 0->0; (e1:e1) 0->1, 1->1; (e2:e2) 0->2, 2->2.
    want_arcs = [(q, (a, a), 0, one) for q in (0, 1, 2)] + [(0, (e2, e1), 0, one), (0, (e1, e1), 1, one), (0, (e2, e2), 2, one),
                                                         (1, (e1, e1), 1, one), (2, (e2, e2), 2, one)]
    conformance(run, "C10/fst.epsilon_filter_fst/table", harness,
                lambda m: ([(0, one)], [(0, one), (1, one), (2, one)], want_arcs))


def augment(run):
    fn = source.find(FSTF, "FST._augment_epsilon_transitions")
    run.function_under_contract("genlm.grammar.fst.FST._augment_epsilon_transitions", source.sha(fn))
    one = I.Z(z3.Const("R_one", G.W))
    e, e1, e2 = "", "eps1", "eps2"
    i, j1, j2, j3 = S.sym("i"), S.sym("j1"), S.sym("j2"), S.sym("j3")
    a, b = S.sym("a"), S.sym("b")
    w1, w2, w3 = (I.Z(z3.Const(f"w{k}", G.W)) for k in (1, 2, 3))
    arcs_i = [((a, b), j1, w1), ((a, e), j2, w2), ((e, b), j3, w3)]
    for idx in (0, 1):
        def harness(path, idx=idx):
            it = I.Interp(path)
            m = Machine()
            selfobj = Bag(states=[i], R=Bag(one=one),
                          spawn=I.Native("spawn", lambda i2, x, k: m if (k.get("keep_init") and k.get("keep_stop") and not k.get("keep_arcs")) else None),
                          arcs=I.Native("arcs", lambda i2, x, k: list(arcs_i)))
            g = {"ε": e, "ε_1": e1, "ε_2": e2}
            fobj = I.FuncObj(fn, I.Env(None, g), "FST._augment_epsilon_transitions")
            ret = it.call_func(fobj, [selfobj, idx], {})
            if ret is not m:
                raise I.OutOfSubset("does not return spawn(keep_init=True, keep_stop=True)")
            return m

        if idx == 0:   # first machine: output epsilons become eps2, self loop (eps : eps1)
            want = [(i, (e, e1), i, one), (i, (a, b), j1, w1), (i, (a, e2), j2, w2), (i, (e, b), j3, w3)]
        else:          # second machine: input epsilons become eps1, self loop (eps2 : eps)
            want = [(i, (e2, e), i, one), (i, (a, b), j1, w1), (i, (a, e), j2, w2), (i, (e1, b), j3, w3)]
        conformance(run, f"C10/fst.FST._augment_epsilon_transitions/construction[idx={idx}]", harness, lambda m, want=want: ([], [], want))


def from_pairs_wf(run):
    name = "C10/fst.FST.from_pairs/wf-labels"
    fn = source.find(FSTF, "FST.from_pairs")
    run.function_under_contract("genlm.grammar.fst.FST.from_pairs", source.sha(fn))
    one = I.Z(z3.Const("R_one", G.W))
    x1, x2, y1 = S.sym("x1"), S.sym("x2"), S.sym("y1")

    def harness(path):
        it = I.Interp(path)
        m = Machine()
        import itertools
        g = {"FST": I.Native("FST", lambda i2, a, k: m), "EPSILON": "",
             "zip_longest": I.Native("zip_longest", lambda i2, a, k: list(itertools.zip_longest(*[list(x) for x in a], **k)))}
        fobj = I.FuncObj(fn, I.Env(None, g), "FST.from_pairs")
        it.call_func(fobj, [[((x1, x2), (y1,)), ((), ())], Bag(one=one)], {})
        return m

    try:
        results = I.explore(harness, prune=False)
    except (I.OutOfSubset, I.PyRaise) as e:
        run.obligation(name, "out-of-subset", detail=str(e))
        return
    bad = []
    for path, m in results:
        for arc in m.arcs:
            lab = arc[1]
            if not (isinstance(lab, tuple) and len(lab) == 2):
                bad.append(_show(arc))
    if bad:
        run.obligation(name, "refuted", backend="pyvc", detail=f"arc label is not an (input, output) pair: {bad[0]}", model={"arcs": bad},
                       replay=dict(replayed=False, arcs=bad, hint='FST.from_pairs([("ab","c")], Float)("ab","c")'), signature="from_pairs:label-not-a-pair")
    else:
        run.obligation(name, "proved", backend="pyvc", detail="every add_arc label built by from_pairs is a 2-tuple (FST.wf)")


def truncate_length(run):
    fn = source.find(CFGF, "CFG.truncate_length")
    run.function_under_contract("genlm.grammar.cfg.CFG.truncate_length", source.sha(fn))
    one = I.Z(z3.Const("R_one", G.W))
    x = S.sym("x")
    for n in (0, 1, 3):
        composed = {}

        def harness(path, n=n, composed=composed):
            it = I.Interp(path)
            m = Machine()
            it.natives["genlm.grammar.WFSA"] = I.Native("WFSA", lambda i2, a, k: m)

            class Self:
                def __pyvc_getattr__(self, interp, nm, node):
                    if nm == "R":
                        return Bag(one=one)
                    if nm == "V":
                        return [x]
                    raise I.OutOfSubset("cfg." + nm)

                def __pyvc_binop__(self, interp, op, other, reflected, node):
                    composed["with"] = (type(op).__name__, other, reflected)
                    return "composition"

            fobj = I.FuncObj(fn, I.Env(None, {}), "CFG.truncate_length")
            ret = it.call_func(fobj, [Self(), n], {})
            if ret != "composition" or composed.get("with", (None,))[0] != "MatMult" or composed["with"][1] is not m or composed["with"][2]:
                raise I.OutOfSubset("does not return self @ <length automaton>")
            return m

        conformance(run, f"C09/cfg.CFG.truncate_length/construction[n={n}]", harness,
                    lambda m, n=n: ([(0, one)], [(t, one) for t in range(n + 1)], [(t, x, t + 1, one) for t in range(n)]))


def fst_matmul_cfg(run):
    name = "C09/fst.FST.__matmul__/cfg-branch"
    fn = source.find(FSTF, "FST.__matmul__")
    run.function_under_contract("genlm.grammar.fst.FST.__matmul__", source.sha(fn))
    rec = {}

    class CFGCls:
        def __pyvc_instancecheck__(self, v):
            return isinstance(v, Grammar)

    class FSTCls:
        def __pyvc_instancecheck__(self, v):
            return False

    class Grammar:
        def __pyvc_binop__(self, interp, op, other, reflected, node):
            rec["op"] = (type(op).__name__, other, reflected)
            return "cfg@T"

    def harness(path):
        it = I.Interp(path)
        T = object()
        it.natives["genlm.grammar.cfg.CFG"] = CFGCls()
        selfobj = Bag(T=T)
        fobj = I.FuncObj(fn, I.Env(None, {"FST": FSTCls()}), "FST.__matmul__")
        ret = it.call_func(fobj, [selfobj, Grammar()], {})
        return ret, T

    try:
        results = I.explore(harness, prune=False)
    except (I.OutOfSubset, I.PyRaise) as e:
        run.obligation(name, "out-of-subset", role="auxiliary", detail=str(e))
        return
    ok = all(ret == "cfg@T" and rec.get("op") and rec["op"][0] == "MatMult" and rec["op"][1] is T and not rec["op"][2] for _, (ret, T) in results)
    if ok:
        run.obligation(name, "proved", role="auxiliary", backend="pyvc", detail="for a CFG operand, fst @ cfg evaluates cfg @ fst.T")
    else:
        run.obligation(name, "refuted", role="auxiliary", backend="pyvc", detail="fst @ cfg is not cfg @ fst.T", replay=dict(replayed=False),
                       signature="FST.__matmul__:cfg-branch")


def push(run):
    fn = source.find(BASE, "WFSA.push")
    run.function_under_contract("genlm.grammar.wfsa.base.WFSA.push", source.sha(fn))
    n1, n2 = "C13/wfsa.base.WFSA.push/conjugacy", "C13/wfsa.base.WFSA.push/stochastic[deg<=3]"
    Vf = z3.Function("V", S.SYM, R)
    startf = z3.Function("start", S.SYM, R)
    stopf = z3.Function("stop", S.SYM, R)

    class M:
        def __init__(self, f):
            self.f = f

        def __pyvc_getitem__(self, interp, k, node):
            return I.Z(self.f(I.zexpr(k)))

    ok1, ok2, why = True, True, ""
    total_paths = 0
    for deg in (0, 1, 2, 3):
        i = S.sym("i")
        arcs = [(S.sym(f"a{k}"), S.sym(f"j{k}"), I.Z(z3.Real(f"w{k}"))) for k in range(deg)]

        def harness(path, arcs=arcs, i=i):
            it = I.Interp(path)
            m = Machine()
            selfobj = Bag(backward=M(Vf), start=M(startf), stop=M(stopf), states=[i], R=Bag(zero=0, one=1),
                          spawn=I.Native("spawn", lambda i2, a, k: m if not k else None),
                          arcs=I.Native("arcs", lambda i2, a, k: list(arcs)))
            fobj = I.FuncObj(fn, I.Env(None, {}), "WFSA.push")
            try:
                ret = it.call_func(fobj, [selfobj], {})
            except I.PyRaise as e:
                return ("raised", f"{e.kind}: {e.msg}")
            return ("ok", m if ret is m else None)

        try:
            results = I.explore(harness)
        except (I.OutOfSubset, I.PyRaise) as e:
            run.obligation(n1, "out-of-subset", detail=str(e))
            return
        for path, (kind, m) in results:
            total_paths += 1
            if kind == "raised":
                ok1, why = False, "raises " + m
                continue
            if m is None:
                ok1, why = False, "does not return the spawned machine"
                continue
            Vi = Vf(i.e)
            live = smt.prove(list(path.pc), Vi != 0)["verdict"] == "proved"
            if not live:
                # dead state: nothing may be emitted for it
                if m.I or m.F or m.arcs:
                    if smt.prove(list(path.pc), Vi == 0)["verdict"] == "proved":
                        ok1, why = False, "emits weights for a state with backward weight zero"
                continue
            # arcs into dead targets (V[j] = 0 on this path) may be dropped: their pushed weight is zero anyway
            kept = [(a, j, w) for (a, j, w) in arcs if smt.prove(list(path.pc), Vf(j.e) == 0)["verdict"] != "proved"]
            good = (len(m.I) == 1 and len(m.F) == 1 and len(m.arcs) in (len(kept), len(arcs)))
            if good:
                g = [I.zexpr(m.I[0][0]) == i.e, I.to_real(m.I[0][1]) == startf(i.e) * Vi,
                     I.zexpr(m.F[0][0]) == i.e, Vi * I.to_real(m.F[0][1]) == stopf(i.e)]
                for (a, j, w), rec in zip(kept if len(m.arcs) == len(kept) else arcs, m.arcs):
                    g += [I.zexpr(rec[0]) == i.e, I.zexpr(rec[1]) == a.e, I.zexpr(rec[2]) == j.e, Vi * I.to_real(rec[3]) == w.e * Vf(j.e)]
                good = smt.prove(list(path.pc), z3.And(*g))["verdict"] == "proved"
            if not good:
                ok1, why = False, f"degree {len(arcs)}: pushed weights are not start*V[i], V[i]^-1*stop, V[i]^-1*w*V[j] (arcs into dead states may be dropped)"
                continue
            # stochasticity from the backward equation V[i] = stop[i] + sum_k w_k V[j_k]
            beq = Vi == stopf(i.e) + sum((w.e * Vf(j.e) for (_, j, w) in arcs), z3.RealVal(0))
            tot = I.to_real(m.F[0][1]) + sum((I.to_real(rec[3]) for rec in m.arcs), z3.RealVal(0))
            if smt.prove(list(path.pc) + [beq], tot == 1)["verdict"] != "proved":
                ok2 = False
    if ok1:
        run.obligation(n1, "proved", backend="pyvc+z3", detail=f"{total_paths} paths (out-degree 0..3): w' = V[i]^-1 w V[j], start' = start V[i], stop' = V[i]^-1 stop; no division by zero; dead states emit nothing")
    else:
        run.obligation(n1, "refuted", detail=why, replay=dict(replayed=False, why=why), signature="push:conjugacy")
    if ok1 and ok2:
        run.obligation(n2, "proved", backend="pyvc+z3", detail="given V = stop + A V (contract of backward/solve_right): outgoing weights plus final weight of a live state sum to one (out-degree <= 3; linear in the degree)")
    else:
        run.obligation(n2, "refuted", detail="pushed outgoing weights plus final weight do not sum to one", replay=dict(replayed=False), signature="push:stochastic")


class EpsTok(str):
    """EPSILON as the code sees it ('' - equal to the label '' and to nothing else at Python level) that a SYMBOLIC state name may
    also equal: from_string names its initial state '' too, so `x != EPSILON` on a state name is a real question."""

    def __pyvc_eq__(self, interp, other):
        if isinstance(other, I.Z):
            return I.Z(other.e == I.zexpr(""))
        return isinstance(other, str) and other == ""

    __hash__ = str.__hash__


def to_cfg(run):
    fn = source.find(BASE, "WFSA.to_cfg")
    run.function_under_contract("genlm.grammar.wfsa.base.WFSA.to_cfg", source.sha(fn))
    EPS = ""
    qi, qf, p, q, p2, q2 = (S.sym(n) for n in ("qi", "qf", "p", "q", "p2", "q2"))
    a = "a"
    wi, wf_, w1, w2 = (I.Z(z3.Const(n, G.W)) for n in ("wi", "wf", "w1", "w2"))
    w3 = I.Z(z3.Const("w3", G.W))       # an arc labelled with the byte 0: a falsy label that is not EPSILON
    S0 = S.sym("S0")
    for rec_dir in ("right", "left"):
        name = f"C17/wfsa.base.WFSA.to_cfg/construction[{rec_dir}]"
        adds = []

        def harness(path, rec_dir=rec_dir, adds=adds):
            del adds[:]
            it = I.Interp(path)

            class G_:
                def __pyvc_getattr__(self, interp, nm, node):
                    if nm == "add":
                        return I.Native("add", lambda i2, x, k: adds.append(tuple(x)))
                    raise I.OutOfSubset("cfg." + nm)

            made = {}

            def CFGc(i2, x, k):
                made.update(k)
                return G_()

            it.natives["genlm.grammar.cfg.CFG"] = I.Native("CFG", CFGc)
            it.natives["genlm.grammar.cfg._gen_nt"] = I.Native("_gen_nt", lambda i2, x, k: S0)
            alphabet = {"a", 0, EPS}
            for st_ in (qi, qf, p, q, p2, q2):
                path.assume(st_.e != S0.e)      # states are not named like the start symbol (else they are renamed: wf obligation below)
                for sym_ in alphabet - {EPS}:       # a state MAY be named '' (from_string's initial state): it is not a symbol of V
                    r_ = it.equals(st_, sym_)   # ... nor like an alphabet symbol (same: renaming is the wf obligation's subject)
                    if isinstance(r_, I.Z):
                        path.assume(z3.Not(r_.e))
            selfobj = Bag(R=Bag(), alphabet=alphabet, I=[(qi, wi)], F=[(qf, wf_)], states=[qi, qf, p, q, p2, q2],
                          arcs=I.Native("arcs", lambda i2, x, k: [(p, a, q, w1), (p2, EPS, q2, w2), (p, 0, q2, w3)]))
            fobj = I.FuncObj(fn, I.Env(None, {"EPSILON": EpsTok("")}), "WFSA.to_cfg")
            it.call_func(fobj, [selfobj], {"S": S0, "recursion": rec_dir})
            return list(adds), made

        try:
            results = I.explore(harness, prune=True)
        except (I.OutOfSubset, I.PyRaise) as e:
            run.obligation(name, "out-of-subset", role="auxiliary", detail=str(e))
            continue
        if rec_dir == "right":
            want = [(wi, S0, qi), (wf_, qf), (w1, p, "a", q), (w2, p2, q2), (w3, p, 0, q2)]
        else:
            want = [(wf_, S0, qf), (wi, qi), (w1, q, p, "a"), (w2, q2, p2), (w3, q2, p, 0)]
        ok = True
        why = None
        for path, (have, made) in results:
            ok, why = _multiset_equal(have, want)
            if ok and made.get("V") != {"a", 0}:
                ok, why = False, ("vocabulary", made.get("V"))
            if not ok:
                break               # every path must conform (a state may be named '', like EPSILON)
        if ok:
            run.obligation(name, "proved", role="auxiliary", backend="pyvc", detail="rule families: start/initial, final, symbol arcs, epsilon arcs; V = alphabet - {eps}")
        else:
            run.obligation(name, "refuted", role="auxiliary", backend="pyvc", detail=f"{why[0]} {_show(why[1]) if why else ''}",
                           replay=dict(replayed=False), signature=f"to_cfg:{rec_dir}")


def to_cfg_wf(run):
    """C17/wfsa.base.WFSA.to_cfg/wf-N-disjoint-V: a state named like an alphabet symbol never becomes a nonterminal of that name."""
    name = "C17/wfsa.base.WFSA.to_cfg/wf-N-disjoint-V"
    fn = source.find(BASE, "WFSA.to_cfg")
    wi, wf_, w1 = (I.Z(z3.Const(n, G.W)) for n in ("wi", "wf", "w1"))
    bad = []
    for rec_dir in ("right", "left"):
        adds = []
        fresh = []

        def gen(i2, x, k):
            nm = f"fresh{len(fresh)}"
            fresh.append(nm)
            return nm

        it = I.Interp(I.Path([]))

        class G_:
            def __pyvc_getattr__(self, interp, nm, node):
                if nm == "add":
                    return I.Native("add", lambda i2, x, k: adds.append(tuple(x)))
                raise I.OutOfSubset("cfg." + nm)

        made = {}
        it.natives["genlm.grammar.cfg.CFG"] = I.Native("CFG", lambda i2, x, k: (made.update(k), G_())[1])
        it.natives["genlm.grammar.cfg._gen_nt"] = I.Native("_gen_nt", gen)
        # the automaton of WFSA.from_string("a"): states "" and "a", alphabet {"a"}; state "a" is also a symbol.  State "s" is the start name.
        selfobj = Bag(R=Bag(), alphabet={"a"}, states=["s1", "a", "S"], I=[("s1", wi)], F=[("a", wf_)],
                      arcs=I.Native("arcs", lambda i2, x, k: [("s1", "a", "a", w1), ("a", "a", "S", w1)]))
        fobj = I.FuncObj(fn, I.Env(None, {"EPSILON": ""}), "WFSA.to_cfg")
        try:
            it.call_func(fobj, [selfobj], {"S": "S", "recursion": rec_dir})
        except (I.OutOfSubset, I.PyRaise) as e:
            run.obligation(name, "out-of-subset", detail=str(e))
            return
        V = made.get("V", set())
        for rule in adds:
            w, head, *body = rule
            # positions: right recursion (i, a, j) / left (j: i a); the terminal is the position that was the arc label
            nts = [head] + [y for k, y in enumerate(body) if not (len(body) == 2 and ((rec_dir == "right" and k == 0) or (rec_dir == "left" and k == 1)))]
            for y in nts:
                if y in V:
                    bad.append(f"{rec_dir}: nonterminal position holds alphabet symbol {y!r} in rule {_show(rule)}")
        heads = {r[1] for r in adds}
        if "S" in {y for r in adds for y in r[2:]}:
            bad.append(f"{rec_dir}: a state named like the start symbol is conflated with it")
    if bad:
        run.obligation(name, "refuted", backend="pyvc", detail=bad[0], model={"problems": bad},
                       replay=dict(replayed=False, problems=bad, hint="WFSA.from_string('ab', Float).to_cfg()('ab')"), signature="to_cfg:N-V-clash")
    else:
        run.obligation(name, "proved", backend="pyvc", detail="states named like an alphabet symbol or like S are renamed (fresh) consistently in both recursion directions")


def pruned_compose(run):
    """C10/fst.FST._pruned_compose/product-step (auxiliary): one generic iteration of the on-the-fly product with keep = True:
    initial pairs get w1*w2, a popped pair (P,Q) that is final in both machines gets stop[P]*stop[Q], every matching arc pair
    (a:b, P', w1) x (b:c, Q', w2) yields exactly one arc (P,Q) -(a:c)-> (P',Q') with weight w1*w2, and a pair is pushed only if unvisited."""
    name = "C10/fst.FST._pruned_compose/product-step"
    fn = source.find(FSTF, "FST._pruned_compose")
    run.function_under_contract("genlm.grammar.fst.FST._pruned_compose", source.sha(fn))
    P0, Q0, P1, Q1, Pn, Qn = (S.sym(n) for n in ("P0", "Q0", "P", "Q", "Pn", "Qn"))
    a, b, c = S.sym("a"), S.sym("b"), S.sym("c")
    wi1, wi2, w1, w2, f1, f2 = (I.Z(z3.Const(n, G.W)) for n in ("wi1", "wi2", "w1", "w2", "f1", "f2"))

    def harness(path):
        it = I.Interp(path, uf=G.UF)
        m = Machine()
        final_P = S.fresh("P_final", z3.BoolSort())
        final_Q = S.fresh("Q_final", z3.BoolSort())

        class Stop:
            def __init__(self, flag, w):
                self.flag, self.w = flag, w

            def __pyvc_contains__(self, interp, x):
                return I.Z(self.flag)

            def __pyvc_getitem__(self, interp, k, node):
                return self.w

        popped = {}

        class Stack:
            def __init__(self):
                self.items = []
                self.n = 0

            def __pyvc_truth__(self, interp):
                self.n += 1
                return self.n == 1         # loop cut: one generic iteration

            def __pyvc_getattr__(self, interp, nm, node):
                if nm == "append":
                    return I.Native("append", lambda i2, x, k: self.items.append(x[0]))
                if nm == "pop":
                    return I.Native("pop", lambda i2, x, k: (P1, Q1))     # an arbitrary visited pair
                raise I.OutOfSubset("stack." + nm)

        stack = Stack()
        it.assign_hooks["stack"] = lambda i2, v: stack
        visited_new = S.fresh("target_already_visited", z3.BoolSort())

        class Visited:
            def __init__(self):
                self.added = []

            def __pyvc_contains__(self, interp, x):
                return I.Z(visited_new)

            def __pyvc_getattr__(self, interp, nm, node):
                if nm == "add":
                    return I.Native("add", lambda i2, x, k: self.added.append(x[0]))
                raise I.OutOfSubset("visited." + nm)

        vis = Visited()
        it.assign_hooks["visited"] = lambda i2, v: vis

        class Tmp:
            def __pyvc_getitem__(self, interp, k, node):
                return [(c, Qn, w2)]

        it.assign_hooks["tmp"] = lambda i2, v: Tmp()
        other = Bag(I=[(Q0, wi2)], stop=Stop(final_Q, f2), arcs=I.Native("arcs", lambda i2, x, k: []))
        selfobj = Bag(R=Bag(), I=[(P0, wi1)], stop=Stop(final_P, f1), arcs=I.Native("arcs", lambda i2, x, k: [((a, b), Pn, w1)] if x else []))
        g = {"FST": I.Native("FST", lambda i2, x, k: m), "EPSILON": "", "defaultdict": I.Native("defaultdict", lambda i2, x, k: {})}
        path.assume(b.e != I.zexpr(""))        # the filter guarantees no bare epsilon on the shared tape (the code asserts it)
        fobj = I.FuncObj(fn, I.Env(None, g), "FST._pruned_compose")
        ret = it.call_func(fobj, [selfobj, other, I.Native("keep", lambda i2, x, k: True), I.Native("keep_arc", lambda i2, x, k: True)], {})
        if ret is not m:
            raise I.OutOfSubset("does not return the machine it builds")
        m.ctx = dict(final_P=final_P, final_Q=final_Q, pushed=list(stack.items), visited_added=list(vis.added), visited_new=visited_new)
        return m

    try:
        results = I.explore(harness)
    except (I.OutOfSubset, I.PyRaise) as e:
        run.obligation(name, "out-of-subset", role="auxiliary", detail=str(e))
        return
    ok, why = True, ""
    for path, m in results:
        cx = m.ctx
        okI, whyI = _multiset_equal(m.I, [((P0, Q0), I.Z(G.wmul(wi1.e, wi2.e)))])
        both = smt.prove(list(path.pc), z3.And(cx["final_P"], cx["final_Q"]))["verdict"] == "proved"
        okF, whyF = _multiset_equal(m.F, [((P1, Q1), I.Z(G.wmul(f1.e, f2.e)))] if both else [])
        okA, whyA = _multiset_equal(m.arcs, [((P1, Q1), (a, c), (Pn, Qn), I.Z(G.wmul(w1.e, w2.e)))])
        seen = smt.prove(list(path.pc), cx["visited_new"])["verdict"] == "proved"
        pushed_new = [x for x in cx["pushed"] if isinstance(x, tuple) and x[0] is Pn]
        okP = (len(pushed_new) == 0) if seen else (len(pushed_new) == 1 and any(x[0] is Pn for x in cx["visited_added"]))
        okM = all(x == "add_arc" for x in m.methods)     # parallel contributions to one composite arc must accumulate
        if not (okI and okF and okA and okP and okM):
            ok = False
            why = f"initial={okI} final={okF} arcs={okA} pushed-once={okP} accumulates={okM}: {whyI or whyF or whyA}"
    if ok and results:
        run.obligation(name, "proved", role="auxiliary", backend="pyvc+z3", detail=f"{len(results)} paths: product initial/final weights, one arc per matching arc pair with weight w1*w2, targets pushed only when unvisited")
    else:
        run.obligation(name, "refuted", role="auxiliary", backend="pyvc+z3", detail=why or "no path", replay=dict(replayed=False, why=why), signature="_pruned_compose:product-step")

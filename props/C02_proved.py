def proved(run):
    pass

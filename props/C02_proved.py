"""PROVED-class obligations of C02 (DESIGN section 4 / C02), generated from the current source.

  C02/<earley|earley_rescaled>.Earley._update/key-order       agenda priority strictly orders contributors
  C02/cfg.CFG._unary_graph_transpose/edges                    the graph `order` is computed from has an edge body->head per unary rule
  C02/earley.Earley.__call__/result-in-semiring               empty-string branch returns a semiring value (never int 0, never raises)
  C02/cfg.CFG.materialize/depth-covers-length                 depth passed to language() covers every derivation of a string of length <= n
  C02/cfg.CFG.materialize/filter-is-length-bound
"""
import ast

import z3

from vlib.pyvc import interp as I, smt, source, symstruct as S

EARLEY = {"earley": "genlm/grammar/parse/earley.py", "earley_rescaled": "genlm/grammar/parse/earley_rescaled.py"}
CFG = "genlm/grammar/cfg.py"
W = z3.DeclareSort("W")


class Tok:
    """Opaque contract object: records attribute/method chains (used to read *which* graph `order` comes from)."""

    def __init__(self, chain=()):
        self.chain = tuple(chain)

    def __pyvc_getattr__(self, interp, name, node):
        return Tok(self.chain + (name,))

    def __pyvc_call__(self, interp, args, kwargs, node):
        return Tok(self.chain + ("()",))

    def __repr__(self):
        return "Tok(" + ".".join(self.chain) + ")"


class OrderMap:
    """self.order: buckets (block index per symbol) of some graph; values() has maximum `mx` (contract B5)."""

    def __init__(self, tok):
        self.tok = tok
        self.f = z3.Function("order", z3.IntSort(), z3.IntSort())
        self.mx = z3.Int("order_max_value")

    def __pyvc_getitem__(self, interp, k, node):
        return I.Z(self.f(I.zexpr(k)))

    def __pyvc_getattr__(self, interp, name, node):
        if name == "values":
            return I.Native("values", lambda it, a, k: [I.Z(self.mx)])   # max(order.values()) == mx by definition of mx
        if name == "get":
            return I.Native("get", lambda it, a, k: I.Z(self.f(I.zexpr(a[0]))))
        raise I.OutOfSubset("order." + name)


class Bag:
    """Plain attribute bag standing for `self` / `col`."""

    def __init__(self, **kw):
        self.__dict__["f"] = dict(kw)

    def __pyvc_getattr__(self, interp, name, node):
        if name in self.f:
            return self.f[name]
        raise I.PyRaise("AttributeError", name, node)

    def __pyvc_setattr__(self, interp, name, v):
        self.f[name] = v


def stmts_of(fn):
    for n in ast.walk(fn):
        if isinstance(n, ast.stmt):
            yield n


def find_assign(fn, target_src):
    for st in stmts_of(fn):
        if isinstance(st, ast.Assign) and any(ast.unparse(t) == target_src for t in st.targets):
            return st
    return None


def method_chain(expr):
    """names of the method calls in  a.m1(..).m2(..).m3()  ->  ['m1','m2','m3'], base"""
    names = []
    e = expr
    while isinstance(e, ast.Call) and isinstance(e.func, ast.Attribute):
        names.append(e.func.attr)
        e = e.func.value
    return list(reversed(names)), e


def key_order(run, mod, rel):
    name = f"C02/{mod}.Earley._update/key-order"
    cls = source.find(rel, "Earley")
    init = source.find(rel, "Earley.__init__")
    upd = source.find(rel, "Earley._update")
    run.function_under_contract(f"genlm.grammar.parse.{mod}.Earley._update", source.sha(upd))
    run.function_under_contract(f"genlm.grammar.parse.{mod}.Earley.__init__", source.sha(init))
    # --- what is `order`, what is ORDER_MAX, what preprocessing ran?  (read from __init__)
    st_order = find_assign(init, "self.order")
    st_max = find_assign(init, "self.ORDER_MAX")
    st_prep = None
    for st in stmts_of(init):
        if isinstance(st, ast.Assign) and ast.unparse(st.targets[0]) == "cfg" and isinstance(st.value, ast.Call):
            st_prep = st
            break
    if st_order is None or st_max is None or st_prep is None:
        run.obligation(name, "out-of-subset", detail="cannot locate self.order / self.ORDER_MAX / preprocessing assignment in __init__")
        return
    chain, base = method_chain(st_prep.value)
    path = I.Path([])
    it = I.Interp(path)
    env = I.Env(None, {"cfg": Tok(("cfg",)), "self": Bag()})
    order_tok = it.eval(st_order.value, env)
    if not isinstance(order_tok, Tok):
        run.obligation(name, "out-of-subset", detail=f"self.order is not a buckets map: {ast.unparse(st_order.value)}")
        return
    graph = order_tok.chain
    if graph == ("cfg", "_unary_graph_transpose", "()", "buckets"):
        direction = "transpose"
    elif graph == ("cfg", "_unary_graph", "()", "buckets"):
        direction = "direct"
    else:
        run.obligation(name, "out-of-subset", detail=f"order computed from an unknown graph: {'.'.join(graph)}")
        return
    om = OrderMap(order_tok)
    selfobj = Bag(order=om)
    env = I.Env(None, {"cfg": Tok(("cfg",)), "self": selfobj})
    it.exec_stmt(st_max, env)          # executes the real `self.ORDER_MAX = ...`
    M = selfobj.f["ORDER_MAX"]
    M = I.zexpr(M)

    # --- priority expression: symbolic execution of the real _update on a *new completed item*
    def priority(Iv, Xv, K):
        heap = {}

        class Heap:
            def __pyvc_setitem__(self, interp, k, v):
                heap["key"] = v

        class CChart:
            def __pyvc_getattr__(self, interp, name, node):
                if name == "get":
                    return I.Native("get", lambda it, a, k: None)   # first derivation of the item: was is None
                raise I.OutOfSubset("c_chart." + name)

            def __pyvc_setitem__(self, interp, k, v):
                pass

        col = Bag(k=I.Z(K), c_chart=CChart(), i_chart=CChart(), Q=Heap(), waiting_for=None)
        selfobj2 = Bag(order=om, ORDER_MAX=I.Z(M))
        p = I.Path([])
        it2 = I.Interp(p)
        fobj = I.FuncObj(upd, I.Env(None, {}), "Earley._update")
        params = [a.arg for a in upd.args.args]
        args = {"self": selfobj2, "col": col, "Q": Heap(), "I": I.Z(Iv), "X": I.Z(Xv), "Ys": 0, "value": I.Z(z3.Real("value"))}
        it2.call_func(fobj, [args[pn] for pn in params], {})
        if "key" not in heap:
            raise I.OutOfSubset("_update did not enqueue a new completed item")
        return I.zexpr(heap["key"]), p

    Iv, Jv, K, X, Y = z3.Ints("I J K X Y")
    try:
        pIX, p1 = priority(Iv, X, K)
        pJY, p2 = priority(Jv, Y, K)
    except (I.OutOfSubset, I.PyRaise) as e:
        run.obligation(name, "out-of-subset", detail=str(e))
        return
    o = om.f
    unary = z3.Bool("unary_rule_X_to_Y")
    assumptions = [0 <= Iv, Iv <= Jv, Jv <= K,
                   o(X) >= 0, o(X) <= om.mx, o(Y) >= 0, o(Y) <= om.mx, om.mx >= 0]
    has_cycle_removal = "unarycycleremove" in chain and chain.index("unarycycleremove") > (chain.index("nullaryremove") if "nullaryremove" in chain else -1)
    unknown_steps = [c for c in chain if c not in ("nullaryremove", "unarycycleremove", "renumber", "trim")]
    if unknown_steps:
        run.obligation(name, "out-of-subset", detail=f"unknown preprocessing steps {unknown_steps}")
        return
    if has_cycle_removal:
        # SCC_ORDER(B4) on the graph `order` is computed from, + C07 (no unary cycle after unarycycleremove):
        # a unary rule X -> Y puts X and Y in different blocks; edge direction decides which index is smaller.
        assumptions.append(z3.Implies(unary, o(Y) < o(X)) if direction == "transpose" else z3.Implies(unary, o(X) < o(Y)))
    contributes = z3.Or(Iv < Jv, z3.And(Iv == Jv, unary))
    goal = z3.Implies(contributes, pJY > pIX)
    res = smt.prove(assumptions, goal)
    detail = f"priority={z3.simplify(pIX)}; ORDER_MAX={z3.simplify(M)}; order from {'.'.join(graph)}; preprocessing {chain}"
    if res["verdict"] == "refuted":
        m = res["model"]
        model = {str(v): smt.model_value(m, v) for v in (Iv, Jv, K, om.mx, o(X), o(Y), unary)} if m is not None else None
        run.obligation(name, "refuted", backend=res["backend"], ms=res["ms"], detail="contributor not strictly before its consumer: " + detail,
                       model=model, replay=dict(model=model, formula=detail, replayed=False), signature=f"{mod}:key-order")
    else:
        run.obligation(name, res["verdict"], backend=res["backend"], ms=res["ms"], detail=detail)
        run.sample(dict(obligation=name, vc="contributes((J,Y)->(I,X)) => prio(J,Y) > prio(I,X)", facts=detail, verdict=res["verdict"]))
    # must-fail twin: without the ORDER_MAX bound the lemma must be refutable
    tw = smt.prove([a for a in assumptions if "order_max_value" not in str(a)], goal)
    if tw["verdict"] == "proved":
        raise RuntimeError("vacuity guard: key-order twin (no bound on order values) was proved")


def unary_graph_edges(run):
    name = "C02/cfg.CFG._unary_graph_transpose/edges"
    fn = source.find(CFG, "CFG._unary_graph_transpose")
    run.function_under_contract("genlm.grammar.cfg.CFG._unary_graph_transpose", source.sha(fn))
    loops = source.loops(fn)
    if len(loops) != 1 or not isinstance(loops[0], ast.For):
        run.obligation(name, "out-of-subset", detail="expected exactly one for-loop over the rules")
        return
    loop = loops[0]
    V = S.SymSet("V")

    def harness(path):
        it = I.Interp(path)
        writes = []

        class Graph:
            def __pyvc_getitem__(self, interp, k, node):
                return I.Z(S.fresh("old", z3.RealSort()))

            def __pyvc_setitem__(self, interp, k, v):
                writes.append((k, list(interp.path.pc)))

        class Self:
            def __pyvc_getattr__(self, interp, nm, node):
                if nm == "is_nonterminal":
                    return I.Native("is_nonterminal", lambda i2, a, k: i2.negate(V.__pyvc_contains__(i2, a[0])))
                if nm == "is_terminal":
                    return I.Native("is_terminal", lambda i2, a, k: V.__pyvc_contains__(i2, a[0]))
                raise I.OutOfSubset("self." + nm)

        r = S.RuleVal(I.Z(z3.Real("w_r")), S.sym("head_r"), S.BaseSeq("body_r"))
        path.assume(r.body.L >= 0)
        env = I.Env(None, {"self": Self(), "A": Graph()})
        it.assign(loop.target, r, env)
        try:
            it.exec_block(loop.body, env)
        except I._Continue:
            pass
        return dict(writes=writes, r=r)

    try:
        results = I.explore(harness)
    except (I.OutOfSubset, I.PyRaise) as e:
        run.obligation(name, "out-of-subset", detail=str(e))
        return
    ok = True
    covered = False
    ms = 0.0
    for path, res in results:
        r = res["r"]
        is_unary = z3.And(r.body.L == 1, z3.Not(V.mem(r.body.elem(0))))
        if not res["writes"]:
            # no edge written on this path: it must not be a unary rule
            q = smt.prove(list(path.pc), z3.Not(is_unary))
            ms += q["ms"]
            ok &= q["verdict"] == "proved"
        for (k, pc) in res["writes"]:
            covered = True
            src, dst = k
            q = smt.prove(list(path.pc), z3.And(is_unary, I.zexpr(src) == r.body.elem(0), I.zexpr(dst) == I.zexpr(r.head)))
            ms += q["ms"]
            ok &= q["verdict"] == "proved"
    if ok and covered:
        run.obligation(name, "proved", ms=ms, detail="for a generic rule: edge (body[0] -> head) is written iff the rule is unary with a nonterminal body")
    else:
        run.obligation(name, "refuted", ms=ms, detail="edge written by the loop body is not (body[0] -> head) exactly for unary rules",
                       replay=dict(replayed=False, note="structural obligation on the loop body"), signature="unary-graph-transpose-edges")


def result_in_semiring(run):
    name = "C02/earley.Earley.__call__/result-in-semiring"
    rel = EARLEY["earley"]
    fn = source.find(rel, "Earley.__call__")
    run.function_under_contract("genlm.grammar.parse.earley.Earley.__call__", source.sha(fn))
    wadd = z3.Function("wadd", W, W, W)
    zero = z3.Const("R_zero", W)
    problems = []
    ms = 0.0
    n_paths = 0
    for nrules in (0, 1, 2):
        def harness(path, nrules=nrules):
            it = I.Interp(path, uf={("W", "Add"): wadd})
            rules = []
            for i in range(nrules):
                b = S.BaseSeq(f"body{i}")
                path.assume(b.L >= 0)
                rules.append(S.RuleVal(I.Z(z3.Const(f"w{i}", W)), S.sym(f"h{i}"), b))

            class Rhs:
                def __pyvc_getitem__(self, interp, k, node):
                    return list(rules)

            R = Bag(zero=I.Z(zero), one=I.Z(z3.Const("R_one", W)))
            cfg = Bag(rhs=Rhs(), S=S.sym("S"), R=R)
            selfobj = Bag(cfg=cfg, _chart={}, _initial_column=None)
            fobj = I.FuncObj(fn, I.Env(None, {}), "Earley.__call__")
            try:
                v = it.call_func(fobj, [selfobj, ()], {})
            except I.PyRaise as e:
                return ("raised", str(e))
            return ("value", v)

        try:
            results = I.explore(harness)
        except I.OutOfSubset as e:
            run.obligation(name, "out-of-subset", detail=str(e))
            return
        for path, (kind, v) in results:
            n_paths += 1
            if kind == "raised":
                problems.append(f"{nrules} start rules: raises {v}")
            elif not (isinstance(v, I.Z) and v.sort == W):
                problems.append(f"{nrules} start rules: returns {I.pytype_name(v)} {v!r}, not a semiring value")
    if problems:
        run.obligation(name, "refuted", detail="; ".join(problems[:3]), model={"problems": problems},
                       replay=dict(replayed=False, problems=problems, hint="Earley(g)(()) over a class-based semiring such as Real"),
                       signature="earley:empty-string-not-in-semiring")
    else:
        run.obligation(name, "proved", backend="pyvc", ms=ms,
                       detail=f"{n_paths} paths over 0/1/2 start rules with symbolic bodies: value of sort W on every path")


def materialize(run):
    fn = source.find(CFG, "CFG.materialize")
    run.function_under_contract("genlm.grammar.cfg.CFG.materialize", source.sha(fn))
    n = z3.Int("max_length")
    x = S.BaseSeq("x")
    rec = {}

    class Lang:
        def __pyvc_getattr__(self, interp, nm, node):
            if nm == "filter":
                def f(it, a, k):
                    rec["keep"] = it.call(a[0], [x], {})
                    return self
                return I.Native("filter", f)
            raise I.OutOfSubset("chart." + nm)

    class Cnf:
        def __pyvc_getattr__(self, interp, nm, node):
            if nm == "language":
                def f(it, a, k):
                    rec["depth"] = a[0]
                    return Lang()
                return I.Native("language", f)
            raise I.OutOfSubset("cnf." + nm)

    def harness(path):
        it = I.Interp(path)
        path.assume(n >= 0)
        path.assume(x.L >= 0)
        fobj = I.FuncObj(fn, I.Env(None, {}), "CFG.materialize")
        it.call_func(fobj, [Bag(cnf=Cnf()), I.Z(n)], {})
        return dict(rec)

    n1, n2 = "C02/cfg.CFG.materialize/depth-covers-length", "C02/cfg.CFG.materialize/filter-is-length-bound"
    try:
        results = I.explore(harness)
    except (I.OutOfSubset, I.PyRaise) as e:
        run.obligation(n1, "out-of-subset", detail=str(e))
        run.obligation(n2, "out-of-subset", detail=str(e))
        return
    v1 = v2 = "proved"
    ms = 0.0
    model = None
    for path, r in results:
        d = I.zexpr(r["depth"])
        # CNF (C07): a derivation of a string of length m >= 1 has height <= m; the empty derivation S -> eps has height 1.
        q = smt.prove(list(path.pc), z3.And(d >= n, d >= 1))
        ms += q["ms"]
        if q["verdict"] != "proved":
            v1 = q["verdict"]
            if q["model"] is not None:
                model = {"max_length": smt.model_value(q["model"], n), "depth": smt.model_value(q["model"], d)}
        keep = r["keep"]
        ke = z3.BoolVal(keep) if isinstance(keep, bool) else keep.e
        q2 = smt.prove(list(path.pc), ke == (x.L <= n))
        ms += q2["ms"]
        if q2["verdict"] != "proved":
            v2 = q2["verdict"]
    if v1 == "refuted":
        run.obligation(n1, "refuted", ms=ms, detail="depth passed to language() misses a derivation height", model=model,
                       replay=dict(replayed=False, model=model, hint="cfg.materialize(max_length) vs cfg(x) for |x| <= max_length"),
                       signature="materialize:depth")
    else:
        run.obligation(n1, v1, ms=ms, detail="depth >= max(max_length, 1) for all max_length >= 0")
    if v2 == "refuted":
        run.obligation(n2, "refuted", ms=ms, detail="filter is not len(x) <= max_length",
                       replay=dict(replayed=False), signature="materialize:filter")
    else:
        run.obligation(n2, v2, ms=ms, detail="filter keeps exactly len(x) <= max_length")


def _native_update_replay(mod):
    """Function-level replay on the real parser: an incomplete item whose stored weight is exactly 0.0 (reachable by underflow)
    receives another contribution; it must not be put on the waiting list a second time."""
    import importlib
    import inspect
    from genlm.grammar.cfg import CFG
    from genlm.grammar.semiring import Float
    E = importlib.import_module(f"genlm.grammar.parse.{mod}").Earley
    parser = E(CFG.from_string("0.5: S -> a S b\n0.5: S -> a b", Float))
    col = parser.chart(("a",))[-1]
    item = next(iter(col.i_chart))
    col.i_chart[item] = 0.0
    count = lambda: sum(1 for lst in col.waiting_for.values() for x in lst if x == item)   # noqa: E731
    before = count()
    Iv, Xv, Ys = item
    names = list(inspect.signature(parser._update).parameters)
    kw = dict(col=col, I=Iv, X=Xv, Ys=Ys, value=0.25)
    if "Q" in names:
        kw["Q"] = getattr(col, "Q", None) or {}
    parser._update(**{k: kw[k] for k in names})
    after = count()
    return dict(input="Earley(S -> a S b | a b).chart(('a',))[-1]; an incomplete item with stored weight 0.0 gets a second contribution",
                waiting_list_entries_before=before, after=after, replayed=after > before)


def update_accumulates(run, mod, rel, pid="C02"):
    """<pid>/<mod>.Earley._update/accumulates-registers-once: contract of the chart update, for a generic item and ANY stored value
    (a stored weight may be exactly zero, e.g. 0.0 after underflow in a long context):
        absent  ->  chart[item] = value        and the item is registered exactly once (agenda key / waiting list)
        present ->  chart[item] = was + value  and nothing is registered again
    for completed items (Ys == 0) and for incomplete ones."""
    name = f"{pid}/{mod}.Earley._update/accumulates-registers-once"
    upd = source.find(rel, "Earley._update")
    params = [a.arg for a in upd.args.args]
    bad = None
    n_paths = 0
    for complete in (True, False):
        def harness(path, complete=complete):
            it = I.Interp(path)
            rec = dict(chart={}, q=[], wait=[], other={})
            present = z3.Bool("item_present")
            was = z3.Real("was")

            class Chart:
                def __init__(self, tag, live):
                    self.tag, self.live = tag, live

                def __pyvc_getattr__(self, interp, nm, node):
                    if nm == "get":
                        def get(i2, a, k):
                            if not self.live:
                                raise I.OutOfSubset(f"{self.tag} read for the other kind of item")
                            return I.Z(was) if i2.path.decide(present) else None
                        return I.Native("get", get)
                    raise I.OutOfSubset(f"{self.tag}.{nm}")

                def __pyvc_getitem__(self, interp, k, node):
                    if not self.live or not interp.path.decide(present):
                        raise I.PyRaise("KeyError", "item")
                    return I.Z(was)

                def __pyvc_contains__(self, interp, k):
                    return I.Z(present) if self.live else False

                def __pyvc_setitem__(self, interp, k, v):
                    (rec["chart"] if self.live else rec["other"])[self.tag] = v

            class Heap:
                def __pyvc_setitem__(self, interp, k, v):
                    rec["q"].append(k)

            class Waiting:
                def __pyvc_getitem__(self, interp, k, node):
                    return Bag(append=I.Native("append", lambda i2, a, kw: rec["wait"].append(a[0])))

            class Table:
                def __pyvc_getitem__(self, interp, k, node):
                    return I.Z(z3.Int("tbl"))

            col = Bag(k=I.Z(z3.Int("K")), c_chart=Chart("c_chart", complete), i_chart=Chart("i_chart", not complete), Q=Heap(), waiting_for=Waiting())
            selfobj = Bag(order=Table(), ORDER_MAX=I.Z(z3.Int("M")), first_Ys=Table())
            value = z3.Real("value")
            args = {"self": selfobj, "col": col, "Q": Heap(), "I": I.Z(z3.Int("I")), "X": I.Z(z3.Int("X")),
                    "Ys": 0 if complete else I.Z(z3.Int("Ys")), "value": I.Z(value)}
            if not complete:
                path.assume(z3.Int("Ys") != 0)
            it.call_func(I.FuncObj(upd, I.Env(None, {}), "Earley._update"), [args[pn] for pn in params], {})
            return rec, present, was, value

        try:
            results = I.explore(harness)
        except (I.OutOfSubset, I.PyRaise) as e:
            run.obligation(name, "out-of-subset", detail=str(e))
            return
        for path, (rec, present, was, value) in results:
            n_paths += 1
            tag = "c_chart" if complete else "i_chart"
            regs = rec["q"] if complete else rec["wait"]
            other = rec["wait"] if complete else rec["q"]
            pres = smt.prove(list(path.pc), present)["verdict"] == "proved"
            absn = smt.prove(list(path.pc), z3.Not(present))["verdict"] == "proved"
            if not (pres or absn):
                bad = "the path does not depend on whether the item is already in the chart"
                break
            stored = rec["chart"].get(tag)
            if stored is None or rec["other"] or other:
                bad = f"{'completed' if complete else 'incomplete'} item: wrong table written ({sorted(rec['other'])}, stored={stored is not None})"
                break
            want = value if absn else was + value
            if smt.prove(list(path.pc), I.to_real(stored) == want)["verdict"] != "proved":
                bad = f"{'completed' if complete else 'incomplete'} item, {'absent' if absn else 'present'}: stored value is not {'value' if absn else 'was + value'}"
                break
            if len(regs) != (1 if absn else 0):
                m = smt.prove(list(path.pc), z3.BoolVal(False)).get("model")
                bad = (f"{'completed' if complete else 'incomplete'} item that is {'absent' if absn else 'already present'} is registered {len(regs)} time(s)"
                       + (f" (stored weight was = {smt.model_value(m, was)})" if m is not None and pres else ""))
                break
        if bad:
            break
    if bad:
        replay = dict(replayed=False, why=bad,
                      hint="an item whose stored weight is exactly 0.0 (underflow after ~70 tokens at 1e-5 per token against 0.5) is registered twice")
        try:
            replay.update(_native_update_replay(mod))
        except Exception as e:  # noqa: BLE001
            replay["native_error"] = repr(e)
        run.obligation(name, "refuted", backend="pyvc+z3", detail=bad, replay=replay, signature=f"{mod}:_update:registers-once")
    elif n_paths < 4:
        run.obligation(name, "out-of-subset", detail=f"vacuous: {n_paths} paths")
    else:
        run.obligation(name, "proved", backend="pyvc+z3", detail=f"{n_paths} paths over (completed?, present?): chart accumulates, registration happens exactly on first derivation")


def proved(run):
    run.trust("pyvc symbolic interpreter over the real AST", f"z3 {z3.get_version_string()}",
              "SCC_ORDER(B4,B5) for WeightedGraph.buckets [bounded in C15]",
              "C07 postcondition of unarycycleremove (no unary cycle) and of nullaryremove (no empty rule below S)")
    run.assume("T-EARLEY: given key-order, the Earley deduction system evaluated in agenda order computes inside weights (DESIGN App. B)")
    for mod, rel in EARLEY.items():
        try:
            key_order(run, mod, rel)
        except (I.OutOfSubset, I.PyRaise, KeyError) as e:
            run.obligation(f"C02/{mod}.Earley._update/key-order", "out-of-subset", detail=str(e))
    for mod, rel in EARLEY.items():
        try:
            run.function_under_contract(f"genlm.grammar.parse.{mod}.Earley._update", source.sha(source.find(rel, "Earley._update")))
            update_accumulates(run, mod, rel)
        except (I.OutOfSubset, I.PyRaise, KeyError) as e:
            run.obligation(f"C02/{mod}.Earley._update/accumulates-registers-once", "out-of-subset", detail=str(e))
    for f in (unary_graph_edges, result_in_semiring, materialize, parse_chart_recurrence):
        try:
            f(run)
        except (I.OutOfSubset, KeyError) as e:
            run.obligation(f"C02/{f.__name__}", "out-of-subset", detail=str(e))
    from props import resolves as _res
    _res.budget_obligation(run, "C02")


# ------------------------------------------------------------------ CKY: the chart update is the inside recurrence (soundness + coverage)
class SymRange:
    """range(lo, hi) with symbolic bounds: iteration yields ONE index - generic (assumed inside the range) or forced (a given
    value, with the obligation that it lies inside the range recorded)."""

    def __init__(self, lo, hi):
        self.lo, self.hi = lo, hi


def parse_chart_recurrence(run):
    n_s, n_c = "C02/cfg.CFG._parse_chart/inside-recurrence", "C02/cfg.CFG._parse_chart/covers-all-splits"
    fn = source.find(CFG, "CFG._parse_chart")
    run.function_under_contract("genlm.grammar.cfg.CFG._parse_chart", source.sha(fn))
    wmul = z3.Function("wmul", W, W, W)
    wadd = z3.Function("wadd", W, W, W)
    cval = z3.Function("chart_value", z3.IntSort(), z3.IntSort(), z3.IntSort(), W)
    xs = S.BaseSeq("xs")
    N = xs.L

    def execute(path, forced):
        """forced: None (generic indices) or dict loop-variable -> z3 value to force."""
        it = I.Interp(path, uf={("W", "Add"): wadd, ("W", "Mult"): wmul})
        path.assume(N >= 0)
        if forced is not None:
            for c in forced.get("__pre__", []):
                path.assume(c)
        writes, members = [], []

        class ChartRec:
            def __pyvc_getitem__(self, interp, k, node):
                return I.Z(cval(*[I.zexpr(x) for x in k]))

            def __pyvc_setitem__(self, interp, k, v):
                writes.append((tuple(I.zexpr(x) for x in k), v, list(interp.path.pc)))

        rule = S.RuleVal(I.Z(z3.Const("w_r", W)), S.sym("X"), S.TupleSeq([S.sym("Y"), S.sym("Z")]))
        trule = S.RuleVal(I.Z(z3.Const("w_t", W)), S.sym("A"), S.TupleSeq([S.sym("a")]))

        class Terminal:
            def __pyvc_getitem__(self, interp, k, node):
                interp.path.assume(I.zexpr(k) == trule.body.items[0].e)     # terminal[a] lists the rules A -> a
                return [trule]

        def rng(i2, a, k):
            a = [I.zexpr(x) for x in a]
            lo, hi = (z3.IntVal(0), a[0]) if len(a) == 1 else (a[0], a[1])
            return SymRange(lo, hi)

        names = {}

        def for_hook(i2, st, env):
            r = i2.eval(st.iter, env)
            if not isinstance(r, SymRange):
                # `for r in terminal[xs[i]]` / `for r in binary`: concrete one-element lists
                for x in i2.iterate(r):
                    i2.assign(st.target, x, env)
                    i2.exec_block(st.body, env)
                return
            var = ast.unparse(st.target)
            if forced is not None and var in forced:
                v = forced[var]
                members.append((var, z3.And(r.lo <= v, v < r.hi)))
            else:
                v = S.fresh(var)
                i2.path.assume(z3.And(r.lo <= v, v < r.hi))
            names[var] = v
            i2.assign(st.target, I.Z(v), env)
            i2.exec_block(st.body, env)

        for lp in source.loops(fn, (ast.For,)):
            it.loop_hooks[id(lp)] = for_hook
        selfobj = Bag(_cnf=(I.Z(z3.Const("nullary", W)), Terminal(), [rule]), R=Bag(chart=I.Native("chart", lambda i2, a, k: ChartRec())), S=S.sym("S0"))
        fobj = I.FuncObj(fn, I.Env(None, {"range": I.Native("range", rng), "len": I.Native("len", lambda i2, a, k: I.Z(N))}), "CFG._parse_chart")
        it.call_func(fobj, [selfobj, xs], {})
        return dict(writes=writes, members=members, names=dict(names), rule=rule, trule=trule)

    # ---- soundness: every write is one term of the inside recurrence over strictly shorter spans
    try:
        res = I.explore(lambda p: execute(p, None))
    except (I.OutOfSubset, I.PyRaise) as e:
        run.obligation(n_s, "out-of-subset", detail=str(e))
        return
    ok, why, kinds = True, "", set()
    X, Y, Z_ = (S.sym(n).e for n in ("X", "Y", "Z"))
    for path, r in res:
        for key, v, pc in r["writes"]:
            i_, sym_, k_ = key
            old = cval(i_, sym_, k_)
            ve = I.zexpr(v)
            # which kind of update is it?
            cands = []
            j = r["names"].get("j")
            if j is not None:
                cands.append(("binary", z3.And(sym_ == X, 0 <= i_, i_ < j, j < k_, k_ <= N,
                                               ve == wadd(old, wmul(wmul(r["rule"].w.e, cval(i_, Y, j)), cval(j, Z_, k_))))))
            cands.append(("preterminal", z3.And(sym_ == r["trule"].head.e, 0 <= i_, k_ == i_ + 1, k_ <= N, xs.elem(i_) == r["trule"].body.items[0].e,
                                                ve == wadd(old, r["trule"].w.e))))
            cands.append(("nullary", z3.And(sym_ == S.sym("S0").e, 0 <= i_, i_ <= N, k_ == i_, ve == wadd(old, z3.Const("nullary", W)))))
            hit = [nm for nm, g in cands if smt.prove(pc, g)["verdict"] == "proved"]
            if not hit:
                ok, why = False, f"a chart update is not a term of the inside recurrence: key={key}, value={z3.simplify(ve)}"
            kinds.update(hit)
    if ok and kinds == {"binary", "preterminal", "nullary"}:
        run.obligation(n_s, "proved", role="auxiliary", backend="pyvc+z3", detail="every write is c[i,X,k] += w*c[i,Y,j]*c[j,Z,k] with 0<=i<j<k<=N, or c[i,A,i+1] += w for A -> xs[i], or c[i,S,i] += nullary")
    else:
        run.obligation(n_s, "refuted" if not ok else "out-of-subset", role="auxiliary", detail=why or f"update kinds seen: {sorted(kinds)}",
                       replay=dict(replayed=False, why=why), signature="_parse_chart:recurrence")
    # ---- coverage: an arbitrary split 0 <= i0 < j0 < k0 <= N is visited by the binary loop nest
    i0, j0, k0 = z3.Ints("i0 j0 k0")
    pre = [0 <= i0, i0 < j0, j0 < k0, k0 <= N]
    try:
        res2 = I.explore(lambda p: execute(p, {"span": k0 - i0, "i": i0, "j": j0, "__pre__": pre}))
    except (I.OutOfSubset, I.PyRaise) as e:
        run.obligation(n_c, "out-of-subset", detail=str(e))
        return
    good = True
    seen_binary = False
    for path, r in res2:
        for var, cond in r["members"]:
            if var in ("span", "j") or var == "i":
                q = smt.prove(pre, cond)
                if q["verdict"] != "proved" and var in ("span", "j"):
                    good = False
        for key, v, pc in r["writes"]:
            if smt.prove(pre + [c for c in pc], z3.And(key[0] == i0, key[2] == k0))["verdict"] == "proved" and "j" in r["names"]:
                seen_binary = True
    # the `i` loop occurs three times (nullary, preterminal, binary); only the binary nest's membership matters: re-check precisely
    good_i = False
    for path, r in res2:
        conds = [c for v_, c in r["members"] if v_ == "i"]
        if conds and smt.prove(pre, conds[-1])["verdict"] == "proved":
            good_i = True
    if good and good_i and seen_binary:
        run.obligation(n_c, "proved", role="auxiliary", backend="pyvc+z3", detail="for all 0 <= i < j < k <= N: span = k-i, i and j lie inside the loop ranges, and the update for (i, j, k) is executed")
    else:
        run.obligation(n_c, "refuted", role="auxiliary", detail=f"some split (i, j, k) is never visited (span/j ranges ok: {good}, i range ok: {good_i}, update reached: {seen_binary})",
                       replay=dict(replayed=False), signature="_parse_chart:coverage")

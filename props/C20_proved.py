"""PROVED-class obligations of C20 (local normalisation, EOS wrapping), from the current source of cfglm.py.

  C20/cfglm.locally_normalize/pushing            every emitted rule keeps head and body and has  w' * Z[head] = w * PROD(Z, body)
  C20/cfglm.locally_normalize/division-defined   the division by Z[head] is guarded (no ZeroDivisionError on any path)
  C20/cfglm.locally_normalize/skips-only-zero-mass-heads   a rule is dropped only if Z[head] = 0 or its new weight is 0
  C20/cfglm.add_EOS/construction                 rules' = [S' -> S eos : one] ++ rules,  V' = V + {eos},  S' fresh, eos not in V
"""
import z3

from vlib.pyvc import interp as I, smt, source, symstruct as S, gharness as G

REL = "genlm/grammar/cfglm.py"
R = z3.RealSort()


def locally_normalize(run):
    fn = source.find(REL, "locally_normalize")
    run.function_under_contract("genlm.grammar.cfglm.locally_normalize", source.sha(fn))
    n_push, n_div, n_skip = ("C20/cfglm.locally_normalize/pushing", "C20/cfglm.locally_normalize/division-defined",
                             "C20/cfglm.locally_normalize/skips-only-zero-mass-heads")
    Zf = z3.Function("Z", S.SYM, R)
    prod = {}

    class ZChart:
        def __pyvc_getitem__(self, interp, k, node):
            return I.Z(Zf(I.zexpr(k)))

        def __pyvc_getattr__(self, interp, nm, node):
            if nm == "product":
                def product(it, a, kw):
                    seq = S.as_seq(a[0])
                    # ghost PROD(Z, body): a real number determined by (Z, body)
                    key = id(seq)
                    if key not in prod:
                        prod[key] = (seq, z3.Real(f"PROD_Z_{getattr(seq, 'name', key)}"))
                    return I.Z(prod[key][1])
                return I.Native("product", product)
            raise I.OutOfSubset("Chart." + nm)

    def harness(path):
        prod.clear()
        it = I.Interp(path)
        gs = G.GramSelf(path, wsort=R)
        gs.methods["agenda"] = I.Native("agenda", lambda i2, a, k: ZChart())
        fobj = I.FuncObj(fn, I.Env(None, {}), "locally_normalize")
        try:
            ret = it.call_func(fobj, [gs], {})
        except I.PyRaise as e:
            return dict(raised=f"{e.kind}: {e.msg}", gs=gs)
        return dict(ret=ret, gs=gs, prod=dict(prod))

    try:
        results = I.explore(harness)
    except (I.OutOfSubset, I.PyRaise) as e:
        for n in (n_push, n_div, n_skip):
            run.obligation(n, "out-of-subset", detail=str(e))
        return
    raised = [r["raised"] for _, r in results if "raised" in r]
    if any(x.startswith("ZeroDivisionError") for x in raised):
        run.obligation(n_div, "refuted", detail="a path divides by Z[head] = 0", replay=dict(replayed=False, hint="grammar with a useless nonterminal of zero total weight"),
                       signature="locally_normalize:div0")
    elif raised:
        run.obligation(n_div, "refuted", detail="raises " + raised[0], replay=dict(replayed=False), signature="locally_normalize:raises")
    else:
        run.obligation(n_div, "proved", backend="pyvc+z3", detail=f"{len(results)} paths, none reaches the division with a zero divisor")
    ok_push, ok_skip = True, True
    ms = 0.0
    sites = 0
    why = ""
    for path, r in results:
        if "raised" in r:
            continue
        gs, ret = r["gs"], r["ret"]
        if not isinstance(ret, G.GramRec):
            ok_push = False
            why = "does not return the spawned grammar"
            continue
        rule = gs.generic[0] if gs.generic else None
        Zh = Zf(rule.head.e)
        if not ret.adds:
            Pz = [v for (seq, v) in r["prod"].values() if seq is rule.body]
            dropped_ok = z3.Or(Zh == 0, *[I.to_real(rule.w) * v == 0 for v in Pz])   # zero mass head, or the new weight is zero
            q = smt.prove(list(path.pc), dropped_ok)
            ms += q["ms"]
            if q["verdict"] != "proved":
                ok_skip = False
        for a in ret.adds:
            sites += 1
            same = a["head"] is rule.head and a["body"] is rule.body
            P = [v for (seq, v) in r["prod"].values() if seq is rule.body]
            if not same or len(P) != 1:
                ok_push = False
                why = "emitted rule changes head/body or PROD is not taken over the rule's own body"
                continue
            goal = z3.And(Zh != 0, I.to_real(a["w"]) * Zh == I.to_real(rule.w) * P[0])
            q = smt.prove(list(path.pc), goal)
            ms += q["ms"]
            if q["verdict"] != "proved":
                ok_push = False
                why = f"w' * Z[head] != w * PROD(Z, body): w' = {z3.simplify(I.to_real(a['w']))}"
    if sites == 0:
        run.obligation(n_push, "out-of-subset", detail="vacuous: no rule emitted")
    elif ok_push:
        run.obligation(n_push, "proved", ms=ms, detail=f"{sites} add sites: head/body unchanged and w' * Z[head] = w * PROD(Z, body)")
    else:
        run.obligation(n_push, "refuted", ms=ms, detail=why, replay=dict(replayed=False, why=why), signature="locally_normalize:pushing")
    if ok_skip:
        run.obligation(n_skip, "proved", ms=ms, detail="a rule is dropped only if Z[head] = 0 or its new weight w * PROD(Z, body) / Z[head] is zero")
    else:
        run.obligation(n_skip, "refuted", detail="a rule with Z[head] != 0 can be dropped", replay=dict(replayed=False), signature="locally_normalize:skip")


def add_eos(run):
    name = "C20/cfglm.add_EOS/construction"
    fn = source.find(REL, "add_EOS")
    run.function_under_contract("genlm.grammar.cfglm.add_EOS", source.sha(fn))
    EOS = S.sym("EOS")

    def harness(path):
        it = I.Interp(path, uf=G.UF)
        gs = G.GramSelf(path)
        log = []
        fobj = I.FuncObj(fn, I.Env(None, {"_gen_nt": G.gen_nt_native(gs, log), "EOS": EOS}), "add_EOS")
        try:
            ret = it.call_func(fobj, [gs], {})
        except I.PyRaise as e:
            return dict(raised=f"{e.kind}: {e.msg}", gs=gs)
        return dict(ret=ret, gs=gs, fresh=log)

    try:
        results = I.explore(harness)
    except (I.OutOfSubset, I.PyRaise) as e:
        run.obligation(name, "out-of-subset", detail=str(e))
        return
    good = 0
    why = ""
    for path, r in results:
        gs = r["gs"]
        if "raised" in r:
            # the only allowed exception: the assert `eos not in cfg.V`
            if r["raised"].startswith("AssertionError") and smt.prove(list(path.pc), gs.V.mem(EOS.e))["verdict"] == "proved":
                continue
            why = "raises " + r["raised"]
            good = -99
            continue
        ret = r["ret"]
        ok = isinstance(ret, G.GramRec) and len(ret.adds) == 2 and len(r["fresh"]) == 1
        if ok:
            Sp = ret.f["S"]
            # order-insensitive: the rule of the new start symbol may be added before or after the copied rules
            a0, a1 = ret.adds
            if not I.zexpr(a0["head"]).eq(I.zexpr(Sp)):
                a0, a1 = a1, a0
            rule = gs.generic[0]
            ok = (smt.prove(list(path.pc), I.zexpr(Sp) == r["fresh"][0])["verdict"] == "proved"
                  and I.zexpr(a0["head"]).eq(I.zexpr(Sp)) and isinstance(a0["body"], S.TupleSeq) and len(a0["body"].items) == 2
                  and a0["body"].items[0] is gs.S and a0["body"].items[1] is EOS and I.zexpr(a0["w"]).eq(G.w1)
                  and a1["head"] is rule.head and a1["body"] is rule.body and a1["w"] is rule.w
                  and isinstance(ret.f["V"], G.VCopy) and ret.f["V"].base is gs.V and len(ret.f["V"].extra) == 1 and ret.f["V"].extra[0] is EOS
                  and smt.prove(list(path.pc), z3.Not(gs.V.mem(EOS.e)))["verdict"] == "proved")
        if ok:
            good += 1
        else:
            why = why or f"path {path.taken}: result is not [S' -> S eos : one] ++ rules with V' = copy(V) + {{eos}}"
            good = -99
    if good > 0:
        run.obligation(name, "proved", backend="pyvc+z3",
                       detail="rules' = [S' -> S eos : R.one] ++ rules (each input rule unchanged), V' = fresh copy of V plus eos, S' = fresh _gen_nt, eos not in V (else AssertionError)")
    else:
        run.obligation(name, "refuted", detail=why or "no successful path", replay=dict(replayed=False, why=why), signature="add_EOS:construction")


def proved(run):
    run.trust("pyvc symbolic interpreter over the real AST", f"z3 {z3.get_version_string()}")
    run.assume("FIXPOINT(G) for CFG.agenda: Z[X] = sum over rules X -> beta of w * PROD(Z, beta) [bounded in C08]; with the proved pushing "
               "identity this gives: rule weights of every head with Z != 0 sum to one",
               "T-PUSH: the pushing identity at every node of a derivation gives [[G']](x) * Z[S] = [[G]](x) (induction over derivations assumed)",
               "A: _gen_nt freshness; eos is not a nonterminal name of the grammar")
    for f in (locally_normalize, add_eos):
        try:
            f(run)
        except (I.OutOfSubset, KeyError) as e:
            run.obligation(f"C20/{f.__name__}", "out-of-subset", detail=str(e))

    from props import resolves as _res
    _res.budget_obligation(run, "C20")

"""C04 - the grammar language models are the exact left-to-right factorisation of the weighted language.

PROVED layer  : props/C04_proved.py (Chart.normalize, chain-rule loop, rescale unit-consistency) - see run().
BOUNDED layer : for LM in {earley.EarleyLM, earley_rescaled.EarleyLM, cky.CKYLM} built on G (Float weights, finite total
                weight), with PW_e = prefix weight in the EOS-augmented grammar (spec, built here):
   viable c      : sum_t p_next(c)[t] == 1;   p_next(c)[t] == PW_e(c.t) / PW_e(c)   (so p_next(c)[EOS] ~ [[G]](c))
   non-viable c  : every next-token weight is zero
   unnormalised  : model.next_token_weights(model.chart(c))[t] == model(c.t) == PW_e(c.t)
                   (the rescaled parser normalises inside next_token_weights: compared after normalisation there)
   chain rule    : lm(x.EOS) == [[G]](x) / Z
   back ends agree; long contexts whose plain-float weight underflows (rescaled variant): p_next and Earley.logp
against the independent oracles cfgspec.prefix_weight / cfg_weight / treesums (exact rationals where the fixed points are
rational-linear, so a 1e-450 prefix weight is still an exact number on the spec side).
"""
import math
import random
from fractions import Fraction

from props import common
from props.common import call, num_close, sig
from vlib import bridge, domains, engine, advheap
from vlib.spec import cfgspec, lmspec
from vlib.spec.algebra import Q

ID = "C04"
LEVEL = "other"

BACKENDS = ("earley", "rescaled", "cky")
QUAL = dict(earley="earley.EarleyLM", rescaled="earley_rescaled.EarleyLM", cky="cky.CKYLM")

OB_BUILD = "C04/%s.__init__/constructs"
OB_SUM = "C04/%s.p_next/sums-to-one"
OB_PROP = "C04/%s.p_next/proportional-to-prefix-weights"
OB_ZERO = "C04/%s.p_next/zero-on-non-viable-context"
OB_UNNORM = "C04/%s.next_token_weights/equals-parser-weight-of-extension"
OB_CHAIN = "C04/lm.LM.__call__/chain-rule[%s]"
OB_AGREE = "C04/lm.LM.p_next/back-ends-agree"
OB_LOGP = "C04/earley_rescaled.Earley.logp/log-prefix-weight"
OB_LONG = "C04/earley_rescaled.EarleyLM.p_next/long-context"

AGENDA_ABS = 1e-10     # 100 x the stopping threshold of CFG.agenda (weights are damped so its tail is far inside)
MIN_COND = 1e-5


def _lm_class(backend):
    from genlm.grammar.parse import earley, earley_rescaled, cky
    return dict(earley=earley.EarleyLM, rescaled=earley_rescaled.EarleyLM, cky=cky.CKYLM)[backend]


def conditioning(g):
    """Smallest positive product of total weights / null weights over a contiguous part of a rule body: the library
    computes such numbers by an iteration that stops at an absolute change of 1e-12, so their relative accuracy is
    ~1e-12/value and every chart entry inherits it.  Returns (cond, Z, e, exact) or None for a divergent instance."""
    try:
        Z, ex1 = cfgspec.treesums(Q, g)
        e, ex2 = cfgspec.null_weights(Q, g)
    except ArithmeticError:
        return None
    best = 1.0
    for tab, term in ((Z, 1), (e, 0)):
        for _, _, b in g.rules:
            for i in range(len(b)):
                p = 1
                for j in range(i, len(b)):
                    p = p * (term if b[j] in g.V else tab[b[j]])
                    if p == 0:
                        break
                    best = min(best, float(p))
    return best, Z, e, (ex1 and ex2)


def contexts(V, eos, maxlen):
    cs = cfgspec.strings_upto(V, maxlen)
    short = [c for c in cs if len(c) <= 2]
    a = sorted(V, key=repr)[:1]
    return cs + [c + (eos,) for c in short] + [(eos,) + tuple(a)]


# ------------------------------------------------------------------------------------------------ domain
def long_shapes():
    """Finite-mass grammars on which some token has conditional probability ~1e-3 in every position, so that the weight
    of a context of n such tokens is ~1e-3n: plain doubles underflow beyond n ~ 108.  All fixed points are rational."""
    F = Fraction
    V = frozenset("abc")
    t = F(1, 1000)
    c = {}
    c["right_linear"] = (cfgspec.G("N0", V, [(t, "N0", ("a", "N0")), (F(1, 3), "N0", ("b", "N0")), (F(1, 2), "N0", ("c",))]), "a")
    c["left_linear"] = (cfgspec.G("N0", V, [(t, "N0", ("N0", "a")), (F(1, 3), "N0", ("N0", "b")), (F(1, 2), "N0", ("c",)),
                                            (F(1, 5), "N0", ())]), "a")
    c["centre"] = (cfgspec.G("N0", V, [(t, "N0", ("a", "N0", "b")), (F(1, 2), "N0", ("c",)), (F(1, 7), "N0", ("a", "N0"))]), "a")
    c["nullable_unary"] = (cfgspec.G("N0", V, [(F(1), "N0", ("N1", "N0")), (F(1, 2), "N0", ("c",)), (t, "N1", ("a",)),
                                               (F(1, 3), "N1", ("N2",)), (F(1, 4), "N2", ()), (F(1, 9), "N2", ("N1",)),
                                               (F(1, 5), "N1", ("b",))]), "a")
    c["pcfg_small_token"] = (cfgspec.G("N0", V, [(t, "N0", ("a", "N0")), (F(499, 1000), "N0", ("b", "N0")), (F(1, 2), "N0", ("c",))]), "a")
    c["two_level"] = (cfgspec.G("N0", V, [(F(1, 2), "N0", ("N1", "c")), (t, "N1", ("N1", "a")), (t, "N1", ("a",)),
                                          (F(1, 3), "N0", ("b",))]), "a")
    # two analyses of the same span at very different scales (1e-5 against 1/2 per token) joined by a unary rule: after ~70 tokens the
    # small one is exactly 0.0 in the rescaled chart while its item is still present (seeded change C04-6)
    e = F(1, 100000)
    c["competing_scales"] = (cfgspec.G("N0", V, [(F(1), "N0", ("N1", "c")), (F(1), "N0", ("N3", "c")), (F(1), "N3", ("N1",)), (F(1), "N3", ("N2",)),
                                                 (e, "N1", ("a", "N1")), (e, "N1", ("a",)), (F(1, 2), "N2", ("a", "N2")), (F(1, 2), "N2", ("a",))]), "a")
    # a token of conditional probability 1e-14 in every position: the rescaling coefficient of a column is the reciprocal of that
    # probability (1e14) and must not be clipped (seeded change C04-10)
    c["tiny_token"] = (cfgspec.G("N0", V, [(F(1, 10**14), "N0", ("a", "N0")), (F(3, 10), "N0", ("b", "N0")), (F(7, 10), "N0", ("c",))]), "a")
    return c


def bound(tier, g, maxlen=None):
    """String/context length bound: 4 (quick) / 5 (thorough) for |V| <= 2, one less for larger vocabularies."""
    return maxlen or ((4 if tier == "quick" else 5) - (0 if len(g.V) <= 2 else 1))


def make_cases(tier, seed, n_random=None, maxlen=None, long_n=None):
    rng = random.Random(seed)
    n_random = n_random if n_random is not None else (200 if tier == "quick" else 1500)
    doms = domains.grammar_domain(tier, seed, n_random=n_random)
    cases = []
    k = 0
    n_ids = 0
    for name, g0 in doms:
        # damp every rule weight by 2: keeps the weights generic, makes every fixed point converge with ratio < 1/2
        g = g0.map_weights(lambda w: w / 2)
        cond = conditioning(g)
        if cond is None or cond[0] < MIN_COND:
            continue
        variants = [("raw", g)]
        if cond[3] and cond[1][g.S] > 0:
            gn = lmspec.normalize(g)[0]
            c2 = conditioning(gn)
            if c2 is not None and c2[0] >= MIN_COND:
                variants.append(("normalised", gn))
        for vname, gv in variants:
            if tier == "quick" and vname == "normalised" and name.startswith("rand") and k % 2:
                k += 1
                continue
            k += 1
            heap = "real" if k % 2 else ["fifo", "lifo", "random"][(k // 2) % 3]
            ident = (k % 4) < 2
            cases.append(dict(kind="short", name=f"{name}~{vname}", g=gv, heap=heap, maxlen=bound(tier, gv, maxlen),
                              rename="id" if ident else ["tuple", "rev"][k % 2],
                              order=None if ident else common.perm(len(gv.rules), rng)))
            if vname == "raw" and (n_ids < 40 or (tier != "quick" and k % 6 == 0)):
                # token-id / byte vocabularies: terminals are the integers 0, 1, 2 - the parsers number their nonterminals with
                # integers too, so a terminal must be recognised by the vocabulary, not by its type (seeded change C04-3)
                n_ids += 1
                from vlib.dom_cfg import SPARSE_IDS
                ids = {a: SPARSE_IDS[j] for j, a in enumerate(sorted(gv.V))}
                gi = type(gv)(gv.S, frozenset(ids.values()), [(w, h, tuple(ids.get(y, y) for y in b)) for w, h, b in gv.rules])
                cases.append(dict(kind="short", name=f"{name}~{vname}#ids", g=gi, heap="real", maxlen=bound(tier, gv, maxlen), rename="id", order=None))
    shapes = long_shapes()
    if tier == "quick":
        n = long_n or 115
        gL, tok = shapes["right_linear"]
        cases.append(dict(kind="long", name="long:right_linear", g=gL, token=tok, n=n, positions=[n], heap="real", subnormal=True))
        gL, tok = shapes["nullable_unary"]
        cases.append(dict(kind="long", name="long:nullable_unary", g=gL, token=tok, n=n, positions=[n], heap="lifo"))
        # far below even the SQUARE ROOT of the double range (context weight 1e-1800): a coefficient that only half compensates
        # the decay would still underflow here (strengthened after the independently seeded change C04-1)
        gL, tok = shapes["right_linear"]
        cases.append(dict(kind="deep", name="deep:right_linear", g=gL, token=tok, n=600, heap="real"))
        gL, tok = shapes["competing_scales"]
        cases.append(dict(kind="long", name="long:competing_scales", g=gL, token=tok, n=90, positions=[60, 75, 90], heap="real"))
        gL, tok = shapes["tiny_token"]
        cases.append(dict(kind="long", name="long:tiny_token", g=gL, token=tok, n=100, positions=[40, 90, 100], heap="real"))
    else:
        gL, tok = shapes["right_linear"]
        for n_ in (600, 1500):
            cases.append(dict(kind="deep", name=f"deep:right_linear@{n_}", g=gL, token=tok, n=n_, heap=["real", "lifo"][n_ > 1000]))
        for j, (name, (gL, tok)) in enumerate(shapes.items()):
            # the exact oracle is cubic in the context length with a large constant on left-recursive shapes
            slow = name in ("left_linear", "two_level")
            n = long_n or (112 if slow else 150)
            groups = ([1, 60], [109], [n]) if slow else ([1, 60], [107, 108, 109], [n - 20], [n])
            for pos in groups:
                cases.append(dict(kind="long", name="long:" + name, g=gL, token=tok, n=n, positions=pos,
                                  heap=["real", "fifo", "lifo", "random"][(j + pos[0]) % 4]))
    return cases


# ------------------------------------------------------------------------------------------------ checks
class Ctx:
    def __init__(self, case):
        self.case = case
        self.out = dict(n=0, keys=[], violations=[])
        self.worst = 0.0

    def viol(self, ob, what, backend, arg, got, exp, **kw):
        case = self.case
        self.out["violations"].append(dict(
            obligation=ob, what=what, signature=sig(backend, what.split(":")[0], case["name"], case.get("heap")),
            replay=dict(grammar=bridge.fmt_grammar(case["g"]), semiring="Float", backend=backend, heap=case.get("heap"),
                        rename=case.get("rename"), order=case.get("order"), argument=arg, observed=lmspec.short(got),
                        expected=lmspec.short(exp), case=common.enc(case), **kw)))


def _patch_heaps(case):
    from genlm.grammar.parse import earley, earley_rescaled
    real = earley.LocatorMaxHeap, earley_rescaled.LocatorMaxHeap
    if case["heap"] != "real":
        H = advheap.make(case["heap"], seed=len(case["g"].rules))
        earley.LocatorMaxHeap = H
        earley_rescaled.LocatorMaxHeap = H
    return real


def _unpatch(real):
    from genlm.grammar.parse import earley, earley_rescaled
    earley.LocatorMaxHeap, earley_rescaled.LocatorMaxHeap = real


def _f(x):
    return float(x)


def check_short(cx):
    from genlm.grammar.cfglm import EOS
    case, out = cx.case, cx.out
    g = case["g"]
    cond = conditioning(g)
    if cond is None or cond[0] < MIN_COND:
        return
    cnd, Z, _, _ = cond
    rel = 1e-7 + AGENDA_ABS / cnd
    ge = lmspec.add_eos(g, EOS)
    cs = contexts(g.V, EOS, case["maxlen"])
    Ve = sorted(ge.V, key=repr)
    try:
        nw, pw = {}, {}
        for c in cs:
            nw[c], _ = lmspec.next_weights(Q, ge, c)
            pw[c] = sum(nw[c].values())            # mass of the proper extensions of c (normaliser of p_next)
            if EOS not in c:
                tot, _ = cfgspec.prefix_weight(Q, ge, c)
                assert num_close(tot, pw[c], rel=1e-9, abs_=1e-30), ("oracle: telescoping", c, tot, pw[c])
        xs = cfgspec.strings_upto(g.V, case["maxlen"])
        sw = {x: cfgspec.cfg_weight(Q, g, x)[0] for x in xs}
        for x in xs:
            assert num_close(nw[x][EOS], sw[x], rel=1e-9, abs_=1e-30), ("oracle: EOS weight", x, nw[x][EOS], sw[x])
    except ArithmeticError:
        return
    Zs = Z[g.S]

    def close(got, exp, scale=1.0):
        ok = num_close(got, exp, rel=rel * scale, abs_=1e-14)
        if exp != 0 and got == got:
            try:
                cx.worst = max(cx.worst, abs(float(got) - float(exp)) / abs(float(exp)) / (rel * scale))
            except (OverflowError, ZeroDivisionError):
                pass
        return ok

    cfg = bridge.to_cfg(g, "Float", rename=common.renamer(case["rename"]), order=case["order"])
    dists = {}
    for be in BACKENDS:
        q = QUAL[be]
        st, lm = call(_lm_class(be), cfg)
        out["n"] += 1
        if st != "ok":
            cx.viol(OB_BUILD % q, "raised: " + lm.split(":")[0], be, None, lm, "a language model")
            continue
        m = lm.model
        dists[be] = {}
        for c in cs:
            viable = pw[c] > 0
            st, p = call(lm.p_next, c)
            out["n"] += 1
            if st != "ok":
                cx.viol((OB_PROP if viable else OB_ZERO) % q, "raised: " + p.split(":")[0], be, list(c), p,
                        "a distribution" if viable else "all zero")
                continue
            pv = {t: _f(v) for t, v in p.items()}
            stray = [t for t, v in pv.items() if t not in ge.V and v != 0]
            if stray:
                cx.viol(OB_PROP % q, "wrong-support: weight on a symbol outside the vocabulary", be, list(c), stray, Ve)
            if viable:
                dists[be][c] = pv
                s = math.fsum(pv.values())
                if not num_close(s, 1, rel=1e-9, abs_=0):
                    cx.viol(OB_SUM % q, "wrong-value: does not sum to one", be, list(c), s, 1)
                out["n"] += 1
                bad = [(t, pv.get(t, 0.0), _f(nw[c][t] / pw[c])) for t in Ve if not close(pv.get(t, 0.0), nw[c][t] / pw[c])]
                if bad:
                    cx.viol(OB_PROP % q, "wrong-value", be, list(c), {t: a for t, a, _ in bad}, {t: b for t, _, b in bad})
            else:
                if any(v != 0 for v in pv.values()):
                    cx.viol(OB_ZERO % q, "wrong-value: non-zero weight after a context nothing extends", be, list(c), pv, "all zero")
            # ---- before normalisation: next-token weight == parser weight of the extended context == PW_e(c.t)
            if be == "cky":
                st, w = call(m.p_next, c)
            else:
                st, w = call(lambda: m.next_token_weights(m.chart(c)))
            out["n"] += 1
            if st != "ok":
                cx.viol(OB_UNNORM % q, "raised: " + w.split(":")[0], be, list(c), w, "weights")
                continue
            for t in Ve:
                exp = nw[c][t]
                got = _f(w[t])
                st, pv2 = call(m, c + (t,))
                out["n"] += 1
                if st != "ok":
                    cx.viol(OB_UNNORM % q, "raised: " + pv2.split(":")[0], be, list(c + (t,)), pv2, exp)
                    continue
                pv2 = _f(pv2)
                if be == "rescaled":
                    # next_token_weights of the rescaled parser is already normalised (units cancel there)
                    expn = (exp / pw[c]) if viable else 0
                    if not close(got, expn) or not close(pv2, exp):
                        cx.viol(OB_UNNORM % q, "wrong-value", be, list(c + (t,)), dict(next_token_weight=got, parser=pv2),
                                dict(next_token_weight=_f(expn), parser=_f(exp)))
                elif not close(got, exp) or not close(pv2, exp) or not num_close(got, pv2, rel=1e-9, abs_=1e-300):
                    cx.viol(OB_UNNORM % q, "wrong-value", be, list(c + (t,)), dict(next_token_weight=got, parser=pv2),
                            dict(both=_f(exp)))
        # ---- chain rule
        if Zs > 0:
            for x in xs:
                st, v = call(lm, x + (EOS,))
                out["n"] += 1
                exp = sw[x] / Zs
                if st != "ok":
                    cx.viol(OB_CHAIN % q, "raised: " + v.split(":")[0], be, list(x), v, exp)
                elif not close(_f(v), exp, scale=len(x) + 2):
                    cx.viol(OB_CHAIN % q, "wrong-value", be, list(x), _f(v), _f(exp))
    # ---- agreement of the back ends (an extra; each is already judged against the oracle)
    for c in cs:
        have = [be for be in BACKENDS if c in dists.get(be, {})]
        if len(have) < 2:
            continue
        out["n"] += 1
        ref = dists[have[0]][c]
        for be in have[1:]:
            if any(not num_close(ref.get(t, 0.0), dists[be][c].get(t, 0.0), rel=2 * rel, abs_=1e-14) for t in Ve):
                cx.viol(OB_AGREE, "wrong-value: back ends disagree", f"{have[0]} vs {be}", list(c), dists[be][c], ref)
    if Zs > 0:
        out["keys"].append(sig(case["name"], case["rename"], case["heap"]))
    out["worst"] = cx.worst
    if case["name"].split("~")[0] in ("palindrome", "null_unary_mix") and case["rename"] == "id" and not case["name"].endswith("#ids"):
        c = ("a",)
        out["sample"] = dict(grammar=bridge.fmt_grammar(g), backends=list(dists), contexts=len(cs), rel_tolerance=rel,
                             context=list(c), expected_p_next={t: _f(nw[c][t] / pw[c]) for t in Ve} if pw[c] > 0 else None)


def check_long(cx):
    """Rescaled variant on contexts whose weight is far below the smallest double."""
    from genlm.grammar.cfglm import EOS
    from genlm.grammar.parse import earley_rescaled
    case, out = cx.case, cx.out
    g, tok, n = case["g"], case["token"], case["n"]
    ge = lmspec.add_eos(g, EOS)
    Ve = sorted(ge.V, key=repr)
    x = (tok,) * n
    cfg = bridge.to_cfg(g, "Float")
    q = QUAL["rescaled"]
    st, lm = call(earley_rescaled.EarleyLM, cfg)
    out["n"] += 1
    if st != "ok":
        cx.viol(OB_BUILD % q, "raised: " + lm.split(":")[0], "rescaled", None, lm, "a language model")
        return
    rel = 1e-6
    for k in case["positions"]:
        c = x[:k]
        nw, exact = lmspec.next_weights(Q, ge, c)
        assert exact, "long-context shapes must have rational fixed points"
        pw = sum(nw.values())
        assert pw > 0
        st, p = call(lm.p_next, c)
        out["n"] += 1
        if st != "ok":
            cx.viol(OB_LONG, "raised: " + p.split(":")[0], "rescaled", dict(token=tok, length=k), p, "a distribution")
            continue
        pv = {t: _f(v) for t, v in p.items()}
        exp = {t: _f(nw[t] / pw) for t in Ve}
        s = math.fsum(pv.values())
        if not num_close(s, 1, rel=1e-9, abs_=0):
            cx.viol(OB_LONG, "wrong-value: does not sum to one", "rescaled", dict(token=tok, length=k), s, 1)
        elif any(not num_close(pv.get(t, 0.0), exp[t], rel=rel, abs_=1e-14) for t in Ve):
            cx.viol(OB_LONG, "wrong-value", "rescaled", dict(token=tok, length=k), pv, exp)
        # log of the parser weight of the context (= log PW_e(c)) and of the completed string
        for s_, w in ((c, pw), (c + (EOS,), nw[EOS])):
            if w == 0:
                continue
            st, lp = call(lm.model.logp, s_)
            out["n"] += 1
            want = lmspec.log_of(w)
            if st != "ok":
                cx.viol(OB_LOGP, "raised: " + lp.split(":")[0], "rescaled", dict(token=tok, length=k, eos=s_[-1:] == (EOS,)), lp, want)
            elif not num_close(_f(lp), want, rel=1e-9, abs_=1e-6):
                cx.viol(OB_LOGP, "wrong-value", "rescaled", dict(token=tok, length=k, eos=s_[-1:] == (EOS,)), _f(lp), want)
        if k >= 109:
            out["keys"].append(sig(case["name"], k, case["heap"]))
    if case["positions"][-1] == n:
        out["sample"] = dict(grammar=bridge.fmt_grammar(g), context=f"{tok}^{n}", log10_context_weight=round(lmspec.log_of(pw) / math.log(10), 2))
    if case.get("subnormal"):
        # the plain back ends on contexts whose prefix weight is a SUBNORMAL double (positive, below 1/DBL_MAX = 5.6e-309, yet with
        # >= 37 significant bits): the conditional distribution is still a ratio of representable numbers
        # (strengthened after seeded change C04-9: 1/Z overflows there)
        from genlm.grammar.parse import earley as earley_plain, cky as cky_plain
        OB_SUB = "C04/lm.LM.p_next/subnormal-prefix-weight"
        ks = []
        for k in range(max(1, n - 14), max(2, n - 8)):       # right_linear, n = 115: the window is k = 103
            nwk, _ = lmspec.next_weights(Q, ge, x[:k])
            pwk = sum(nwk.values())
            if Fraction(1, 10**312) < pwk < Fraction(5, 10**309):
                ks.append((k, nwk, pwk))
        for qname, ctor in (("earley", earley_plain.EarleyLM), ("cky", cky_plain.CKYLM)):
            st, lm2 = call(ctor, cfg)
            if st != "ok":
                continue
            for k, nwk, pwk in ks[:2]:
                st, p = call(lm2.p_next, x[:k])
                out["n"] += 1
                if st != "ok":
                    cx.viol(OB_SUB, "raised: " + p.split(":")[0], qname, dict(token=tok, length=k), p, "a distribution")
                    continue
                pv = {t: _f(v) for t, v in p.items()}
                exp = {t: _f(nwk[t] / pwk) for t in Ve}
                s = math.fsum(pv.values())
                if not num_close(s, 1, rel=1e-6, abs_=0) or any(not num_close(pv.get(t, 0.0), exp[t], rel=1e-6, abs_=1e-12) for t in Ve):
                    cx.viol(OB_SUB, "wrong-value: subnormal prefix weight", qname, dict(token=tok, length=k, prefix_weight=float(pwk)), pv, exp)


def check_deep(cx):
    """Right-linear grammar N0 -> a N0 | b N0 | c: after a^k the parser is in the same situation for every k, so the next-token
    distribution after a^n equals the one after a^3 (computed by the exact spec) and PW_e(a^n) = t^n * PW_e(()) - an oracle that
    needs no cubic computation on the long context."""
    from genlm.grammar.cfglm import EOS
    from genlm.grammar.parse import earley_rescaled
    case, out = cx.case, cx.out
    g, tok, n = case["g"], case["token"], case["n"]
    ge = lmspec.add_eos(g, EOS)
    Ve = sorted(ge.V, key=repr)
    nw, exact = lmspec.next_weights(Q, ge, (tok,) * 3)
    pw3 = sum(nw.values())
    exp = {t: _f(nw[t] / pw3) for t in Ve}
    t_w = [w for w, h, b in g.rules if b[:1] == (tok,)][0]
    pw0 = sum(lmspec.next_weights(Q, ge, ())[0].values())
    cfg = bridge.to_cfg(g, "Float")
    st, lm = call(earley_rescaled.EarleyLM, cfg)
    out["n"] += 1
    if st != "ok":
        cx.viol(OB_BUILD % QUAL["rescaled"], "raised: " + lm.split(":")[0], "rescaled", None, lm, "a language model")
        return
    c = (tok,) * n
    # feed the context token by token (a cold chart() recursion this deep would hit Python's recursion limit)
    for k in range(0, n + 1, 50):
        st, p = call(lm.p_next, c[:k])
        if st != "ok":
            break
    st, p = call(lm.p_next, c)
    out["n"] += 1
    where = dict(token=tok, length=n)
    if st != "ok":
        cx.viol(OB_LONG, "raised: " + p.split(":")[0], "rescaled", where, p, "a distribution")
        return
    pv = {t: _f(v) for t, v in p.items()}
    s = math.fsum(pv.values())
    if not num_close(s, 1, rel=1e-9, abs_=0):
        cx.viol(OB_LONG, "wrong-value: does not sum to one", "rescaled", where, s, 1)
    elif any(not num_close(pv.get(t, 0.0), exp[t], rel=1e-6, abs_=1e-14) for t in Ve):
        cx.viol(OB_LONG, "wrong-value", "rescaled", where, pv, exp)
    st, lp = call(lm.model.logp, c)
    out["n"] += 1
    want = n * math.log(float(t_w)) + math.log(float(pw0))
    if st != "ok":
        cx.viol(OB_LOGP, "raised: " + lp.split(":")[0], "rescaled", where, lp, want)
    elif not num_close(_f(lp), want, rel=1e-9, abs_=1e-6):
        cx.viol(OB_LOGP, "wrong-value", "rescaled", where, _f(lp), want)
    out["keys"].append(sig(case["name"], n))


def check_case(case):
    cx = Ctx(case)
    real = _patch_heaps(case)
    try:
        if case["kind"] == "deep":
            check_deep(cx)
        elif case["kind"] == "short":
            check_short(cx)
        else:
            check_long(cx)
    finally:
        _unpatch(real)
    return cx.out


def bounded(run):
    tier = run.tier
    assert lmspec.selfcheck() > 0
    cases = make_cases(tier, run.seed)
    nlong = sum(1 for c in cases if c["kind"] == "long")
    run.rule(f"grammars: corpus of adversarial shapes (nullable and unary-cyclic parts, left/right recursion, useless symbols, "
             f"empty language) + 200 seeded random G(3,2,5,3) [thorough: 1500 of G(4,3,7,3)], generic rational weights (damped by 2, Float "
             f"semiring, machine floats), each unnormalised and - where its fixed points are rational - locally normalised by "
             f"the spec; instances whose smallest fixed-point product is < {MIN_COND} are skipped (ill-conditioned for an "
             f"iteration stopping at 1e-12); back ends {list(BACKENDS)}; contexts: all strings over V up to length "
             f"{4 if tier == 'quick' else 5} (one less when |V| > 2; viable or not) + contexts containing EOS; every token incl. EOS; chain rule for all x "
             f"of that length; tolerance rel 1e-7 + {AGENDA_ABS}/conditioning; variants: rule permutation, nonterminal renaming, "
             f"agenda tie-break policies fifo/lifo/random, PYTHONHASHSEED in the listed set; {nlong} long-context cases "
             f"(rescaled variant, token probability 1e-3, length {115 if tier == 'quick' else '150 (112 on the two left-recursive shapes)'}: weight ~1e-{345 if tier == 'quick' else 450}); "
             f"non-trivial = total weight > 0 (long: context weight below the double range); distinct = (grammar, variant, heap). "
             f"NOT covered: the rescaled parser's next-token weights BEFORE its internal normalisation (not observable without a "
             f"hook); Fraction weights; contexts longer than stated")
    seeds = (0, 1) if tier == "quick" else (0, 1, 2, 3)
    run.extra["hash_seeds"] = list(seeds)
    engine.run_cases(run, "props.C04", "check_case", cases, hash_seeds=seeds, per_case_timeout=120 if tier == "quick" else 600,
                     split=(tier == "quick"))


def run(run, only=None):
    run.assume("T-TELESCOPE: sum_t PW_e(c.t) = PW_e(c) for EOS-terminated languages (asserted on the oracle for every context)",
               "oracle: cfgspec.prefix_weight / cfg_weight / treesums on the EOS-augmented neutral grammar built by "
               "lmspec.add_eos (validated against derivation enumeration by lmspec.selfcheck)",
               "A7: arsenal LocatorMaxHeap pops a maximal-priority entry, ties arbitrary",
               "A1: machine floats; relative tolerance stated in the bounded rule")
    if only != "bounded":
        common.run_proved(run, "C04")
    if only != "proved":
        bounded(run)


def replay(doc):
    return common.generic_replay(doc, check_case)

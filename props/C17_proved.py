"""PROVED-class obligations of C17: see props/constructions.py."""
import z3

from props import constructions as C
from props import constructions2 as C2
from vlib.pyvc import interp as I


def proved(run):
    run.trust("pyvc symbolic interpreter over the real AST", f"z3 {z3.get_version_string()}")
    run.assume("T-TOCFG: the right-/left-linear grammar of an automaton with disjoint state and symbol names has the automaton's series (assumed)", 'T-UTF8')
    for f in (C.to_cfg, C.to_cfg_wf, C2.c17_to_bytes_fresh, C2.c17_cfg_to_bytes):
        try:
            f(run)
        except (I.OutOfSubset, KeyError) as e:
            run.obligation("C17/" + f.__name__, "out-of-subset", detail=str(e))
    from props import frames_automata
    frames_automata.run_frames(run, "C17")

"""C05 - incremental parsing is history-independent; queries and transformations are pure.

PROVED layer  : props/C05_proved.py (frames, cache representation invariant) - see run().
BOUNDED layer : three kinds of cases, all on the real objects:
  history  - a parser / language-model object answers a sequence of <= 5 queries (weight of a string, next-token
             weights, chain-rule probability, chart, clear_cache) over sibling / nested / repeated / non-viable
             prefixes of length <= 4; EVERY answer is compared with the answer of a FRESH object (built from a
             fresh copy of the grammar) that is asked this query only.  Answers are compared as values of the
             documented abstract views: numbers up to 1e-7, Charts as mappings with default zero (explicit zero
             entries are not a difference), chart columns as (items -> weight) mappings ignoring empty waiting
             lists.  Earlier answers are re-read at the end of the history (they must still be valid) and the
             grammars held by the object must be unchanged.
  purity   - rules / V / S / N of a grammar are snapshotted before and after every query and transformation
             of DESIGN 4-C05 part 1; results returned earlier (grammars) must also stay unchanged.
  long     - a context of 60 (quick) / 120-180 (thorough) tokens: a warm object that was fed the context token by
             token, the same object after clear_cache(), and cold fresh objects must give the same answers.
The oracle is the property statement itself: "same query, same answer" - the reference is a fresh object, never
the queried one.
"""
import copy
import random

from props import common
from props.common import call, num_close, sig
from vlib import bridge, dom_cfg, engine
from vlib.spec import cfgspec

ID = "C05"
LEVEL = "other"

PARSERS = ["Earley", "EarleyRescaled", "IncrementalCKY"]
LMS = ["EarleyLM", "EarleyLMRescaled", "CKYLM", "BoolCFGLM"]
FLOAT_ONLY = {"EarleyRescaled", "EarleyLM", "EarleyLMRescaled", "CKYLM"}
SEMIRINGS_QUICK = ["Float", "Real", "Boolean", "MaxTimes"]
SEMIRINGS_THOROUGH = ["Float", "FloatFrac", "Real", "Boolean", "MaxTimes", "Q"]

MODULE = {"Earley": "earley.Earley", "EarleyRescaled": "earley_rescaled.Earley", "IncrementalCKY": "cky.IncrementalCKY",
          "EarleyLM": "earley.EarleyLM", "EarleyLMRescaled": "earley_rescaled.EarleyLM", "CKYLM": "cky.CKYLM",
          "BoolCFGLM": "cfglm.BoolCFGLM"}


def OB(kind, func, what):
    return f"C05/{MODULE[kind]}.{func}/{what}"


# ---------------------------------------------------------------------------- objects and queries
def build(kind, cfg):
    from genlm.grammar.parse import earley, earley_rescaled, cky
    from genlm.grammar import cfglm
    if kind == "Earley":
        return earley.Earley(cfg)
    if kind == "EarleyRescaled":
        return earley_rescaled.Earley(cfg)
    if kind == "IncrementalCKY":
        return cky.IncrementalCKY(cfg.cnf)
    if kind == "EarleyLM":
        return earley.EarleyLM(cfg)
    if kind == "EarleyLMRescaled":
        return earley_rescaled.EarleyLM(cfg)
    if kind == "CKYLM":
        return cky.CKYLM(cfg)
    if kind == "BoolCFGLM":
        return cfglm.BoolCFGLM(cfg, alg="earley")
    raise ValueError(kind)


def eos():
    from genlm.grammar.cfglm import EOS
    return EOS


def _zero_of(obj):
    for path in (("cfg",), ("model", "cfg")):
        o = obj
        try:
            for a in path:
                o = getattr(o, a)
            return o.R.zero
        except AttributeError:
            continue
    return 0


def _num(v):
    return bridge.unwrap(v)


def _is_zero(v, zero):
    try:
        return bool(v == zero) or _num(v) == _num(zero)
    except Exception:  # noqa: BLE001
        return False


def view_mapping(ch, zero):
    return {k: _num(v) for k, v in ch.items() if not _is_zero(v, zero)}


def view_cols(cols, zero):
    """Abstract view of a chart (list of columns) of either parser family."""
    out = []
    for col in cols:
        if hasattr(col, "i_chart"):        # Earley column
            w = {}
            for Y, items in col.waiting_for.items():
                if items:
                    w[Y] = sorted(items, key=repr)
            v = dict(k=col.k, i=view_mapping(col.i_chart, zero), c=view_mapping(col.c_chart, zero), w=w)
            if hasattr(col, "rescale"):
                v["rescale"] = _num(col.rescale)
            out.append(v)
        else:                              # CKY column: {i: Chart{X: weight}}
            v = {}
            for i, ch in col.items():
                for X, wt in ch.items():
                    if not _is_zero(wt, zero):
                        v[(i, X)] = _num(wt)
            out.append(v)
    return out


def same(a, b):
    if isinstance(a, dict) and isinstance(b, dict):
        return a.keys() == b.keys() and all(same(a[k], b[k]) for k in a)
    if isinstance(a, (list, tuple)) and isinstance(b, (list, tuple)):
        return len(a) == len(b) and all(same(x, y) for x, y in zip(a, b))
    if isinstance(a, (dict, list, tuple)) or isinstance(b, (dict, list, tuple)):
        return False
    if isinstance(a, str) or isinstance(b, str):
        return a == b
    if isinstance(a, float) and isinstance(b, float) and a != a and b != b:
        return True          # NaN from both the warm and the fresh object: the same (history-independent) answer
    try:
        return num_close(a, b)
    except OverflowError:
        return False


def query(kind, obj, q):
    """Run query q = (op, prefix) on obj.  Returns (outcome, raw) with outcome = ('ok', view) | ('exc', type name);
    raw is the returned object (kept to re-read it later)."""
    op, p = q
    p = tuple(p)
    zero = _zero_of(obj)
    lm = kind in LMS
    try:
        if op == "clear":
            obj.clear_cache()
            return ("ok", None), None
        if op == "call":
            r = obj(p + (eos(),)) if lm else obj(p)
            return ("ok", _num(r)), None
        if op == "model":
            r = obj.model(p)
            return ("ok", _num(r)), None
        if op == "seq":
            h = len(p) // 2
            r = obj.p_next_seq(p[:h], p[h:])
            return ("ok", _num(r)), None
        if op == "p_next":
            if lm:
                r = obj.p_next(p)
            elif kind == "IncrementalCKY":
                r = obj.p_next(p)
            else:
                r = obj.next_token_weights(obj.chart(p))
            return ("ok", view_mapping(r, zero)), ("mapping", r, zero)
        if op == "chart":
            r = (obj.model if lm else obj).chart(p)
            return ("ok", view_cols(r, zero)), ("cols", r, zero)
        raise ValueError(op)
    except bridge.Timeout:
        raise
    except Exception as e:  # noqa: BLE001
        return ("exc", type(e).__name__ + ": " + str(e)[:80]), None


def reread(raw):
    tag, r, zero = raw
    return view_mapping(r, zero) if tag == "mapping" else view_cols(r, zero)


def ops_of(kind):
    if kind in LMS:
        return ["p_next", "call", "model", "chart", "seq", "clear"]
    return ["p_next", "call", "chart", "clear"]


def grammar_snapshot(cfg):
    rules = {}
    for r in cfg.rules:
        w = _num(r.w)
        k = (repr(r.head), repr(tuple(r.body)), w if isinstance(w, (int, float, bool, tuple)) or hasattr(w, "numerator") else repr(w))
        rules[k] = rules.get(k, 0) + 1
    return dict(S=repr(cfg.S), V=sorted(map(repr, cfg.V)), N=sorted(map(repr, cfg.N)), rules=rules, n=len(cfg.rules))


def snap_diff(a, b):
    return [k for k in ("S", "V", "N", "rules", "n") if a[k] != b[k]]


def grammars_of(obj):
    """(label, grammar object) for every CFG an object holds."""
    out = []
    for label, path in (("cfg", ("cfg",)), ("model.cfg", ("model", "cfg")), ("pfg", ("pfg",)), ("model.cfg.cfg", ("model", "cfg", "cfg"))):
        o = obj
        try:
            for a in path:
                o = getattr(o, a)
        except AttributeError:
            continue
        if hasattr(o, "rules"):
            out.append((label, o))
    return out


# ---------------------------------------------------------------------------- history generation
def member_prefixes(g, rng, k=3):
    """Prefixes (length <= 4) of members of the language: viable by construction."""
    out = set()
    for _ in range(k):
        s = dom_cfg.long_string(g, rng.choice([2, 3, 5]), rng, cap=60)
        if s:
            for n in range(0, 5):
                out.add(tuple(s[:n]))
    return sorted(out, key=repr)


def gen_histories(g, kind, rng, n, maxlen=4):
    V = sorted(g.V, key=repr)
    ops = ops_of(kind)
    viable = member_prefixes(g, rng) or [()]
    allp = cfgspec.strings_upto(g.V, maxlen)
    hs = []

    def related(p):
        pool = [p[:k] for k in range(len(p) + 1)]
        if p:
            pool += [p[:-1] + (c,) for c in V]                      # siblings
        if len(p) < maxlen:
            pool += [p + (c,) for c in V]                           # extensions
        if len(p) >= 2:
            pool += [p[:-2] + (c, p[-1]) for c in V]                # cousins
        pool.append(rng.choice(allp))                               # anything (often non-viable)
        return [q for q in pool if len(q) <= maxlen]

    qops = [o for o in ops if o != "clear"]
    for h in range(n):
        focus = rng.choice(viable) if rng.random() < 0.7 else rng.choice(allp)
        if len(focus) < 2 and rng.random() < 0.7:
            focus = focus + tuple(rng.choice(V) for _ in range(rng.randint(1, maxlen - len(focus))))
        seq = []
        if h % 4 == 0 and len(focus) >= 2:
            # fixed pattern: long prefix, then its sibling, then the short prefix again, then the long one again
            o1, o2 = rng.choice(qops), rng.choice(qops)
            sib = focus[:-1] + (rng.choice(V),)
            seq = [(o1, focus), (o2, sib), (o1, focus[:1]), ("clear", ()) if rng.random() < 0.5 else (o2, focus[:-1]), (o1, focus)]
        else:
            for _ in range(5):
                if rng.random() < 0.15:
                    seq.append(("clear", ()))
                else:
                    seq.append((rng.choice(qops), rng.choice(related(focus))))
            if rng.random() < 0.5:
                seq[-1] = (seq[0][0] if seq[0][0] != "clear" else rng.choice(qops), seq[0][1] if seq[0][0] != "clear" else focus)
        seq = [(o, p if (o != "seq" or len(p) >= 1) else p + (V[0],)) for o, p in seq]
        hs.append(seq)
    return hs


def make_cases(tier, seed, n_random=None, n_productive=None, n_hist=None):
    rng = random.Random(seed)
    quick = tier == "quick"
    n_random = (25 if quick else 500) if n_random is None else n_random
    n_productive = (70 if quick else 1500) if n_productive is None else n_productive
    n_hist = (5 if quick else 12) if n_hist is None else n_hist
    doms = dom_cfg.cfg_domain(tier, seed, n_random, n_productive)
    srs = SEMIRINGS_QUICK if quick else SEMIRINGS_THOROUGH
    cases = []
    for i, (name, g) in enumerate(doms):
        if not g.V:
            continue
        for j, sr in enumerate(srs):
            kinds = [k for k in PARSERS + LMS if (k not in FLOAT_ONLY or sr in ("Float", "FloatFrac"))
                     and (k != "BoolCFGLM" or sr in ("Float", "Boolean"))]
            corpus = not (name.startswith("rand") or name.startswith("prod"))
            if quick and not corpus and sr != "Float" and (i + j) % 2:
                continue
            for kind in kinds:
                # the histories themselves are generated in the worker from (hseed, n_hist); a violation stores its history
                cases.append(dict(type="history", name=name, g=g, sr=sr, kind=kind, hseed=rng.randrange(1 << 30), n_hist=n_hist))
        for sr in (["Float", "Boolean"] if quick else ["Float", "FloatFrac", "Real", "Boolean", "MaxTimes"]):
            cases.append(dict(type="purity", name=name, g=g, sr=sr))
    # long contexts
    lens = [60] if quick else [120, 180]     # cubic in the context length on ambiguous grammars: 300 tokens cost > 300 CPU-seconds per case
    pool = [(n, g) for n, g in doms if g.V]
    k = 0
    for name, g in pool:
        if k >= (10 if quick else 20):
            break
        gp = dom_cfg.pcfg_weights(g)
        L = lens[k % len(lens)]
        s = dom_cfg.long_string(gp, L, rng)
        if s is None:
            continue
        k += 1
        s2 = dom_cfg.long_string(gp, L, random.Random(rng.randrange(1 << 30)))
        for kind in ["EarleyLM", "EarleyLMRescaled", "Earley", "EarleyRescaled", "BoolCFGLM"] + (["CKYLM", "IncrementalCKY"] if L <= 60 else []):
            cases.append(dict(type="long", name=name, g=gp, sr="Float", kind=kind, context=tuple(s[:L]),
                              context2=tuple(s2[:L]) if (s2 is not None and kind in ("EarleyLM", "EarleyLMRescaled", "BoolCFGLM")) else None))
    return cases


# ---------------------------------------------------------------------------- checks
def check_history(case, out):
    g, sr, kind = case["g"], case["sr"], case["kind"]
    desc = dict(grammar=bridge.fmt_grammar(g), semiring=sr, object=kind)
    fresh_memo = {}

    def viol(ob, what, hist, **kw):
        out["violations"].append(dict(
            obligation=ob, what=what, signature=sig(kind, what.split(":")[0], case["name"], sr),
            replay=dict(desc, history=[[o, list(p)] for o, p in hist], **{k: repr(v)[:500] for k, v in kw.items()},
                        case=common.enc(dict(case, histories=[hist])))))

    def fresh(q, pristine=None, local=None):
        if q[0] == "chart":
            # a chart is expressed in the object's own internal nonterminal numbering (renumber() depends on the order in which
            # generated names are met), so the reference is a pristine CLONE of the object taken before its first query
            if q not in local:
                local[q] = query(kind, copy.deepcopy(pristine), q)[0]
            return local[q]
        if q not in fresh_memo:
            st, obj = call(build, kind, bridge.to_cfg(g, sr))
            fresh_memo[q] = ("exc", "constructor: " + obj.split(":")[0]) if st != "ok" else query(kind, obj, q)[0]
        return fresh_memo[q]

    nontrivial = False
    histories = case.get("histories")
    if histories is None:
        histories = gen_histories(g, kind, random.Random(case["hseed"]), case["n_hist"])
    for hist in histories:
        hist = [(o, tuple(p)) for o, p in hist]
        cfg = bridge.to_cfg(g, sr)
        before_in = grammar_snapshot(cfg)
        st, obj = call(build, kind, cfg)
        if st != "ok":
            out["n"] += 1
            if fresh(("p_next", ()))[0] != "exc":
                viol(OB(kind, "__init__", "history-independent"), "raised-only-sometimes: " + obj.split(":")[0], hist, error=obj)
            continue
        held = [(lab, o, grammar_snapshot(o)) for lab, o in grammars_of(obj)]
        kept = []
        try:
            pristine = copy.deepcopy(obj) if any(o == "chart" for o, _ in hist) else None
        except Exception:  # noqa: BLE001   (an object holding e.g. a generator cannot be cloned: its charts have no reference here)
            pristine = None
        local = {}
        for step, q in enumerate(hist):
            got, raw = query(kind, obj, q)
            if q[0] == "clear" or (q[0] == "chart" and pristine is None):
                continue
            out["n"] += 1
            want = fresh(q, pristine, local)
            func = {"call": "__call__", "model": "__call__", "seq": "p_next_seq"}.get(q[0], q[0])
            if got[0] != want[0] or (got[0] == "exc" and got[1].split(":")[0] != want[1].split(":")[0]):
                viol(OB(kind, func, "history-independent"), "outcome-differs: " + (got[1] if got[0] == "exc" else str(want[1]))[:60],
                     hist, step=step, query=q, warm=got, fresh=want)
                break
            if got[0] == "ok":
                if not same(got[1], want[1]):
                    viol(OB(kind, func, "history-independent"), "answer-differs", hist, step=step, query=q, warm=got[1], fresh=want[1])
                    break
                if got[1]:
                    nontrivial = True
                if raw is not None:
                    kept.append((step, q, got[1], raw))
        else:
            # earlier answers stay valid
            for step, q, v0, raw in kept:
                out["n"] += 1
                if not same(reread(raw), v0):
                    viol(OB(kind, q[0], "earlier-result-stays-valid"), "earlier-answer-changed", hist, step=step, query=q,
                         at_return=v0, now=reread(raw))
                    break
        # the grammars held by the object and the input grammar are unchanged
        out["n"] += 1
        d = snap_diff(before_in, grammar_snapshot(cfg))
        if d:
            viol(OB(kind, "queries", "grammar-unchanged"), "input-grammar-changed: " + ",".join(d), hist)
        for lab, o, s0 in held:
            d = snap_diff(s0, grammar_snapshot(o))
            if d:
                viol(OB(kind, "queries", "grammar-unchanged"), f"held-grammar-changed: {lab}." + ",".join(d), hist)
    if nontrivial:
        out["keys"].append(sig(case["name"], sr, kind))
    if case["name"] == "palindrome" and sr == "Float" and kind == "EarleyLM":
        out["sample"] = dict(desc, histories=[[[o, "".join(map(str, p))] for o, p in h] for h in histories[:2]])


def purity_ops(cfg, g, sr):
    """(qualified function, thunk) for every query/transformation of DESIGN 4-C05 part 1 applicable to cfg."""
    from genlm.grammar import cfglm
    from genlm.grammar.parse import earley, earley_rescaled, cky
    V = sorted(g.V, key=repr)
    x2 = tuple(V[:1] * 2) if V else ()
    some = (V[0],) if V else ()
    R = cfg.R
    ops = [
        ("cfg.CFG.__call__", lambda: [cfg(x) for x in ((), some, x2)]),
        ("cfg.CFG._parse_chart", lambda: cfg.cnf._parse_chart(x2)),
        ("cfg.CFG.language", lambda: cfg.language(3)),
        ("cfg.CFG.derivations", lambda: list(cfg.derivations(cfg.S, 3))),
        ("cfg.CFG.rename", lambda: cfg.rename(lambda x: ("r", x))),
        ("cfg.CFG.renumber", lambda: cfg.renumber()),
        ("cfg.CFG.map_values", lambda: cfg.map_values(lambda w: w, R)),
        ("cfg.CFG.trim", lambda: cfg.trim()),
        ("cfg.CFG.cotrim", lambda: cfg.cotrim()),
        ("cfg.CFG._trim", lambda: cfg._trim(set(cfg.N) | set(cfg.V))),
        ("cfg.CFG.unaryremove", lambda: cfg.unaryremove()),
        ("cfg.CFG.unarycycleremove", lambda: cfg.unarycycleremove()),
        ("cfg.CFG.unarycycleremove", lambda: cfg.unarycycleremove(trim=False)),
        ("cfg.CFG.has_unary_cycle", lambda: cfg.has_unary_cycle()),
        ("cfg.CFG.nullaryremove", lambda: cfg.nullaryremove()),
        ("cfg.CFG.nullaryremove", lambda: cfg.nullaryremove(binarize=False, trim=False)),
        ("cfg.CFG.null_weight", lambda: cfg.null_weight()),
        ("cfg.CFG.null_weight_start", lambda: cfg.null_weight_start()),
        ("cfg.CFG._push_null_weights", lambda: (lambda s: s._push_null_weights(s.null_weight()))(cfg.separate_start())),
        ("cfg.CFG.separate_start", lambda: cfg.separate_start()),
        ("cfg.CFG.separate_terminals", lambda: cfg.separate_terminals()),
        ("cfg.CFG.binarize", lambda: cfg.binarize()),
        ("cfg.CFG.cnf", lambda: cfg.cnf),
        ("cfg.CFG._cnf", lambda: cfg.cnf._cnf),
        ("cfg.CFG.in_cnf", lambda: cfg.in_cnf()),
        ("cfg.CFG.agenda", lambda: cfg.agenda()),
        ("cfg.CFG.naive_bottom_up", lambda: cfg.naive_bottom_up()),
        ("cfg.CFG.treesum", lambda: cfg.treesum()),
        ("cfg.CFG.prefix_grammar", lambda: cfg.prefix_grammar),
        ("cfg.CFG.derivative", lambda: cfg.derivative(V[0]) if V else None),
        ("cfg.CFG.derivatives", lambda: cfg.derivatives(x2)),
        ("cfg.CFG.__matmul__", lambda: cfg @ x2),
        ("cfg.CFG.truncate_length", lambda: cfg.truncate_length(2)),
        ("cfg.CFG.materialize", lambda: cfg.materialize(2)),
        ("cfg.CFG.to_bytes", lambda: cfg.to_bytes()),
        ("cfg.CFG.dependency_graph", lambda: cfg.dependency_graph()),
        ("cfg.CFG._unary_graph", lambda: cfg._unary_graph()),
        ("cfg.CFG._unary_graph_transpose", lambda: cfg._unary_graph_transpose()),
        ("cfg.CFG.__getitem__", lambda: cfg[sorted(cfg.N, key=repr)[-1]]),
        ("cfg.CFG.spawn", lambda: cfg.spawn()),
        ("cfglm.add_EOS", lambda: cfglm.add_EOS(cfg)),
        ("earley.Earley.__init__", lambda: earley.Earley(cfg)(x2)),
        ("cky.IncrementalCKY.__init__", lambda: cky.IncrementalCKY(cfg.cnf)(x2)),
        ("cfglm.BoolCFGLM.__init__", lambda: cfglm.BoolCFGLM(cfg).p_next(some)),
    ]
    for i, k in dom_cfg.unfold_sites(g)[:3]:
        ops.append(("cfg.CFG.unfold", lambda i=i, k=k: cfg.unfold(i, k)))
    if sr in ("Float", "FloatFrac"):
        ops += [
            ("cfg.CFG.expected_length", lambda: cfg.expected_length),
            ("cfglm.locally_normalize", lambda: cfglm.locally_normalize(cfg)),
            ("earley.EarleyLM.__init__", lambda: earley.EarleyLM(cfg).p_next(some)),
            ("earley_rescaled.EarleyLM.__init__", lambda: earley_rescaled.EarleyLM(cfg).p_next(some)),
            ("earley_rescaled.Earley.__init__", lambda: earley_rescaled.Earley(cfg)(x2)),
            ("cky.CKYLM.__init__", lambda: cky.CKYLM(cfg).p_next(some)),
        ]
    return ops


def check_purity(case, out):
    g, sr = case["g"], case["sr"]
    desc = dict(grammar=bridge.fmt_grammar(g), semiring=sr)
    cfg = bridge.to_cfg(g, sr)
    ref = grammar_snapshot(cfg)
    results = []           # (function, result grammar, snapshot at return)
    order = list(range(len(purity_ops(cfg, g, sr))))
    random.Random(len(g.rules) * 31 + len(case["name"])).shuffle(order)
    if case.get("only") is not None:
        order = case["only"]

    def viol(fn, what, idx, **kw):
        out["violations"].append(dict(
            obligation=f"C05/{fn}/grammar-unchanged", what=what, signature=sig(fn, what.split(":")[0], sr),
            replay=dict(desc, function=fn, **{k: repr(v)[:500] for k, v in kw.items()},
                        case=common.enc(dict(case, only=order[:order.index(idx) + 1])))))

    ops = purity_ops(cfg, g, sr)
    for idx in order:
        fn, thunk = ops[idx]
        st, res = call(thunk)          # an exception is not a purity statement (other properties report it)
        out["n"] += 1
        now = grammar_snapshot(cfg)
        d = snap_diff(ref, now)
        if d:
            viol(fn, "grammar-changed: " + ",".join(d), idx, before=ref, after=now)
            cfg = bridge.to_cfg(g, sr)
            ref = grammar_snapshot(cfg)
            ops = purity_ops(cfg, g, sr)
            results = []
            continue
        if st == "ok" and hasattr(res, "rules") and hasattr(res, "V") and res is not cfg:
            results.append((fn, idx, res, grammar_snapshot(res)))
    for fn, idx, res, s0 in results:
        out["n"] += 1
        d = snap_diff(s0, grammar_snapshot(res))
        if d:
            out["violations"].append(dict(
                obligation=f"C05/{fn}/earlier-result-stays-valid", what="earlier-result-changed: " + ",".join(d),
                signature=sig(fn, "earlier-result-changed", sr),
                replay=dict(desc, function=fn, case=common.enc(dict(case, only=order)))))
    if g.rules:
        out["keys"].append(sig(case["name"], sr, "purity"))


def check_long(case, out):
    g, sr, kind, ctx = case["g"], case["sr"], case["kind"], tuple(case["context"])
    L = len(ctx)
    desc = dict(grammar=bridge.fmt_grammar(g), semiring=sr, object=kind, context_length=L)

    def viol(what, **kw):
        out["violations"].append(dict(
            obligation=OB(kind, "p_next", "warm-equals-cold"), what=what, signature=sig(kind, what.split(":")[0], case["name"], L),
            replay=dict(desc, **{k: repr(v)[:500] for k, v in kw.items()}, case=common.enc(case))))

    marks = sorted({L // 2, L - 1, L})
    qs = [("p_next", ctx[:k]) for k in marks] + [("call", ctx)]
    st, warm = call(build, kind, bridge.to_cfg(g, sr))
    if st != "ok":
        return
    # warm pass: token by token, as in generation
    got = {}
    for k in range(L + 1):
        o, _ = query(kind, warm, ("p_next", ctx[:k]))
        if k in marks:
            got[("p_next", ctx[:k])] = o
    got[("call", ctx)] = query(kind, warm, ("call", ctx))[0]
    cold = {}
    for q in qs:
        st, obj = call(build, kind, bridge.to_cfg(g, sr))
        cold[q] = query(kind, obj, q)[0] if st == "ok" else ("exc", "constructor")
    query(kind, warm, ("clear", ()))
    after_clear = {q: query(kind, warm, q)[0] for q in reversed(qs)}      # long first, then shorter ones
    for q in qs:
        for label, other in (("cold", cold[q]), ("after-clear_cache", after_clear[q])):
            out["n"] += 1
            a, b = got[q], other
            if a[0] != b[0]:
                viol("outcome-differs: " + label, position=len(q[1]), query=q[0], warm=a, other=b)
            elif a[0] == "ok" and not same(a[1], b[1]):
                viol("answer-differs: " + label, position=len(q[1]), query=q[0], warm=a[1], other=b[1])
    # two hypotheses of equal length advanced in LOCK-STEP on one object (beam search): A[:k], B[:k], A[:k+1], B[:k+1], ...; the chart
    # built last always belongs to the OTHER hypothesis (strengthened after seeded change C05-10)
    ctx2 = tuple(case.get("context2") or ())
    if ctx2 and len(ctx2) == L and ctx2 != ctx:
        st, both = call(build, kind, bridge.to_cfg(g, sr))
        if st == "ok":
            seen = {}
            for k in range(L + 1):
                for c in (ctx, ctx2):
                    seen[c[:k]] = query(kind, both, ("p_next", c[:k]))[0]
            for c in (ctx, ctx2):
                for k in sorted({L - 2, L - 1, L}):
                    st, obj = call(build, kind, bridge.to_cfg(g, sr))
                    ref = query(kind, obj, ("p_next", c[:k]))[0] if st == "ok" else ("exc", "constructor")
                    out["n"] += 1
                    a = seen[c[:k]]
                    if a[0] != ref[0]:
                        viol("outcome-differs: lock-step", position=k, query="p_next", warm=a, other=ref)
                    elif a[0] == "ok" and not same(a[1], ref[1]):
                        viol("answer-differs: lock-step", position=k, query="p_next", warm=a[1], other=ref[1])
    # the decoding loop of a caller that keeps ONE list and appends to it in place: the answer depends on the list's contents at the
    # time of the call, not on the list object (strengthened after seeded change C05-12)
    if kind in LMS:
        st, a_obj = call(build, kind, bridge.to_cfg(g, sr))
        st2, r_obj = call(build, kind, bridge.to_cfg(g, sr))
        if st == "ok" and st2 == "ok":
            buf = []
            zero = _zero_of(a_obj)
            for k in range(min(L, 10) + 1):
                try:
                    a = ("ok", view_mapping(a_obj.p_next(buf), zero))
                except bridge.Timeout:
                    raise
                except TypeError:
                    break           # this back end wants hashable contexts (CKYLM): list contexts are outside its interface
                except Exception as e:  # noqa: BLE001
                    a = ("exc", type(e).__name__)
                ref = query(kind, r_obj, ("p_next", tuple(buf)))[0]
                out["n"] += 1
                if a[0] != ref[0] and not (a[0] == "exc" and ref[0] == "exc"):
                    viol("outcome-differs: list context grown in place", position=k, query="p_next", warm=a, other=ref)
                elif a[0] == "ok" and not same(a[1], ref[1]):
                    viol("answer-differs: list context grown in place", position=k, query="p_next", warm=a[1], other=ref[1])
                if k < L:
                    buf.append(ctx[k])
    if any(v[0] == "ok" and v[1] for v in got.values()):
        out["keys"].append(sig(case["name"], kind, "long", L))


def _exact_ok(g):
    """Fractions survive the library's fixed-point iterations only when the nullable part is linear."""
    from vlib.spec.algebra import Q
    try:
        return cfgspec.null_weights(Q, g)[1] and cfgspec.treesums(Q, g)[1]
    except ArithmeticError:
        return False


def check_case(case):
    out = dict(n=0, keys=[], violations=[])
    if case["sr"] in ("FloatFrac", "Q") and not _exact_ok(case["g"]):
        case = dict(case, sr="Float")
    {"history": check_history, "purity": check_purity, "long": check_long}[case["type"]](case, out)
    return out


def bounded(run):
    tier = run.tier
    cases = make_cases(tier, run.seed)
    srs = SEMIRINGS_QUICK if tier == "quick" else SEMIRINGS_THOROUGH
    nh = sum(c["n_hist"] for c in cases if c["type"] == "history")
    nl = sum(1 for c in cases if c["type"] == "long")
    run.rule(f"objects: {', '.join(PARSERS + LMS)} (Float-only objects over Float, BoolCFGLM alg='earley' over Float and Boolean, "
             f"parsers over {srs}); grammars: corpus + seeded uniform random + productive random; {nh} seeded query histories of "
             f"<= 5 operations from p_next / call (weight resp. lm(p+EOS)) / model(p) / p_next_seq / chart / clear_cache over prefixes "
             f"of length <= 4 related to a focus prefix (its prefixes, siblings, cousins, extensions, arbitrary often non-viable "
             f"strings; a quarter follow the fixed pattern long, sibling, short, [clear], long); each answer compared with a fresh "
             f"object asked only that query; earlier answers re-read at the end; purity: every query/transformation of DESIGN 4-C05 "
             f"part 1 in a seeded order on one grammar object with rules/V/S/N snapshots before/after; {nl} long-context cases "
             f"({'60' if tier == 'quick' else '120-180'} tokens: warm token-by-token vs cold fresh objects vs after clear_cache); "
             f"non-trivial = some compared answer is non-empty/non-zero; distinct = (grammar, semiring, object). "
             f"NOT covered: the histories are sampled, not all sequences; BoolCFGLM alg='cky' (p_next raises on every input, see C01); "
             f"contexts beyond ~480 tokens (a cold chart() recursion exceeds Python's recursion limit)")
    seeds = (0, 1) if tier == "quick" else (0, 1, 2, 3)
    run.extra["hash_seeds"] = list(seeds)
    engine.run_cases(run, "props.C05", "check_case", cases, hash_seeds=seeds, per_case_timeout=300, split=True)


def run(run, only=None):
    run.assume("oracle = the property statement: the answer of a FRESH object (built from a fresh copy of the grammar) to the same "
               "single query; never the queried object itself",
               "answers are compared as the documented abstract views: Chart = mapping with default zero, chart column = "
               "(item -> weight) mappings plus non-empty waiting lists as multisets; numbers to 1e-7 relative",
               "a query that raises the same exception on the fresh object is not a history dependence (reported by C01/C02 where applicable)")
    if only != "bounded":
        common.run_proved(run, "C05")
    if only != "proved":
        bounded(run)


def replay(doc):
    rc = dom_cfg.replay_with_hashseed(doc, "props.C05")      # same PYTHONHASHSEED as the run that found it
    return common.generic_replay(doc, check_case) if rc is None else rc

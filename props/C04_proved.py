"""PROVED-class obligations of C04 (language models are the exact left-to-right factorisation).

  C04/chart.Chart.normalize/divides-by-total           Z = sum(values); Z == 0 -> self; else every value is v / Z (Z != 0 guarded)
  C04/lm.LM.__call__/chain-rule-step                   loop body: P' = P * p_next(context[:i])[context[i]] for the generic i
  C04/lm.LM.p_next_seq/chain-rule-step                 loop body: P' = P * p_next(context + extension[:i])[extension[i]]
  C04/earley_rescaled.Earley.rescale/product-of-slice  rescale(cols, I, K) multiplies exactly the coefficients of cols[I:K]
  C04/earley_rescaled.Earley.next_column/units#scan    value stored by SCAN has unit U(I, K)    (ghost U, see DESIGN 4/C04)
  C04/earley_rescaled.Earley.next_column/units#attach  value stored by ATTACH has unit U(I, K)
  C04/earley_rescaled.Earley.next_column/rescale-nonzero
  C04/earley_rescaled.Earley.PREDICT/units             predicted items are stored with unit U(K, K) = 1
  C04/earley_rescaled.Earley.__call__/divides-by-U(0,N)
"""
import ast

import z3

from vlib.pyvc import interp as I, smt, source, symstruct as S, gharness as G

CHART = "genlm/grammar/chart.py"
LM = "genlm/grammar/lm.py"
ER = "genlm/grammar/parse/earley_rescaled.py"
R = z3.RealSort()
Bag = G.Bag


def normalize(run):
    name = "C04/chart.Chart.normalize/divides-by-total"
    fn = source.find(CHART, "Chart.normalize")
    run.function_under_contract("genlm.grammar.chart.Chart.normalize", source.sha(fn))
    Zs = z3.Real("Z_total")
    v = z3.Real("v")
    k = S.sym("k")
    out = {}

    class Sem:
        def __pyvc_getattr__(self, interp, nm, node):
            if nm == "chart":
                def chart(it, a, kw):
                    out["items"] = list(it.iterate(a[0])) if a else []
                    return "new-chart"
                return I.Native("chart", chart)
            raise I.OutOfSubset("semiring." + nm)

    def harness(path):
        out.clear()
        it = I.Interp(path)
        selfobj = Bag(semiring=Sem(), sum=I.Native("sum", lambda i2, a, kw: I.Z(Zs)),
                      items=I.Native("items", lambda i2, a, kw: [(k, I.Z(v))]))
        fobj = I.FuncObj(fn, I.Env(None, {}), "Chart.normalize")
        try:
            ret = it.call_func(fobj, [selfobj], {})
        except I.PyRaise as e:
            return dict(raised=str(e))
        return dict(ret=ret, selfobj=selfobj, items=list(out.get("items", [])))

    try:
        results = I.explore(harness)
    except (I.OutOfSubset, I.PyRaise) as e:
        run.obligation(name, "out-of-subset", detail=str(e))
        return
    ok, why = True, ""
    for path, r in results:
        if "raised" in r:
            ok, why = False, "raises " + r["raised"]
            continue
        zero = smt.prove(list(path.pc), Zs == 0)["verdict"] == "proved"
        if zero:
            if r["ret"] is not r["selfobj"]:
                ok, why = False, "Z == 0 branch does not return self"
        else:
            if len(r["items"]) != 1 or r["items"][0][0] is not k:
                ok, why = False, "keys are not preserved"
                continue
            q = smt.prove(list(path.pc), z3.And(Zs != 0, I.to_real(r["items"][0][1]) * Zs == v))
            if q["verdict"] != "proved":
                ok, why = False, "value is not v / Z"
    if ok and len(results) >= 2:
        run.obligation(name, "proved", backend="pyvc+z3", detail="Z = self.sum(); Z == 0 -> self; else (k, v / Z) for every item, Z != 0 on that path")
    else:
        run.obligation(name, "refuted", detail=why or "unexpected path structure", replay=dict(replayed=False, why=why), signature="normalize")


def chain_rule(run, qual, name, with_extension):
    fn = source.find(LM, qual)
    run.function_under_contract("genlm.grammar.lm." + qual, source.sha(fn))
    loops = source.loops(fn, (ast.For,))
    if len(loops) != 1:
        run.obligation(name, "out-of-subset", detail="expected one for loop")
        return
    loop = loops[0]
    ctx = S.BaseSeq("context")
    ext = S.BaseSeq("extension")
    i = z3.Int("i")
    P0 = z3.Real("P_in")
    calls = []
    q = z3.Function("q", z3.IntSort(), R)   # ghost: q(i) = p_next(prefix_i)[token_i]

    class Dist:
        def __init__(self, arg):
            self.arg = arg

        def __pyvc_getitem__(self, interp, k, node):
            calls.append(("index", self.arg, k))
            return I.Z(q(i))

    def p_next(it, a, kw):
        calls.append(("p_next", a[0]))
        return Dist(a[0])

    def harness(path):
        calls.clear()
        it = I.Interp(path)
        seq = ext if with_extension else ctx
        path.assume(ctx.L >= 0)
        path.assume(ext.L >= 0)
        path.assume(z3.And(i >= 0, i < seq.L))
        selfobj = Bag(p_next=I.Native("p_next", p_next), V=S.SymSet("V"), eos=S.sym("eos"))
        env = I.Env(None, {"self": selfobj, "context": ctx, "extension": ext, "P": I.Z(P0)})
        # generic iteration: bind the loop target(s) the way the real iterator expression would at position i
        itexpr = ast.unparse(loop.iter)
        if itexpr == "enumerate(context)":
            it.assign(loop.target, (I.Z(i), ctx.at(it, I.Z(i))), env)
        elif itexpr == "range(len(extension))":
            it.assign(loop.target, I.Z(i), env)
        else:
            raise I.OutOfSubset("loop iterator " + itexpr)
        broke = False
        try:
            it.exec_block(loop.body, env)
        except I._Break:
            broke = True
        except I.PyRaise as e:
            return dict(raised=f"{e.kind}: {e.msg}")
        return dict(P=env.get("P"), broke=broke, calls=list(calls))

    try:
        results = I.explore(harness)
    except (I.OutOfSubset, I.PyRaise) as e:
        run.obligation(name, "out-of-subset", detail=str(e))
        return
    ok, why = True, ""
    n = 0
    for path, r in results:
        if "raised" in r:
            if r["raised"].startswith("AssertionError"):
                continue   # `assert y in self.V`: the contract's precondition on the context
            ok, why = False, "raises " + r["raised"]
            continue
        n += 1
        pn = [c for c in r["calls"] if c[0] == "p_next"]
        ix = [c for c in r["calls"] if c[0] == "index"]
        if len(pn) != 1 or len(ix) != 1:
            ok, why = False, "expected exactly one p_next call and one lookup per iteration"
            continue
        arg = pn[0][1]
        # the conditioning prefix must be  context[:i]   resp.  context + extension[:i]
        good_arg = False
        if not with_extension and isinstance(arg, S.SliceSeq) and arg.base is ctx:
            good_arg = smt.prove(list(path.pc), z3.And(z3.IntVal(arg.lo) == 0 if isinstance(arg.lo, int) else arg.lo == 0, (arg.hi if not isinstance(arg.hi, int) else z3.IntVal(arg.hi)) == i))["verdict"] == "proved"
        if with_extension and isinstance(arg, S.ConcatSeq) and len(arg.parts) == 2 and arg.parts[0] is ctx and isinstance(arg.parts[1], S.SliceSeq) and arg.parts[1].base is ext:
            sl = arg.parts[1]
            good_arg = smt.prove(list(path.pc), z3.And((sl.lo if not isinstance(sl.lo, int) else z3.IntVal(sl.lo)) == 0, (sl.hi if not isinstance(sl.hi, int) else z3.IntVal(sl.hi)) == i))["verdict"] == "proved"
        tok = I.zexpr(ix[0][2])
        want_tok = (ext if with_extension else ctx).elem(i)
        good_tok = smt.prove(list(path.pc), tok == want_tok)["verdict"] == "proved"
        good_P = smt.prove(list(path.pc), I.to_real(r["P"]) == P0 * q(i))["verdict"] == "proved"
        good_break = (not r["broke"]) or smt.prove(list(path.pc), I.to_real(r["P"]) == 0)["verdict"] == "proved"
        if not (good_arg and good_tok and good_P and good_break):
            ok = False
            why = f"prefix-ok={good_arg} token-ok={good_tok} product-ok={good_P} break-only-at-zero={good_break}"
    if ok and n:
        run.obligation(name, "proved", backend="pyvc+z3", detail=f"{n} paths of the loop body at a generic position i: P' = P * p_next(prefix_i)[token_i]; early exit only when P = 0")
    else:
        run.obligation(name, "refuted", detail=why or "no path", replay=dict(replayed=False, why=why), signature=qual + ":chain-rule")


# ------------------------------------------------------------------ rescaled Earley: unit consistency
class Units:
    """Ghost unit function U(I, K) with the three axioms, ground-instantiated on demand."""

    def __init__(self):
        self.U = z3.Function("U", z3.IntSort(), z3.IntSort(), R)
        self.resc = z3.Function("rescale_of_column", z3.IntSort(), R)

    def axioms(self, triples, cols):
        ax = []
        for a, b, c in triples:
            ax.append(self.U(a, b) * self.U(b, c) == self.U(a, c))
        for a, j in cols:
            ax.append(self.U(a, j) * self.resc(j) == self.U(a, j + 1))
            ax.append(self.U(a, a) == 1)
        return ax


def rescale_fn(run):
    name = "C04/earley_rescaled.Earley.rescale/product-of-slice"
    fn = source.find(ER, "Earley.rescale")
    run.function_under_contract("genlm.grammar.parse.earley_rescaled.Earley.rescale", source.sha(fn))
    loops = source.loops(fn, (ast.For,))
    if len(loops) != 1:
        run.obligation(name, "out-of-subset", detail="expected one loop")
        return
    loop = loops[0]
    u = Units()
    Iv, Kv, n = z3.Ints("I K n")
    cols = S.BaseSeq("cols")

    def harness(path):
        it = I.Interp(path)
        path.assume(z3.And(0 <= Iv, Iv <= Kv, Kv <= cols.L))
        env = I.Env(None, {"self": Bag(cfg=Bag(R=Bag(one=1, zero=0))), "cols": cols, "I": I.Z(Iv), "K": I.Z(Kv)})
        sl = it.eval(loop.iter, env)
        if not (isinstance(sl, S.SliceSeq) and sl.base is cols):
            raise I.OutOfSubset("rescale does not iterate over a slice of cols")
        # initialisation (statements before the loop) and the generic step n -> n+1 with invariant C = U(I, I+n)
        pre = [st for st in fn.body if st is not loop and st.lineno < loop.lineno and not (isinstance(st, ast.Expr) and isinstance(st.value, ast.Constant))]
        it.exec_block(pre, env)
        C0 = env.get("C")
        path.assume(z3.And(n >= 0, n < sl.length()))
        j = sl.at(it, I.Z(n))              # element n of the slice = cols[I + n]: a column whose index is ...
        env.set("C", I.Z(u.U(Iv, Iv + n)))

        class Col:
            def __pyvc_getattr__(self, interp, nm, node):
                if nm == "rescale":
                    return I.Z(u.resc(colindex))
                raise I.OutOfSubset("col." + nm)

        # which column is element n of the slice?  cols[k] has index k: read k off the element term elem_cols(k)
        je = I.zexpr(j)
        colindex = je.arg(0) if z3.is_app(je) and je.decl().eq(cols.elem) else None
        if colindex is None:
            raise I.OutOfSubset("cannot identify the column index of the slice element")
        it.assign(loop.target, Col(), env)
        it.exec_block(loop.body, env)
        return dict(C0=C0, C1=env.get("C"), colindex=colindex, length=sl.length())

    try:
        results = I.explore(harness)
    except (I.OutOfSubset, I.PyRaise) as e:
        run.obligation(name, "out-of-subset", detail=str(e))
        return
    ok = True
    for path, r in results:
        ax = u.axioms([], [(Iv, Iv + n), (Iv, Iv)])
        g = z3.And(I.to_real(r["C0"]) == 1, r["colindex"] == Iv + n, I.to_real(r["C1"]) == u.U(Iv, Iv + n + 1), r["length"] == Kv - Iv)
        if smt.prove(list(path.pc) + ax, g)["verdict"] != "proved":
            ok = False
    if ok and results:
        run.obligation(name, "proved", backend="pyvc+z3", detail="C starts at one; invariant C = U(I, I+n); step multiplies column I+n's coefficient; slice has K-I elements => returns U(I, K)")
    else:
        run.obligation(name, "refuted", detail="rescale(cols, I, K) is not the product of the coefficients of columns I..K-1",
                       replay=dict(replayed=False), signature="rescale:slice")


def next_column_units(run):
    fn = source.find(ER, "Earley.next_column")
    run.function_under_contract("genlm.grammar.parse.earley_rescaled.Earley.next_column", source.sha(fn))
    names = {k: f"C04/earley_rescaled.Earley.next_column/{k}" for k in ("units#scan", "units#attach", "rescale-nonzero")}
    u = Units()
    J = z3.Int("J")            # index of prev_col; the new column is K = J + 1
    K = J + 1
    tv = z3.Function("true_value", z3.IntSort(), z3.IntSort(), z3.IntSort(), z3.IntSort(), R)   # ghost true weight of an item

    def harness(path):
        it = I.Interp(path)
        updates = []
        state = {"phase": "scan"}
        path.assume(J >= 0)
        for j in range(0, 1):
            pass

        def mk_item(tag):
            Iv = S.fresh("I_" + tag)
            X = S.fresh("X_" + tag)
            Ys = S.fresh("Ys_" + tag)
            return (I.Z(Iv), I.Z(X), I.Z(Ys))

        class IChart:
            """i_chart of column c: value of item (I, X, Ys) = true * U(I, c)   (column invariant)"""

            def __init__(self, c):
                self.c = c

            def __pyvc_getitem__(self, interp, k, node):
                Iv, X, Ys = k
                return I.Z(tv(I.zexpr(Iv), I.zexpr(X), I.zexpr(Ys), self.c) * u.U(I.zexpr(Iv), self.c))

        class CChartNext:
            """c_chart of the new column K: value of (J', Y) = true * U(J', K)"""

            def __pyvc_getitem__(self, interp, k, node):
                Jp, Y = k
                return I.Z(tv(I.zexpr(Jp), I.zexpr(Y), z3.IntVal(0), K) * u.U(I.zexpr(Jp), K))

            def __pyvc_getattr__(self, interp, nm, node):
                if nm == "get":
                    return I.Native("get", lambda i2, a, kw: I.Z(z3.Real("den")))
                raise I.OutOfSubset("c_chart." + nm)

        class Waiting:
            def __init__(self, c, tag):
                self.c, self.tag = c, tag

            def __pyvc_getitem__(self, interp, k, node):
                item = mk_item(self.tag)
                interp.path.assume(z3.And(I.zexpr(item[0]) >= 0, I.zexpr(item[0]) <= self.c))   # Column.wf: items of column c start at I <= c
                return [item]

        class Heap:
            def __init__(self):
                self.n = 0

            def __pyvc_truth__(self, interp):
                self.n += 1
                return self.n == 1        # loop cut: one generic ATTACH iteration

            def __pyvc_getattr__(self, interp, nm, node):
                if nm == "pop":
                    def pop(i2, a, kw):
                        state["phase"] = "attach"
                        Jp = S.fresh("Jp")
                        i2.path.assume(z3.And(Jp >= 0, Jp <= J))    # no empty rules: a completed item of column K starts before K
                        return ((I.Z(Jp), I.Z(S.fresh("Y"))), 0)
                    return I.Native("pop", pop)
                raise I.OutOfSubset("Q." + nm)

        prev_col = Bag(k=I.Z(J), i_chart=IChart(J), c_chart=Bag(get=I.Native("get", lambda i2, a, kw: I.Z(z3.Real("num")))),
                       waiting_for=Waiting(J, "scan"), rescale=I.Z(u.resc(J)))
        next_cols = []

        def Column(i2, a, kw):
            c = Bag(k=a[0], i_chart=None, c_chart=CChartNext(), Q=Heap(), waiting_for=None, rescale=None)
            next_cols.append(c)
            return c

        class Cols:
            def __pyvc_getitem__(self, interp, k, node):
                if isinstance(k, int) and k == -1:
                    return prev_col
                ke = I.zexpr(k)
                return Bag(k=I.Z(ke), i_chart=IChart(ke), waiting_for=Waiting(ke, "cust"))

        def _update(i2, a, kw):
            col, Iv, X, Ys, value = a
            updates.append(dict(phase=state["phase"], col=col, I=Iv, value=value, pc=list(i2.path.pc)))

        class RestYs:
            def __pyvc_getitem__(self, interp, k, node):
                return I.Z(S.fresh("rest"))

        selfobj = Bag(rest_Ys=RestYs(), _update=I.Native("_update", _update), PREDICT=I.Native("PREDICT", lambda i2, a, kw: None),
                      cfg=Bag(S=S.sym("S"), R=Bag(zero=0, one=1)))
        genv = I.Env(None, {"Column": I.Native("Column", Column), "LocatorMaxHeap": I.Native("heap", lambda i2, a, kw: Heap())})
        fobj = I.FuncObj(fn, genv, "Earley.next_column")
        try:
            ret = it.call_func(fobj, [selfobj, Cols(), S.sym("token")], {})
        except I.PyRaise as e:
            return dict(raised=f"{e.kind}: {e.msg}")
        return dict(updates=updates, ret=ret, prev=prev_col, cols=next_cols)

    try:
        results = I.explore(harness)
    except (I.OutOfSubset, I.PyRaise) as e:
        for n in names.values():
            run.obligation(n, "out-of-subset", detail=str(e))
        return
    verdict = {"scan": None, "attach": None}
    why = {}
    nz_ok = True
    stab_ok, stab_seen = True, False
    for path, r in results:
        if "raised" in r:
            if "ZeroDivisionError" in r["raised"]:
                nz_ok = False
            else:
                verdict["scan"] = False
                why["scan"] = "raises " + r["raised"]
            continue
        ret = r["ret"]
        if not r["cols"] or ret is not r["cols"][0]:
            verdict["scan"] = False
            why["scan"] = "does not return the new column"
            continue
        q = smt.prove(list(path.pc), I.zexpr(ret.f["k"]) == K)
        if q["verdict"] != "proved":
            verdict["scan"] = False
            why["scan"] = "new column index is not prev + 1"
        rs = ret.f.get("rescale")
        if rs is None or smt.prove(list(path.pc) + [u.resc(J) != 0], I.to_real(rs) != 0)["verdict"] != "proved":
            nz_ok = False
        # stabilisation: the coefficient keeps (stored value of the start item) * rescale constant from column to column,
        #   next.rescale * den = num * prev.rescale      (num/den = stored start item of the previous / new column),
        # so stored values stay of the order of the conditional probability however small the prefix weight gets
        if rs is not None:
            num_, den_ = z3.Real("num"), z3.Real("den")
            both = smt.prove(list(path.pc), z3.And(num_ != 0, den_ != 0))["verdict"] == "proved"
            if both:
                stab_seen = True
                if smt.prove(list(path.pc), I.to_real(rs) * den_ == num_ * u.resc(J))["verdict"] != "proved":
                    stab_ok = False
        for up in r["updates"]:
            ph = up["phase"]
            if up["col"] is not ret:
                verdict[ph] = False
                why[ph] = "writes into a column other than the new one"
                continue
            Iv = I.zexpr(up["I"])
            val = I.to_real(up["value"])
            # the value must be (some true weight) * U(I, K): divide out the unit using the axioms
            terms = [t for t in _apps(val, u.U)]
            triples, cols_ = [], []
            for t in terms:
                a, b = t.arg(0), t.arg(1)
                triples.append((a, b, K))
                cols_.append((a, b))
            ax = u.axioms(triples, cols_ + [(Iv, J)])
            ax += [u.U(Iv, K) != 0, u.resc(J) != 0] + [t != 0 for t in terms]
            # strip: value / U(I,K) must not mention rescale factors or units any more -> equals product of true values
            tvs = list(_apps(val, tv))
            prodtv = z3.RealVal(1)
            for t in tvs:
                prodtv = prodtv * t
            g = val == prodtv * u.U(Iv, K)
            q = smt.prove(list(path.pc) + ax, g)
            if q["verdict"] == "proved" and verdict[ph] is not False:
                verdict[ph] = True
            else:
                verdict[ph] = False
                why[ph] = f"stored value {z3.simplify(val)} is not (true weights) * U(I, K)"
    for ph, key in (("scan", "units#scan"), ("attach", "units#attach")):
        if verdict[ph] is True:
            run.obligation(names[key], "proved", backend="pyvc+z3", detail=f"every value passed to _update in the {ph.upper()} phase is (product of true weights) * U(I, K), K = prev + 1")
        elif verdict[ph] is None:
            run.obligation(names[key], "out-of-subset", detail=f"no _update call observed in the {ph} phase (vacuous)")
        else:
            run.obligation(names[key], "refuted", detail=why.get(ph, "unit mismatch"), replay=dict(replayed=False, why=why.get(ph)),
                           signature="next_column:" + key)
    n_stab = "C04/earley_rescaled.Earley.next_column/rescale-stabilises"
    if stab_ok and stab_seen:
        run.obligation(n_stab, "proved", backend="pyvc+z3", detail="next.rescale * (new start item) = (previous start item) * prev.rescale whenever both are non-zero: "
                       "stored values do not decay with the prefix weight (the purpose of rescaling: long, improbable contexts)")
    else:
        run.obligation(n_stab, "refuted" if stab_seen else "out-of-subset", detail="the new coefficient does not carry the previous one: stored values decay with the prefix "
                       "weight and underflow on long, improbable contexts", replay=dict(replayed=False, hint="0.001: S -> a S | 0.999: S -> a on a^250 with the rescaled EarleyLM"),
                       signature="next_column:rescale-stabilises")
    if nz_ok:
        run.obligation(names["rescale-nonzero"], "proved", backend="pyvc+z3", detail="next_col.rescale is 1 or num / den * prev.rescale with num, den != 0: never zero")
    else:
        run.obligation(names["rescale-nonzero"], "refuted", detail="the new column's rescale coefficient can be zero, undefined or missing",
                       replay=dict(replayed=False), signature="next_column:rescale-nonzero")


def _apps(e, decl):
    out = {}
    seen = set()

    def rec(x):
        if x.get_id() in seen:
            return
        seen.add(x.get_id())
        if z3.is_app(x):
            if x.decl().eq(decl):
                out[x.get_id()] = x
            for c in x.children():
                rec(c)

    rec(e)
    return out.values()


def predict_units(run):
    name = "C04/earley_rescaled.Earley.PREDICT/units"
    fn = source.find(ER, "Earley.PREDICT")
    run.function_under_contract("genlm.grammar.parse.earley_rescaled.Earley.PREDICT", source.sha(fn))
    Kv = z3.Int("K")
    w = z3.Real("w_rule")

    def harness(path):
        it = I.Interp(path)
        ups = []

        class Wait:
            def __pyvc_iter__(self, interp):
                return [I.Z(S.fresh("wanted"))]

        class Outgoing:
            def __pyvc_getitem__(self, interp, k, node):
                return [I.Z(S.fresh("lc"))]

        class Rhs:
            def __pyvc_getattr__(self, interp, nm, node):
                if nm == "get":
                    return I.Native("get", lambda i2, a, kw: [(I.Z(w), I.Z(S.fresh("Ys")))])
                raise I.OutOfSubset("rhs." + nm)

        col = Bag(k=I.Z(Kv), waiting_for=Wait())
        b = S.fresh("is_first_column", z3.BoolSort())
        path.assume(b == (Kv == 0))

        def _update(i2, a, kw):
            ups.append(a)

        selfobj = Bag(cfg=Bag(S=S.sym("S")), R=Bag(outgoing=Outgoing()), R_outgoing=Outgoing(), rhs=Rhs(), _update=I.Native("_update", _update))
        fobj = I.FuncObj(fn, I.Env(None, {}), "Earley.PREDICT")

        def once(i2, st, env):     # left-corner closure loop: one generic iteration (the stored weight does not depend on it)
            try:
                i2.exec_block(st.body, env)
            except (I._Break, I._Continue):
                pass

        for lp in source.loops(fn, (ast.While,)):
            it.loop_hooks[id(lp)] = once
        it.call_func(fobj, [selfobj, col], {})
        return dict(ups=ups, col=col)

    try:
        results = I.explore(harness, max_paths=200)
    except (I.OutOfSubset, I.PyRaise) as e:
        run.obligation(name, "out-of-subset", detail=str(e))
        return
    ok, n = True, 0
    for path, r in results:
        for a in r["ups"]:
            n += 1
            col, Iv, X, Ys, value = a
            g = z3.And(I.zexpr(Iv) == Kv, I.to_real(value) == w)
            if col is not r["col"] or smt.prove(list(path.pc), g)["verdict"] != "proved":
                ok = False
    if ok and n:
        run.obligation(name, "proved", backend="pyvc+z3", detail=f"{n} predicted items: stored at (K, X, Ys, K) with the bare rule weight (unit U(K, K) = 1)")
    else:
        run.obligation(name, "refuted" if n else "out-of-subset", detail="a predicted item is not stored as (K, X) with the bare rule weight",
                       replay=dict(replayed=False), signature="PREDICT:units")


def call_units(run):
    name = "C04/earley_rescaled.Earley.__call__/divides-by-U(0,N)"
    fn = source.find(ER, "Earley.__call__")
    run.function_under_contract("genlm.grammar.parse.earley_rescaled.Earley.__call__", source.sha(fn))
    x = S.BaseSeq("x")
    u = Units()
    t = z3.Real("true_weight")
    calls = []

    def harness(path):
        calls.clear()
        it = I.Interp(path)
        path.assume(x.L >= 1)
        N = x.L
        path.assume(u.U(z3.IntVal(0), N) != 0)     # product of non-zero coefficients (rescale-nonzero, proved above)

        class Cols:
            def __pyvc_getitem__(self, interp, k, node):
                calls.append(("col", k))
                return Bag(c_chart=Bag(get=I.Native("get", lambda i2, a, kw: (calls.append(("get", a)), I.Z(t * u.U(z3.IntVal(0), N)))[1])))

        cols = Cols()

        def rescale(i2, a, kw):
            calls.append(("rescale", a))
            return I.Z(u.U(I.zexpr(a[1]), I.zexpr(a[2])))     # contract of rescale (proved above)

        selfobj = Bag(cfg=Bag(S=S.sym("S"), R=Bag(zero=0, one=1), rhs=None), _chart={}, _initial_column=None,
                      chart=I.Native("chart", lambda i2, a, kw: cols), rescale=I.Native("rescale", rescale))
        fobj = I.FuncObj(fn, I.Env(None, {}), "Earley.__call__")
        try:
            ret = it.call_func(fobj, [selfobj, x], {})
        except I.PyRaise as e:
            return dict(raised=f"{e.kind}: {e.msg}")
        return dict(ret=ret, calls=list(calls), N=N)

    try:
        results = I.explore(harness)
    except (I.OutOfSubset, I.PyRaise) as e:
        run.obligation(name, "out-of-subset", detail=str(e))
        return
    ok, why = True, ""
    for path, r in results:
        if "raised" in r:
            ok, why = False, "raises " + r["raised"]
            continue
        N = r["N"]
        col = [c for c in r["calls"] if c[0] == "col"]
        good = len(col) == 1 and smt.prove(list(path.pc), I.zexpr(col[0][1]) == N)["verdict"] == "proved"
        q = smt.prove(list(path.pc) + [u.U(z3.IntVal(0), N) != 0], I.to_real(r["ret"]) == t)
        if not good or q["verdict"] != "proved":
            ok, why = False, f"returned {z3.simplify(I.to_real(r['ret']))}, expected the true weight (value of column N divided by U(0, N))"
    if ok and results:
        run.obligation(name, "proved", backend="pyvc+z3", detail="value of item (0, S) in column N divided by rescale(cols, 0, N) = U(0, N)")
    else:
        run.obligation(name, "refuted", detail=why, replay=dict(replayed=False, why=why), signature="rescaled.__call__:units")


def proved(run):
    run.trust("pyvc symbolic interpreter over the real AST", f"z3 {z3.get_version_string()}")
    run.assume("ghost unit function U(I,K): U(I,I)=1, U(I,J)*U(J,K)=U(I,K), U(I,J)*rescale_J=U(I,J+1) (defined from the stored coefficients; axioms ground-instantiated)",
               "Column invariant (assumed for older columns, proved for the new one): every value of an item starting at I in column K is true_weight * U(I,K)",
               "T-CHAIN: sum_t PW(c.t) = PW(c) for EOS-terminated languages; hence the conditionals multiply to weight(x)/Z (DESIGN App. B)",
               "T-OUTSIDE: next_token_weights back-propagation yields prefix-extension weights (bounded in this property's stand-in)")
    steps = [normalize, lambda r: chain_rule(r, "LM.__call__", "C04/lm.LM.__call__/chain-rule-step", False),
             lambda r: chain_rule(r, "LM.p_next_seq", "C04/lm.LM.p_next_seq/chain-rule-step", True),
             rescale_fn, next_column_units, predict_units, call_units]
    for f in steps:
        try:
            f(run)
        except (I.OutOfSubset, KeyError) as e:
            run.obligation(f"C04/{getattr(f, '__name__', 'step')}", "out-of-subset", detail=str(e))
    # the chart update shared by both Earley parsers (stated in C02 as well): a stored weight that is exactly zero - 0.0 after
    # underflow in a long context - must not make the item look new
    from props import C02_proved
    for mod, rel in C02_proved.EARLEY.items():
        try:
            run.function_under_contract(f"genlm.grammar.parse.{mod}.Earley._update", source.sha(source.find(rel, "Earley._update")))
            C02_proved.update_accumulates(run, mod, rel, pid="C04")
        except (I.OutOfSubset, I.PyRaise, KeyError) as e:
            run.obligation(f"C04/{mod}.Earley._update/accumulates-registers-once", "out-of-subset", detail=str(e))

    from props import resolves as _res
    _res.budget_obligation(run, "C04")

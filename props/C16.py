"""C16 - shipped weight types obey the closed-semiring laws.  Level: proof.

Every operator body (`__add__`, `__mul__`, `star`, `__eq__`, constructors, the module-level zero/one
constants) is re-parsed from /repo/genlm/grammar/semiring.py on each run and executed *symbolically*
by vlib.pyvc.interp; each law of each type is one obligation = the conjunction of one VC per feasible
path.  Floats are mathematical reals (A1); -inf is modelled for MaxPlus/Log; exp/log by ground-instantiated
axioms.  A refuted law is replayed natively on the real classes with exact Fraction scores.
"""
import ast
import itertools
import math
import random
import time
from fractions import Fraction

import z3

from vlib.pyvc import interp as I, smt, source, explog, natives

ID = "C16"
LEVEL = "proof"
REL = "genlm/grammar/semiring.py"
TYPES = ["Boolean", "Real", "Float", "MaxPlus", "MaxTimes", "Log", "Entropy", "Expectation"]

LAWS = ["add-assoc", "add-comm", "add-zero-right", "add-zero-left", "mul-assoc", "mul-comm", "mul-one-right",
        "mul-one-left", "zero-annihilates-right", "zero-annihilates-left", "distrib-left", "distrib-right",
        "star-right", "star-left", "zero-neq-one"]
ARITY = {"add-assoc": 3, "add-comm": 2, "add-zero-right": 1, "add-zero-left": 1, "mul-assoc": 3, "mul-comm": 2,
         "mul-one-right": 1, "mul-one-left": 1, "zero-annihilates-right": 1, "zero-annihilates-left": 1,
         "distrib-left": 3, "distrib-right": 3, "star-right": 1, "star-left": 1, "zero-neq-one": 0}


class World:
    """One symbolic execution context: the semiring module loaded from the current source."""

    def __init__(self, path):
        self.it = I.Interp(path)
        self.it.natives.update(natives.standard_natives())
        self.it.natives["genlm.grammar.chart.Chart"] = I.Unknown("Chart")
        self.env = self.it.load_module(source.module_source(REL), "semiring")

    def cls(self, name):
        return self.env.get(name)

    # ---- algebra through the *real* operator definitions
    def add(self, T, a, b):
        return self.it.binop(ast.Add(), a, b)

    def mul(self, T, a, b):
        return self.it.binop(ast.Mult(), a, b)

    def star(self, T, a):
        c = self.cls(T)
        f, _ = c.lookup("star")
        return self.it.call(I.BoundMethod(f, a) if T != "Float" else f, [] if T != "Float" else [a], {})

    def zero(self, T):
        return self.it.getattr(self.cls(T), "zero")

    def one(self, T):
        return self.it.getattr(self.cls(T), "one")

    def eq(self, a, b):
        return self.it.equals(a, b)


def fresh_value(w, T, nm):
    """A fresh symbolic value of type T built through the real constructor; returns (value, domain constraints, vars)."""
    R = z3.Real
    cls = w.cls(T)
    if T == "Boolean":
        v = z3.Bool(nm)
        return w.it.call(cls, [I.Z(v)], {}), [], {nm: v}
    if T in ("Real", "MaxTimes"):
        v = R(nm)
        dom = [v >= 0] if T == "MaxTimes" else []
        return w.it.call(cls, [I.Z(v)], {}), dom, {nm: v}
    if T == "Float":
        v = R(nm)
        return I.Z(v), [], {nm: v}
    if T in ("MaxPlus", "Log"):
        n, v = z3.Bool(nm + "_neginf"), R(nm)
        return w.it.call(cls, [I.XR(n, z3.BoolVal(False), v)], {}), [], {nm + "_neginf": n, nm: v}
    if T in ("Entropy", "Expectation"):
        p, r = R(nm + "_p"), R(nm + "_r")
        return w.it.call(cls, [I.Z(p), I.Z(r)], {}), [], {nm + "_p": p, nm + "_r": r}
    raise KeyError(T)


def score_of(v):
    return v.fields["score"] if isinstance(v, I.Obj) else v


def star_domain(T, v):
    s = score_of(v)
    if T == "Boolean":
        return []
    if T in ("Real", "Float"):
        return [I.to_real(s) != 1]
    if T in ("Entropy", "Expectation"):
        return [I.to_real(s[0]) != 1]
    if T == "MaxTimes":
        return [I.to_real(s) <= 1]
    if T == "MaxPlus":
        x = I.XR.of(s)
        return [z3.Or(x.neg, x.val <= 0)]
    if T == "Log":
        x = I.XR.of(s)
        return [z3.Or(x.neg, x.val < 0)]
    raise KeyError(T)


def uses_identity(T):
    """Does the class body of T contain `is` / `is not` tests?  (read from the current source)"""
    node = source.find(REL, T)
    return any(isinstance(n, (ast.Is, ast.IsNot)) for n in ast.walk(node))


def law_sides(w, T, law, xs):
    a = xs[0] if xs else None
    b = xs[1] if len(xs) > 1 else None
    c = xs[2] if len(xs) > 2 else None
    add, mul = (lambda x, y: w.add(T, x, y)), (lambda x, y: w.mul(T, x, y))
    z, o = w.zero(T), w.one(T)
    if law == "add-assoc":
        return add(add(a, b), c), add(a, add(b, c))
    if law == "add-comm":
        return add(a, b), add(b, a)
    if law == "add-zero-right":
        return add(a, z), a
    if law == "add-zero-left":
        return add(z, a), a
    if law == "mul-assoc":
        return mul(mul(a, b), c), mul(a, mul(b, c))
    if law == "mul-comm":
        return mul(a, b), mul(b, a)
    if law == "mul-one-right":
        return mul(a, o), a
    if law == "mul-one-left":
        return mul(o, a), a
    if law == "zero-annihilates-right":
        return mul(a, z), z
    if law == "zero-annihilates-left":
        return mul(z, a), z
    if law == "distrib-left":
        return mul(a, add(b, c)), add(mul(a, b), mul(a, c))
    if law == "distrib-right":
        return mul(add(a, b), c), add(mul(a, c), mul(b, c))
    if law == "star-right":
        s = w.star(T, a)
        return s, add(o, mul(a, s))
    if law == "star-left":
        s = w.star(T, a)
        return s, add(o, mul(s, a))
    raise KeyError(law)


def check_law(T, law, twin=False):
    """Returns dict(verdict, paths, ms, backend, model, combos)."""
    n = ARITY[law]
    kinds = ["fresh", "zero", "one"] if (uses_identity(T) and n > 0) else ["fresh"]
    t0 = time.perf_counter()
    total_paths = 0
    backends = set()
    for combo in itertools.product(kinds, repeat=n):
        def harness(path, combo=combo):
            w = World(path)
            xs, dom, vars_ = [], [], {}
            for i, k in enumerate(combo):
                if k == "fresh":
                    v, d, vs = fresh_value(w, T, "abc"[i])
                    xs.append(v)
                    dom += d
                    vars_.update(vs)
                elif k == "zero":
                    xs.append(w.zero(T))
                else:
                    xs.append(w.one(T))
            for d in dom:
                path.assume(d)
            if law.startswith("star"):
                for d in star_domain(T, xs[0]):
                    path.assume(d)
            try:
                if law == "zero-neq-one":
                    g = w.eq(w.zero(T), w.one(T))
                    goal = w.it.negate(g)
                else:
                    lhs, rhs = law_sides(w, T, law, xs)
                    if twin:
                        rhs = w.add(T, rhs, w.one(T)) if law != "zero-neq-one" else rhs
                    goal = w.eq(lhs, rhs)
            except I.PyRaise as e:
                return dict(raised=str(e), vars=vars_)
            return dict(goal=goal, vars=vars_)

        results = I.explore(harness, prune=True)
        total_paths += len(results)
        for path, r in results:
            if "raised" in r:
                return dict(verdict="refuted", paths=total_paths, ms=(time.perf_counter() - t0) * 1000, backend="pyvc",
                            model={"raised": r["raised"], "combo": combo}, combo=combo, detail="operator raises inside the value domain")
            # definedness side conditions met on the path (inf - inf, log of a negative, division): inside the value
            # domain the operators must be defined (a NaN is not a semiring value)
            for (sname, cond, _node) in path.side:
                sc = smt.prove(list(path.pc) + explog.instances(list(path.pc) + [cond]), cond, want_model=True)
                if sc["verdict"] == "refuted":
                    model = {k: smt.model_value(sc["model"], v) for k, v in r["vars"].items()} if sc["model"] is not None else None
                    return dict(verdict="refuted", paths=total_paths, ms=(time.perf_counter() - t0) * 1000, backend=sc["backend"],
                                model=model, combo=combo, detail=f"operator undefined inside the value domain ({sname}) on path {path.taken}")
            goal = r["goal"]
            if goal is True:
                continue
            gz = z3.BoolVal(False) if goal is False else goal.e
            assumptions = list(path.pc)
            fs = assumptions + [gz]
            seeds = []
            if any("EXP" in str(f) or "LOG" in str(f) for f in fs):
                seeds = _equation_sides(gz)
            ax = explog.instances(fs, seeds=seeds)
            res = smt.prove(assumptions + ax, gz)
            backends.add(res["backend"])
            if res["verdict"] != "proved":
                model = None
                if res["model"] is not None:
                    model = {k: smt.model_value(res["model"], v) for k, v in r["vars"].items()}
                return dict(verdict=res["verdict"], paths=total_paths, ms=(time.perf_counter() - t0) * 1000,
                            backend=res["backend"], model=model, combo=combo, detail=f"path {path.taken}")
    return dict(verdict="proved", paths=total_paths, ms=(time.perf_counter() - t0) * 1000,
                backend="+".join(sorted(backends)) or "z3", model=None, combo=None)


def _equation_sides(g):
    out = []

    def rec(e):
        if z3.is_app(e):
            if e.decl().kind() == z3.Z3_OP_EQ and z3.is_real(e.arg(0)):
                out.extend([e.arg(0), e.arg(1)])
            for c in e.children():
                rec(c)

    rec(g)
    return out


# ------------------------------------------------------------------ native replay of a counter-model
def native_value(T, model, nm):
    from genlm.grammar import semiring as S
    cls = getattr(S, T)
    if T == "Boolean":
        return cls(bool(model.get(nm, False)))
    if T in ("Real", "MaxTimes"):
        return cls(Fraction(model.get(nm, 0)))
    if T == "Float":
        return Fraction(model.get(nm, 0))
    if T in ("MaxPlus", "Log"):
        if model.get(nm + "_neginf"):
            return cls(-math.inf)
        return cls(float(Fraction(model.get(nm, 0))))
    return cls(Fraction(model.get(nm + "_p", 0)), Fraction(model.get(nm + "_r", 0)))


def native_law(T, law, combo, model):
    """Evaluate both sides of the law on the real classes (CPython); returns (lhs, rhs, equal)."""
    from genlm.grammar import semiring as S
    cls = getattr(S, T)
    xs = []
    for i, k in enumerate(combo or ["fresh"] * ARITY[law]):
        xs.append(native_value(T, model or {}, "abc"[i]) if k == "fresh" else (cls.zero if k == "zero" else cls.one))
    a = xs[0] if xs else None
    b = xs[1] if len(xs) > 1 else None
    c = xs[2] if len(xs) > 2 else None
    z, o = cls.zero, cls.one
    star = (lambda x: S.Float.star(x)) if T == "Float" else (lambda x: x.star())
    sides = {
        "add-assoc": lambda: ((a + b) + c, a + (b + c)), "add-comm": lambda: (a + b, b + a),
        "add-zero-right": lambda: (a + z, a), "add-zero-left": lambda: (z + a, a),
        "mul-assoc": lambda: ((a * b) * c, a * (b * c)), "mul-comm": lambda: (a * b, b * a),
        "mul-one-right": lambda: (a * o, a), "mul-one-left": lambda: (o * a, a),
        "zero-annihilates-right": lambda: (a * z, z), "zero-annihilates-left": lambda: (z * a, z),
        "distrib-left": lambda: (a * (b + c), a * b + a * c), "distrib-right": lambda: ((a + b) * c, a * c + b * c),
        "star-right": lambda: (star(a), o + a * star(a)), "star-left": lambda: (star(a), o + star(a) * a),
        "zero-neq-one": lambda: (z, o),
    }
    l, r = sides[law]()
    if law == "zero-neq-one":
        return repr(l), repr(r), not (l == r)
    eq = (l == r)
    if not eq and T in ("MaxPlus", "Log"):
        ls, rs = l.score, r.score
        eq = ls == rs or abs(ls - rs) <= 1e-9 * max(1.0, abs(ls), abs(rs))
    return repr(l), repr(r), bool(eq)


def search_native_counterexample(T, law, combo, tries=4000, seed=0):
    rng = random.Random(seed)
    grid = [Fraction(0), Fraction(1), Fraction(1, 2), Fraction(-1, 2), Fraction(2), Fraction(1, 3), Fraction(-2), Fraction(3, 4)]
    n = ARITY[law]
    for _ in range(tries):
        model = {}
        for i in range(n):
            nm = "abc"[i]
            model[nm] = rng.choice(grid)
            model[nm + "_p"] = rng.choice(grid)
            model[nm + "_r"] = rng.choice(grid)
            model[nm + "_neginf"] = rng.random() < 0.15
            if T == "Boolean":
                model[nm] = rng.random() < 0.5
            if T == "MaxTimes":
                model[nm] = abs(model[nm])
        if law.startswith("star"):
            v = model["a"]
            p = model["a_p"]
            if T in ("Real", "Float") and v == 1 or T in ("Entropy", "Expectation") and p == 1:
                continue
            if T == "MaxTimes" and v > 1 or T == "MaxPlus" and not model["a_neginf"] and v > 0:
                continue
            if T == "Log" and not model["a_neginf"] and v >= 0:
                continue
        try:
            l, r, eq = native_law(T, law, combo, model)
        except ZeroDivisionError:
            continue
        except Exception as e:  # noqa: BLE001
            return model, f"raised {type(e).__name__}: {e}", ""
        if not eq:
            return model, l, r
    return None


# ------------------------------------------------------------------ CPython cross-check of the encoder
def cross_check(n=40, seed=0):
    """Run the symbolic semantics as a *concrete* interpreter and compare with CPython on the real classes."""
    rng = random.Random(seed)
    from genlm.grammar import semiring as S
    grid = [Fraction(k, 4) for k in range(-6, 9)]
    bad = []
    count = 0
    w = World(I.Path([]))
    for T in TYPES:
        for _ in range(n):
            def mk(T=T):
                if T == "Boolean":
                    b = rng.random() < 0.5
                    return w.it.call(w.cls(T), [b], {}), S.Boolean(b)
                if T in ("Real", "MaxTimes"):
                    q = abs(rng.choice(grid)) if T == "MaxTimes" else rng.choice(grid)
                    return w.it.call(w.cls(T), [q], {}), getattr(S, T)(q)
                if T == "Float":
                    q = rng.choice(grid)
                    return q, q
                if T in ("MaxPlus", "Log"):
                    if rng.random() < 0.2:
                        return w.it.call(w.cls(T), [I.NEG_INF], {}), getattr(S, T)(-math.inf)
                    q = rng.choice(grid)
                    return w.it.call(w.cls(T), [q], {}), getattr(S, T)(float(q))
                p, r = rng.choice(grid), rng.choice(grid)
                return w.it.call(w.cls(T), [p, r], {}), getattr(S, T)(p, r)
            (sa, na), (sb, nb) = mk(), mk()
            for opname, op in (("+", ast.Add()), ("*", ast.Mult())):
                del w.it.path.side[:]
                try:
                    sv = w.it.binop(op, sa, sb)
                except I.PyRaise as e:
                    sv = ("raised", e.kind)
                except I.OutOfSubset:
                    continue    # the operator body uses a construct outside the interpreter's subset: its law obligations say so
                try:
                    nv = (na + nb) if opname == "+" else (na * nb)
                except Exception as e:  # noqa: BLE001
                    nv = ("raised", type(e).__name__)
                count += 1
                if any(z3.is_false(z3.simplify(c)) for (_n, c, _x) in w.it.path.side):
                    continue    # the operator is undefined here (inf - inf, ...): the definedness obligations decide, not the encoder check
                try:
                    same = _same(sv, nv)
                except Exception:  # noqa: BLE001  (non-concrete / NaN result: not comparable, the law VCs decide)
                    continue
                if not same:
                    bad.append((T, opname, repr(na), repr(nb), repr(sv), repr(nv)))
    return count, bad


def _conc(x):
    if isinstance(x, I.XR):
        if z3.is_true(z3.simplify(x.neg)):
            return -math.inf
        if z3.is_true(z3.simplify(x.pos)):
            return math.inf
        v = z3.simplify(x.val)
        return float(Fraction(v.numerator_as_long(), v.denominator_as_long()))
    if isinstance(x, I.Z):
        v = z3.simplify(x.e)
        if z3.is_true(v):
            return True
        if z3.is_false(v):
            return False
        return Fraction(v.numerator_as_long(), v.denominator_as_long())
    if isinstance(x, tuple):
        return tuple(_conc(y) for y in x)
    return x


def _same(sv, nv):
    if isinstance(sv, tuple) and sv and sv[0] == "raised":
        return isinstance(nv, tuple) and nv[0] == "raised"
    s = _conc(score_of(sv))
    n = nv.score if hasattr(nv, "score") else nv
    if isinstance(s, tuple):
        return all(_num_same(a, b) for a, b in zip(s, n))
    return _num_same(s, n)


def _num_same(a, b):
    if isinstance(a, bool) or isinstance(b, bool):
        return bool(a) == bool(b)
    a, b = float(a), float(b)
    return a == b or abs(a - b) <= 1e-9 * max(1.0, abs(a), abs(b))


# ------------------------------------------------------------------ driver
def _job(args):
    T, law, twin = args
    try:
        return (T, law, twin, check_law(T, law, twin=twin))
    except I.OutOfSubset as e:
        return (T, law, twin, dict(verdict="out-of-subset", paths=0, ms=0.0, backend="pyvc", model=None, detail=str(e), combo=None))


def _native_value(T, k):
    import importlib
    sr = importlib.import_module("genlm.grammar.semiring")
    cls = getattr(sr, T)
    vals = {"Boolean": [True, False], "Real": [0.5, 0.25], "MaxPlus": [-0.5, -2.0], "MaxTimes": [0.5, 0.25], "Log": [-0.5, -2.0],
            "Entropy": [(0.5, 0.25), (0.25, 0.5)], "Expectation": [(0.5, 0.25), (0.25, 0.5)]}[T][k]
    return cls(*vals) if isinstance(vals, tuple) else cls(vals)


# ---------------------------------------------------------------------------------------------- bounded: native floats
def _grid(T):
    from genlm.grammar import semiring as S
    F = Fraction
    inf = math.inf
    if T == "Boolean":
        return [S.Boolean(True), S.Boolean(False), S.Boolean.zero, S.Boolean.one]
    floats = [0.0, 1e-40, 4e-16, 1e-9, 0.25, 0.5, 1.0, 3.0, 1e16, 1e40]
    fracs = [F(0), F(1, 10**40), F(1, 3), F(1), F(5, 2)]
    # negative values only among exact Fractions: a float sum with cancellation loses digits legitimately
    exact = fracs + [F(-1, 2), F(-9, 10), 2 ** 40, 3 ** 30, 7]      # Python ints are exact scores too (no silent fixed-width wrap)
    if T == "Float":
        return [floats + fracs, exact]
    if T == "Real":
        return [[S.Real(x) for x in floats + fracs] + [S.Real.zero, S.Real.one], [S.Real(x) for x in exact] + [S.Real.zero, S.Real.one]]
    if T == "MaxTimes":
        return [S.MaxTimes(x) for x in floats + fracs] + [S.MaxTimes.zero, S.MaxTimes.one]
    if T in ("Log", "MaxPlus"):
        cls = getattr(S, T)
        return [cls(x) for x in (-inf, -1500.0, -800.0, -700.0, -50.0, -3.0, -1.0, -0.5, -1e-9, 0.0, 2.0, 800.0)] + [cls.zero, cls.one]
    cls = getattr(S, T)
    ps = [F(0), F(1, 4), F(1, 2), F(1, 3), F(2), 0.25, 1e-9]
    rs = [F(0), F(-1, 2), F(3, 2), 1e-12]
    return [cls(p_, r_) for p_ in ps for r_ in rs][::3] + [cls.zero, cls.one]


def _num_eq(x, y, logdomain=False):
    if isinstance(x, bool) or isinstance(y, bool):
        return bool(x) == bool(y)
    if isinstance(x, Fraction) and isinstance(y, Fraction):
        return x == y
    fx, fy = float(x), float(y)
    if fx == fy:
        return True
    if math.isnan(fx) or math.isnan(fy) or math.isinf(fx) or math.isinf(fy):
        return False
    if logdomain:
        return abs(fx - fy) <= 1e-9 * max(1.0, abs(fx), abs(fy))
    return abs(fx - fy) <= 1e-9 * max(abs(fx), abs(fy))


def _val_eq(T, l, r):
    sl = l if T == "Float" else l.score
    sr = r if T == "Float" else r.score
    if isinstance(sl, tuple) or isinstance(sr, tuple):
        return isinstance(sl, tuple) and isinstance(sr, tuple) and len(sl) == len(sr) and all(_num_eq(a, b) for a, b in zip(sl, sr))
    return _num_eq(sl, sr, logdomain=T in ("Log", "MaxPlus"))


def _star_defined(T, a):
    s = a if T == "Float" else a.score
    if T == "Boolean":
        return True
    if T in ("Real", "Float"):
        return -1 < s < 1
    if T == "MaxTimes":
        return 0 <= s <= 1
    if T == "MaxPlus":
        return s <= 0
    if T == "Log":
        return s < 0
    return 0 <= s[0] < 1


def float_grid(run):
    """BOUNDED layer: the laws evaluated by CPython on the real classes over a grid of values per type that includes what the
    proof abstracts away (A1: floats as reals): scores hundreds of nats apart in the log types, magnitudes from 1e-40 to 1e40,
    sums below 1e-15, exact Fractions next to floats, the zero / one constants.  Equality up to relative 1e-9 (scores of the log
    types: absolute 1e-9 * max(1, |score|)); exact for Fractions and Booleans.  Magnitudes are kept inside 1e+-40 so that no triple
    product leaves the double range (overflow of a correct implementation is not a rounding error the property has to excuse)."""
    from genlm.grammar import semiring as S
    import warnings
    n = 0
    with warnings.catch_warnings():
        warnings.simplefilter("ignore")
        for T in TYPES:
            cls = getattr(S, T)
            grids = _grid(T)
            grids = grids if isinstance(grids[0], list) else [grids]
            z, o = cls.zero, cls.one
            star = (lambda x: S.Float.star(x)) if T == "Float" else (lambda x: x.star())
            if T == "Float":
                z, o = S.Float.zero, S.Float.one
            triples, pairs, singles = [], [], []
            for vals in grids:
                t3 = list(itertools.product(vals, repeat=3))
                if len(t3) > 1500:
                    t3 = random.Random(run.seed).sample(t3, 1500) + [(a, b, c) for a in vals[:6] for b in vals[-6:] for c in vals[3:9]]
                triples += t3
                pairs += [(a, b) for a in vals for b in vals]
                singles += [(a,) for a in vals]
            for law in LAWS:
                if law == "zero-neq-one":
                    continue
                k = ARITY[law]
                combos = singles if k == 1 else (pairs if k == 2 else triples)
                bad = None
                for xs in combos:
                    a = xs[0]
                    b = xs[1] if k > 1 else None
                    c = xs[2] if k > 2 else None
                    if law.startswith("star") and not _star_defined(T, a):
                        continue
                    try:
                        l, r = {
                            "add-assoc": lambda: ((a + b) + c, a + (b + c)), "add-comm": lambda: (a + b, b + a),
                            "add-zero-right": lambda: (a + z, a), "add-zero-left": lambda: (z + a, a),
                            "mul-assoc": lambda: ((a * b) * c, a * (b * c)), "mul-comm": lambda: (a * b, b * a),
                            "mul-one-right": lambda: (a * o, a), "mul-one-left": lambda: (o * a, a),
                            "zero-annihilates-right": lambda: (a * z, z), "zero-annihilates-left": lambda: (z * a, z),
                            "distrib-left": lambda: (a * (b + c), a * b + a * c), "distrib-right": lambda: ((a + b) * c, a * c + b * c),
                            "star-right": lambda: (star(a), o + a * star(a)), "star-left": lambda: (star(a), o + star(a) * a),
                        }[law]()
                    except Exception as e:  # noqa: BLE001
                        bad = (xs, f"raises {type(e).__name__}: {e}", "")
                        break
                    n += 1
                    if not _val_eq(T, l, r):
                        bad = (xs, repr(l), repr(r))
                        break
                run.count(0, key=f"grid:{T}:{law}")
                if bad is not None:
                    xs, l, r = bad
                    run.violation(f"C16/semiring.{T}/{law}", f"law fails on native values: {law} for {T}",
                                  dict(type=T, law=law, operands=[repr(x) for x in xs], lhs=l, rhs=r, replayed=True, layer="bounded float grid"),
                                  signature=f"{T}:{law}:grid")
    run.count(n)
    run.rule("native grid: per type 10-16 values (floats 0, 1e-40 .. 1e40, 4e-16; Fractions incl. 1/10^40 and negatives; log-type scores -inf, -1500 .. 800; "
             "entropy/expectation pairs; the zero/one constants); every law on all singles/pairs and on <= 1716 triples; equality up to relative 1e-9, exact on Fractions")
    run.extra["float_grid_evaluations"] = n


def purity(run):
    """C16/semiring.<T>/operators-pure: frame condition `modifies nothing` on every method a weight of type T answers to (its own and
    the inherited ones, whatever their names: an added __iadd__/__imul__ is enumerated like any other), except the constructor, which
    may write the object under construction.  The algebraic obligations are per-call; this frame makes them hold after every history
    (the zero/one constants are shared singletons: Chart.__missing__ hands out R.zero itself)."""
    from vlib.pyvc import frames
    import inspect
    for T in TYPES:
        name = f"C16/semiring.{T}/operators-pure"
        node = source.find(REL, T)
        classes = [node] + ([source.find(REL, "Semiring")] if T != "Float" else [])
        seen, findings, unclassified, n = set(), [], [], 0
        for c in classes:
            for ch in c.body:
                if not isinstance(ch, ast.FunctionDef) or ch.name == "__init__" or ch.name in seen:
                    continue
                seen.add(ch.name)
                n += 1
                f, u = frames.FrameChecker(ch, frames.Spec(), {}).check()
                findings += [(ch.name, x) for x in f]
                unclassified += [(ch.name, x) for x in u]
        if not findings:
            if unclassified:
                run.obligation(name, "unknown", backend="ownership", detail="unclassified: " + "; ".join(f"{m}: {x!r}" for m, x in unclassified[:3]))
            else:
                run.obligation(name, "proved", backend="ownership", detail=f"{n} methods: no store to an operand, to the class or to a module constant")
            continue
        replay = dict(type=T, findings=[f"{m}: {x!r}" for m, x in findings], replayed=False)
        if T != "Float":
            # replay natively: call the offending method on fresh operands and on the shared constants and look for a changed operand
            import importlib
            cls = getattr(importlib.import_module("genlm.grammar.semiring"), T)
            for m, _ in findings:
                for left in ("zero", "one", "fresh"):
                    a = getattr(cls, left) if left != "fresh" else _native_value(T, 0)
                    b = _native_value(T, 1)
                    before = (repr(a), repr(b), repr(cls.zero), repr(cls.one))
                    saved = a.score
                    try:
                        fn = getattr(a, m)
                        k = len(inspect.signature(fn).parameters)
                        fn(*([b] * k))
                    except Exception:  # noqa: BLE001
                        continue
                    after = (repr(a), repr(b), repr(cls.zero), repr(cls.one))
                    try:
                        a.score = saved
                    except Exception:  # noqa: BLE001
                        pass
                    if before != after:
                        replay.update(replayed=True, method=m, receiver=left, argument=repr(b), before=before, after=after)
                        break
                if replay["replayed"]:
                    break
        run.obligation(name, "refuted", backend="ownership", detail=f"{findings[0][0]}: {findings[0][1]!r}", model=dict(findings=replay["findings"]),
                       replay=replay, signature=f"{T}:operators-pure")


def run(run, only=None):
    import multiprocessing as mp
    run.trust("pyvc symbolic interpreter (vlib/pyvc/interp.py), cross-checked against CPython this run",
              f"z3 {z3.get_version_string()} (cvc5 1.0.3 takes z3's unknowns)",
              "A1: machine floats treated as mathematical reals (no rounding/overflow/NaN); 'within rounding error' is not decided",
              "numpy exp/log/log1p: uninterpreted with ground-instantiated axioms (positivity, monotone, exp(s+t)=exp s*exp t, inverse)")
    run.assume("A1 floats as mathematical reals", "A2 no exceptions other than the modelled ones",
               "value domains: Boolean {F,T}; Real/Float/Expectation/Entropy reals; MaxTimes scores >= 0; MaxPlus/Log reals + -inf",
               "star domains: p != 1 (Real, Float, Expectation, Entropy), x <= 1 (MaxTimes), x <= 0 (MaxPlus), x < 0 (Log), all (Boolean)",
               "laws stated with each class's own __eq__; object identity (is) explored with the zero/one constants and fresh values")
    src = source.module_source(REL)
    for T in TYPES:
        node = source.find(REL, T)
        for ch in node.body:
            if isinstance(ch, ast.FunctionDef) and ch.name in ("__init__", "__add__", "__mul__", "star", "__eq__", "from_string"):
                run.function_under_contract(f"genlm.grammar.semiring.{T}.{ch.name}", source.sha(ch))
    run.function_under_contract("genlm.grammar.semiring.Semiring.__eq__", source.sha(source.find(REL, "Semiring.__eq__")))
    run.function_under_contract("genlm.grammar.semiring.Semiring.__init__", source.sha(source.find(REL, "Semiring.__init__")))

    # encoder cross-check (a disagreement is a tool bug: exit 3)
    count, bad = cross_check(n=40 if run.tier == "quick" else 400, seed=run.seed)
    run.extra["encoder_cross_check"] = dict(evaluations=count, disagreements=len(bad))
    if bad:
        raise RuntimeError(f"pyvc encoder disagrees with CPython: {bad[:3]}")

    jobs = [(T, law, False) for T in TYPES for law in LAWS]
    twins = [(T, "add-comm", True) for T in TYPES]
    with mp.get_context("fork").Pool(16) as pool:
        results = pool.map(_job, jobs + twins, chunksize=1)
    refuted_twins = 0
    for T, law, twin, r in results:
        name = f"C16/semiring.{T}/{law}"
        if twin:
            # must-fail twin: a deliberately false law (a+b == b+a+one) has to be refuted, else the axiom set is inconsistent
            if r["verdict"] == "refuted":
                refuted_twins += 1
            elif r["verdict"] in ("out-of-subset", "unknown"):
                pass        # the operator body is outside the interpreter's subset: its real laws say so too (nothing was proved vacuously)
            elif not (T in ("Boolean", "MaxPlus", "MaxTimes") and r["verdict"] == "proved"):
                raise RuntimeError(f"vacuity guard: must-fail twin of {name} came back {r['verdict']}")
            continue
        if r["verdict"] == "proved":
            run.obligation(name, "proved", backend=r["backend"], ms=r["ms"], detail=f"{r['paths']} paths")
            if len(run.samples) < 5 and law in ("distrib-left", "star-right"):
                run.sample(dict(obligation=name, verdict="unsat on every path", paths=r["paths"], ms=round(r["ms"], 1)))
        elif r["verdict"] == "refuted":
            model = r["model"] or {}
            replay = dict(type=T, law=law, combo=r["combo"], model=model, solver=r["backend"], detail=r.get("detail", ""))
            found = False
            try:
                if "raised" in model:
                    raise ValueError
                l, rr, eq = native_law(T, law, r["combo"], model)
                replay.update(native_lhs=l, native_rhs=rr, native_equal=eq)
                found = not eq
            except Exception:  # noqa: BLE001
                pass
            if not found:
                s = search_native_counterexample(T, law, r["combo"], seed=run.seed)
                if s is not None:
                    m2, l, rr = s
                    replay.update(model=m2, native_lhs=l, native_rhs=rr, native_equal=False, found_by="directed native search")
                    found = True
            replay["replayed"] = found
            if not found and str(r.get("detail", "")).startswith("operator undefined"):
                # a definedness condition refuted by the solver but not reproducible on the real classes: the ground axioms
                # for exp/log are incomplete, so this is 'unknown', not a violation
                run.obligation(name, "unknown", backend=r["backend"], ms=r["ms"], detail=r["detail"] + " (not reproduced natively)")
                continue
            run.obligation(name, "refuted", backend=r["backend"], ms=r["ms"], detail=f"law fails: {law} for {T}", model=model,
                           replay=replay, signature=f"{T}:{law}")
        else:
            run.obligation(name, r["verdict"], backend=r["backend"], ms=r["ms"], detail=r.get("detail", ""))
    run.extra["must_fail_twins_refuted"] = refuted_twins
    purity(run)
    float_grid(run)
    if len(run.obligations) == 0:
        raise RuntimeError("vacuity guard: zero obligations generated")


def replay(doc):
    r = doc["replay"]
    print(f"replay of {doc['obligation']}: {doc['what']}")
    print("  solver model:", r.get("model"))
    try:
        l, rr, eq = native_law(r["type"], r["law"], r.get("combo"), r.get("model") or {})
        print(f"  native on current tree: lhs={l} rhs={rr} equal={eq}")
        return 0 if eq else 1
    except Exception as e:  # noqa: BLE001
        print("  native evaluation raised:", repr(e))
        return 1

"""C14 - the real-weighted equivalence test and minimisation of genlm.grammar.wfsa.field_wfsa are exact.

PROVED layer  : props/C14_proved.py (WFSA.simple/faithful) - see run().
BOUNDED layer : for pairs (A, B) of well-conditioned real-weighted automata
                    A.counterexample(B) is None   <=>   A and B give every string the same weight
                    a returned (w, va, vb): va ~ A(w), vb ~ B(w), and A(w) != B(w)
                    (A == B) <=> equivalent;  equivalent => hash(A) == hash(B)
                and for single automata
                    A.min terminates (20 s watchdog - the property promises termination, so a hang is a violation),
                    A.min(x) ~ A(x) (tolerance 1e-7) and A.min has exactly hankel_rank(A) states
                    A.simple (the dense representation everything above runs on) assigns the same string weights
                oracle: exact Tzeng equivalence / Hankel rank over the rationals (vlib/spec/fsaspec.py).
"""
import random
from fractions import Fraction

from props import common
from props.common import sig
from vlib import bridge, dom_wfsa, engine
from vlib.dom_wfsa import gcall, fail_kind
from vlib.spec import algebra, fsaspec, ratspec

ID = "C14"
LEVEL = "other"

P = "C14/wfsa.field_wfsa.WFSA."
OB_CE = P + "counterexample/none-iff-equivalent"
OB_CE_W = P + "counterexample/witness-is-genuine"
OB_EQ = P + "__eq__/iff-equivalent"
OB_HASH = P + "__hash__/consistent-with-eq"
OB_MIN_T = P + "min/terminates"
OB_MIN_E = P + "min/equivalent"
OB_MIN_R = P + "min/hankel-rank-states"
OB_SIMPLE = P + "simple/faithful"

MIN_TIMEOUT = 20
CALL_TIMEOUT = 20
Q = algebra.Q


def family_of(*autos):
    for a in autos:
        for w in list(a.start.values()) + list(a.stop.values()) + [w for _, _, _, w in a.arcs]:
            if Fraction(w).denominator != 1:
                return "frac"
    return "int"


def make_cases(tier, seed, n_random=None, min_batches=None, pair_batch=8):
    quick = tier == "quick"
    rng = random.Random(seed)
    n_random = n_random if n_random is not None else (110 if quick else 1500)
    q, sigma, m = (3, 2, 5) if quick else (4, 2, 7)
    autos = [(n, a) for n, a in dom_wfsa.nice_corpus().items()]
    for i in range(n_random):
        fam = "signed" if i % 5 == 4 else ("frac" if i % 3 else "int")
        for _ in range(20):
            a = dom_wfsa.nice_wfsa(rng, fam, q, sigma, m)
            if ratspec.eps_converges(a):
                break
        else:
            continue
        autos.append((f"{fam}{seed}_{i}", a))
    # ---- pairs: every automaton against its perturbations, one unrelated automaton and the empty automaton
    pairs = []
    empty = dom_wfsa.nice_corpus()["empty_nostates"]
    for i, (name, a) in enumerate(autos):
        for kind, b in dom_wfsa.perturbations(a, rng):
            if ratspec.eps_converges(b):
                pairs.append((name, a, kind, b))
        on, other = autos[(i * 7 + 3) % len(autos)]
        pairs.append((name, a, "other:" + on, other))
        pairs.append((name, a, "empty", empty))
    cases = []
    for k in range(0, len(pairs), pair_batch):
        cases.append(dict(kind="pairs", pairs=pairs[k:k + pair_batch]))
    # ---- minimisation: batches ordered so that a hang (observation 8) costs each batch at most one watchdog period
    min_batches = min_batches if min_batches is not None else (16 if quick else 160)
    order = sorted(range(len(autos)), key=lambda i: (i % min_batches,))
    per = {}
    for i in order:
        per.setdefault(i % min_batches, []).append(autos[i])
    for k in sorted(per):
        cases.append(dict(kind="min", autos=per[k], maxlen=5 if quick else 6))
    return cases


def flatten(w):
    """The word of a counterexample: nested pairs (a, (b, (..., ()))) with the first symbol outermost."""
    out = []
    while w != ():
        a, w = w
        out.append(a)
    return tuple(out)


def close7(got, want):
    try:
        got = float(got)
    except (TypeError, ValueError):
        return False
    want = float(want)
    return got == got and abs(got - want) <= 1e-7 * max(1.0, abs(want))


def clear_difference(a, b, wit, maxlen=5):
    """A string on which the two weights differ far beyond the library's tolerance (np.allclose: rtol 1e-5, atol 1e-8),
    or None: then the pair is not 'well-conditioned' and a missed difference is not reported."""
    def clear(x):
        va, vb = fsaspec.wfsa_weight(Q, a, x), fsaspec.wfsa_weight(Q, b, x)
        return abs(va - vb) > Fraction(1, 10 ** 3) * max(abs(va), abs(vb)) + Fraction(1, 10 ** 5)
    if wit is not None and clear(wit):
        return tuple(wit)
    for x in ratspec.strings_upto(dom_wfsa.alphabet(a, b) or ["a"], maxlen):
        if clear(x):
            return x
    return None


def build(a):
    from genlm.grammar.wfsa import field_wfsa
    from genlm.grammar.semiring import Float
    return dom_wfsa.build_wfsa(field_wfsa.WFSA, Float, float, a)


def check_case(case):
    out = dict(n=0, keys=[], violations=[])

    def viol(ob, what, func, fam, extra, desc, got, exp, sub):
        out["violations"].append(dict(
            obligation=ob, what=what, signature=sig(func, dom_wfsa.kind(what), fam, extra),
            replay=dict(desc, function=func, observed=repr(got), expected=repr(exp), case=common.enc(sub))))

    if case["kind"] == "pairs":
        for name, a, kind, b in case["pairs"]:
            sub = dict(kind="pairs", pairs=[(name, a, kind, b)])
            fam = family_of(a, b)
            desc = dict(A=bridge.fmt_automaton(a), B=bridge.fmt_automaton(b), instance=f"{name} vs {kind}", weights=fam)
            eq_spec, wit = fsaspec.equivalent(Q, a, b)
            sta, ma = gcall(CALL_TIMEOUT, build, a)
            stb, mb = gcall(CALL_TIMEOUT, build, b)
            if sta != "ok" or stb != "ok":
                viol(OB_CE, fail_kind(sta, ma) if sta != "ok" else fail_kind(stb, mb), "construct", fam, "", desc, (ma, mb), "automata", sub)
                continue
            clear = None if eq_spec else clear_difference(a, b, wit)
            conditioned = eq_spec or clear is not None
            # ---- counterexample
            st, ce = gcall(CALL_TIMEOUT, ma.counterexample, mb)
            out["n"] += 1
            if st != "ok":
                viol(OB_CE, fail_kind(st, ce), "counterexample", fam, "", desc, ce, "None" if eq_spec else "a counterexample", sub)
            else:
                if ce is None and not eq_spec and conditioned:
                    viol(OB_CE, "missed-difference", "counterexample", fam, "", desc, None,
                         f"a counterexample, e.g. {''.join(clear)!r}: A={fsaspec.wfsa_weight(Q, a, clear)} B={fsaspec.wfsa_weight(Q, b, clear)}", sub)
                if ce is not None:
                    out["n"] += 1
                    try:
                        w, va, vb = ce
                        word = flatten(w)
                    except (TypeError, ValueError) as e:
                        viol(OB_CE_W, "malformed-counterexample", "counterexample", fam, "", desc, ce, "(word, va, vb)", sub)
                    else:
                        wa, wb = fsaspec.wfsa_weight(Q, a, word), fsaspec.wfsa_weight(Q, b, word)
                        if eq_spec:
                            viol(OB_CE, "false-counterexample", "counterexample", fam, "", desc, (word, va, vb), "None: the automata are equivalent", sub)
                        elif not (close7(va, wa) and close7(vb, wb)):
                            viol(OB_CE_W, "wrong-reported-weights", "counterexample", fam, "", desc, (word, va, vb), (word, wa, wb), sub)
                        elif wa == wb:
                            viol(OB_CE_W, "not-a-difference", "counterexample", fam, "", desc, (word, va, vb), (word, wa, wb), sub)
            # ---- == in both directions
            if conditioned:
                for func, x, y in (("__eq__", ma, mb), ("__eq__(swapped)", mb, ma)):
                    st, r = gcall(CALL_TIMEOUT, lambda x=x, y=y: x == y)
                    out["n"] += 1
                    if st != "ok":
                        viol(OB_EQ, fail_kind(st, r), func, fam, "", desc, r, eq_spec, sub)
                    elif bool(r) != eq_spec:
                        viol(OB_EQ, "equal-but-not-equivalent" if r else "equivalent-but-not-equal", func, fam, "", desc, r, eq_spec, sub)
            # ---- hash
            if eq_spec:
                st, hs = gcall(CALL_TIMEOUT, lambda: (hash(ma), hash(mb)))
                out["n"] += 1
                if st != "ok":
                    viol(OB_HASH, fail_kind(st, hs), "__hash__", fam, "", desc, hs, "equal hashes", sub)
                elif hs[0] != hs[1]:
                    viol(OB_HASH, "equivalent-but-different-hash", "__hash__", fam, "", desc, hs, "equal hashes", sub)
            if conditioned and (dom_wfsa.useful_states(a) or dom_wfsa.useful_states(b)):
                out["keys"].append(sig(name, kind))
        return out

    # ---------------------------------------------------------------- kind == "min"
    hung = False
    autos = sorted(case["autos"], key=lambda na: (family_of(na[1]) != "int", not dom_wfsa.useful_states(na[1])))
    for name, a in autos:
        sub = dict(kind="min", autos=[(name, a)], maxlen=case["maxlen"])
        fam = family_of(a)
        rank = fsaspec.hankel_rank(Q, a)
        lang = "empty-language" if rank == 0 else "nonempty-language"
        desc = dict(automaton=bridge.fmt_automaton(a), instance=name, weights=fam, hankel_rank=rank)
        st, m = gcall(CALL_TIMEOUT, build, a)
        if st != "ok":
            viol(OB_SIMPLE, fail_kind(st, m), "construct", fam, lang, desc, m, "an automaton", sub)
            continue
        V = dom_wfsa.alphabet(a) or ["a"]
        L = max(1, min(case["maxlen"], len(a.states) + rank - 1))
        xs = ratspec.strings_upto(V, L)
        want = {x: fsaspec.wfsa_weight(Q, a, x) for x in xs}
        # ---- simple: the dense representation assigns the same weights
        st, s = gcall(CALL_TIMEOUT, lambda: m.simple)
        out["n"] += 1
        if st != "ok":
            viol(OB_SIMPLE, fail_kind(st, s), "simple", fam, lang, desc, s, "a dense representation", sub)
        else:
            for x in xs:
                if len(x) > 3:
                    break
                def dense(x=x):
                    v = s.start
                    for c in x:
                        if c not in s.arcs:
                            return 0.0
                        v = v @ s.arcs[c]
                    return v @ s.stop
                st, v = gcall(CALL_TIMEOUT, dense)
                out["n"] += 1
                if st != "ok":
                    viol(OB_SIMPLE, fail_kind(st, v), "simple", fam, lang, desc, (x, v), want[x], sub)
                    break
                if not close7(v, want[x]):
                    viol(OB_SIMPLE, "wrong-value", "simple", fam, lang, desc, ("".join(x), float(v)), want[x], sub)
                    break
        # ---- min
        if hung:
            continue            # one watchdog period per batch (see make_cases); the rest of the batch is not evaluated
        st, mn = gcall(MIN_TIMEOUT, lambda: m.min)
        out["n"] += 1
        if st == "timeout":
            hung = True
            viol(OB_MIN_T, f"timeout: no result after {MIN_TIMEOUT}s", "min", fam, lang, desc, "no result", f"an automaton with {rank} states", sub)
            continue
        if st != "ok":
            viol(OB_MIN_T, fail_kind(st, mn), "min", fam, lang, desc, mn, f"an automaton with {rank} states", sub)
            continue
        out["n"] += 1
        st, d = gcall(CALL_TIMEOUT, lambda: mn.dim)
        if st != "ok" or d != rank:
            viol(OB_MIN_R, "wrong-number-of-states" if st == "ok" else fail_kind(st, d), "min", fam, lang, desc, d, rank, sub)
        for x in xs:
            st, v = gcall(CALL_TIMEOUT, mn, x)
            out["n"] += 1
            if st != "ok":
                viol(OB_MIN_E, fail_kind(st, v), "min", fam, lang, desc, ("".join(x), v), want[x], sub)
                break
            if not close7(v, want[x]):
                viol(OB_MIN_E, "wrong-value", "min", fam, lang, desc, ("".join(x), v), want[x], sub)
                break
        if rank:
            out["keys"].append(sig(name, "min"))
        if name in ("rank3", "redundant_pair"):
            out["sample"] = dict(automaton=bridge.fmt_automaton(a), hankel_rank=rank, min_states=d if st == "ok" else None, strings=len(xs))
    return out


def bounded(run):
    tier = run.tier
    cases = make_cases(tier, run.seed)
    npairs = sum(len(c["pairs"]) for c in cases if c["kind"] == "pairs")
    nmin = sum(len(c["autos"]) for c in cases if c["kind"] == "min")
    run.rule(f"automata: corpus (lift with weights 1/2, 1/4, 1, 2; four kinds of empty language incl. no states; epsilon-only "
             f"language; loops; redundant and useless states; epsilon arcs) + seeded random A{(3, 2, 5) if tier == 'quick' else (4, 2, 7)} "
             f"with WELL-CONDITIONED weights: family 'frac' from {[str(w) for w in dom_wfsa.NICE_FRAC]}, family 'int' from "
             f"{{1,2,3}} (epsilon structure convergent); {nmin} automata for min/simple, {npairs} pairs = each automaton against "
             f"copy, renamed, +useless states, split state, diagonal conjugation (equivalent rewrites), one arc halved / +1/4 / "
             f"dropped, one final weight scaled (near misses, mostly by a non-integer amount), an unrelated automaton, the empty "
             f"automaton; which pairs are equivalent is decided by exact Tzeng equivalence over Q; a missed difference is "
             f"reported only if some string differs by > 1e-3 relative + 1e-5 absolute (far beyond np.allclose's 1e-5/1e-8); "
             f"min: {MIN_TIMEOUT}s watchdog, a hang is a violation (after a hang the rest of that batch's min evaluations is "
             f"skipped to bound the run time), states == exact Hankel rank, min(x) ~ A(x) at 1e-7 on all strings up to length "
             f"min(|A|+rank-1, {5 if tier == 'quick' else 6}); class field_wfsa.WFSA over Float with python-float weights.  "
             f"NOT covered: ill-conditioned weights, numpy-typed or Fraction weights, alphabets > 2.  non-trivial = non-empty "
             f"language; distinct = (automaton, partner) / (automaton, min); signature = (function, failure kind, weight family, "
             f"language emptiness for min/simple)")
    seeds = (0, 1) if tier == "quick" else (0, 1, 2, 3)
    run.extra["hash_seeds"] = list(seeds)
    # every case under exactly one of the hash seeds (states are ints/tuples; the dense code path does not iterate sets of
    # strings) - a hanging `min` costs a full watchdog period, so cases are not repeated per seed
    engine.run_cases(run, "props.C14", "check_case", cases, hash_seeds=seeds, per_case_timeout=600, split=True, chunk=1)


def run(run, only=None):
    run.assume("A1: weights are well-conditioned (differences are either exactly zero or far above the np.allclose tolerance "
               "used inside field_wfsa)",
               "A4: termination of min is promised by the property; it is only observed through a 20 s watchdog",
               "fsaspec.equivalent / hankel_rank (Tzeng / Schuetzenberger over Q, exact Gaussian elimination) are the oracle")
    if only != "bounded":
        common.run_proved(run, "C14")
    if only != "proved":
        bounded(run)


def replay(doc):
    return common.generic_replay(doc, check_case)

"""C15 - the algebraic path solver (genlm.grammar.linear.WeightedGraph) computes closures and least solutions.

PROVED layer  : props/C15_proved.py (WeightedGraph.wf, buckets, closure copy, |N| = 1 special case) - see run().
BOUNDED layer : for weighted digraphs G = (N, A) over a closed semiring
                    closure_scc_based() == closure_reference() == closure() == sum_k A^k   (entry (i, j) = total weight of
                                                                                            all paths from i to j)
                    solve_left(b)  == least solution of x = xA + b  == b A*
                    solve_right(b) == least solution of x = Ax + b  == A* b
                    blocks  is exactly the partition into strongly connected components, in an order compatible with the
                            edges: an edge i -> j between different components has block(i) BEFORE block(j) (solve_left
                            consumes the blocks front to back and needs the solution of every predecessor first);
                    buckets[x] is the index of x's block
                oracle: exact (I - A)^-1 over the rationals / Kleene iteration over the idempotent semirings, and SCCs by
                Warshall reachability (vlib/dom_wfsa.sccs_warshall, validated by brute force).
Precondition (from the call sites): edge weights are accumulated with `G[i, j] += w` and never cancel.
"""
import itertools
import random
from fractions import Fraction

from props import common
from props.common import num_close, sig
from vlib import dom_wfsa, engine
from vlib.dom_wfsa import gcall, fail_kind
from vlib.spec import algebra

ID = "C15"
LEVEL = "other"

SEMIRINGS_QUICK = ["Q", "Float", "Real", "Boolean", "MaxTimes", "MaxPlus"]
SEMIRINGS_THOROUGH = ["Q", "Float", "Real", "Boolean", "MaxTimes", "MaxPlus", "Log", "FloatFrac"]
EXHAUSTIVE_4 = ["Q", "Float", "Boolean"]

P = "C15/linear.WeightedGraph."
OB_SCC = P + "blocks/scc-partition"
OB_ORDER = P + "blocks/order-compatible-with-edges"
OB_BUCKETS = P + "buckets/index-of-block"
OB_CLOSURE = {"closure_scc_based": P + "closure_scc_based/equals-sum-of-powers",
              "closure_reference": P + "closure_reference/equals-sum-of-powers",
              "closure": P + "closure/equals-sum-of-powers"}
OB_LEFT = P + "solve_left/least-solution"
OB_RIGHT = P + "solve_right/least-solution"
OB_TARJAN = "C15/linear.scc_decomposition/scc-partition-any-root-order"

CALL_TIMEOUT = 20
NAMERS = {"int": lambda i: i, "str": lambda i: "v%d" % i, "tuple": lambda i: ("n", i), "rev": lambda i: 100 - i}
CHUNK = 256


def make_cases(tier, seed, n_random=None):
    quick = tier == "quick"
    rng = random.Random(seed)
    srs = SEMIRINGS_QUICK if quick else SEMIRINGS_THOROUGH
    cases = []
    names = list(NAMERS)
    # exhaustive: every digraph (self loops included) on <= 3 nodes, every semiring
    for k, sr in enumerate(srs):
        for n in (0, 1, 2, 3):
            total = 1 << (n * n)
            for lo in range(0, total, CHUNK):
                cases.append(dict(kind="exh", n=n, lo=lo, hi=min(total, lo + CHUNK), sr=sr, rot=k, perms="all"))
    if not quick:
        for k, sr in enumerate(EXHAUSTIVE_4):
            for lo in range(0, 1 << 16, CHUNK):
                cases.append(dict(kind="exh", n=4, lo=lo, hi=lo + CHUNK, sr=sr, rot=k, perms="all"))
    # corpus and samples up to 7 nodes
    n_random = n_random if n_random is not None else (150 if quick else 2500)
    graphs = [(nm, n, e) for nm, (n, e) in dom_wfsa.graph_corpus().items()]
    for i in range(n_random):
        n = rng.choice([4, 5, 6, 7])
        graphs.append((f"rand{seed}_{i}", n, dom_wfsa.random_graph(rng, n)))
    for i, (nm, n, e) in enumerate(graphs):
        for k, sr in enumerate(srs):
            # twice: every edge is assigned a second time (`G[i, j] += zero`, a no-op on the weight): the call sites accumulate an edge
            # in several steps and the adjacency maps must not list a successor twice (strengthened after seeded change C15-4)
            cases.append(dict(kind="one", name=nm + ("#twice" if (i + k) % 2 else ""), n=n, edges=e, sr=sr, names=names[(i + k) % len(names)], perms=3, pseed=i,
                              twice=bool((i + k) % 2)))
    # a non-commutative closed semiring (words of length <= LANG_K): corpus, all digraphs on <= 2 nodes, samples on 3..4 nodes
    for nm, n, e in graphs[:len(dom_wfsa.graph_corpus())]:
        if n <= 5:
            cases.append(dict(kind="noncomm", name=nm, n=n, edges=e))
    for n in (1, 2):
        for mask in range(1 << (n * n)):
            cases.append(dict(kind="noncomm", name=f"nc_all{n}_{mask}", n=n, edges=dom_wfsa.graph_from_mask(n, mask)))
    for i in range(40 if quick else 600):
        n = rng.choice([3, 3, 4])
        cases.append(dict(kind="noncomm", name=f"nc_rand{seed}_{i}", n=n, edges=dom_wfsa.random_graph(rng, n)))
    return cases


def same(sr, got, want):
    if sr == "Q":
        return got == want
    return num_close(got, want)


def check_graph(out, case, name, n, edges, sr, namer, perms, SR):
    from genlm.grammar.linear import WeightedGraph
    R, ops, conv, val = SR[sr]
    f = NAMERS[namer]
    nodes = [f(i) for i in range(n)]
    sub = dict(kind="one", name=name, n=n, edges=edges, sr=sr, names=namer, perms=perms, pseed=case.get("pseed", 0), twice=case.get("twice", False))
    desc = dict(graph=f"nodes={nodes} edges={[(f(i), f(j), str(w)) for i, j, w in edges]}", semiring=sr, instance=name)

    def viol(ob, what, func, got, exp):
        out["violations"].append(dict(obligation=ob, what=what, signature=sig(func, dom_wfsa.kind(what), sr),
                                      replay=dict(desc, function=func, observed=repr(got), expected=repr(exp), case=common.enc(sub))))

    def sw(w):
        if sr == "Boolean":
            return w != 0
        if sr == "MaxPlus":
            import math
            return -math.inf if w == 0 else math.log(float(w))
        return Fraction(w)

    # ---- spec side
    M = {u: {v: ops.zero for v in nodes} for u in nodes}
    for i, j, w in edges:
        M[f(i)][f(j)] = ops.add(M[f(i)][f(j)], sw(w))
    if not ops.idempotent:
        Mq = {u: {v: Fraction(0) for v in nodes} for u in nodes}
        for i, j, w in edges:
            Mq[f(i)][f(j)] += w
        if not algebra.Q.converges(nodes, Mq):
            return          # outside the domain: the path sums diverge
    K = ops.closure(nodes, M) if nodes else {}
    epairs = [(f(i), f(j)) for i, j, w in edges if w != 0]
    comps, reach = dom_wfsa.sccs_warshall(nodes, epairs)

    # ---- build the real graph the way the call sites do
    def build():
        G = WeightedGraph(R)
        for i, j, w in edges:
            G[f(i), f(j)] += conv(w)
        if case.get("twice"):
            for i, j, w in edges:
                G[f(i), f(j)] += R.zero
        G.N |= set(nodes)
        return G
    st, G = gcall(CALL_TIMEOUT, build)
    if st != "ok":
        viol(OB_SCC, fail_kind(st, G), "construct", G, "a graph")
        return

    def check_blocks(blocks, ob_scc, func):
        flat = [x for b in blocks for x in b]
        if sorted(map(repr, flat)) != sorted(map(repr, nodes)) or {frozenset(b) for b in blocks} != comps:
            viol(ob_scc, "not-the-scc-partition", func, [sorted(map(repr, b)) for b in blocks], [sorted(map(repr, c)) for c in comps])
            return False
        pos = {x: k for k, b in enumerate(blocks) for x in b}
        bad = [(u, v) for u, v in epairs if pos[u] != pos[v] and not pos[u] < pos[v]]
        if bad:
            viol(OB_ORDER if func == "blocks" else OB_TARJAN, "edge-against-block-order", func, [sorted(map(repr, b)) for b in blocks],
                 f"block of {bad[0][0]!r} before block of {bad[0][1]!r}")
            return False
        return True

    # ---- blocks / buckets
    st, blocks = gcall(CALL_TIMEOUT, lambda: G.blocks)
    out["n"] += 1
    if st != "ok":
        viol(OB_SCC, fail_kind(st, blocks), "blocks", blocks, "the SCC partition")
    elif check_blocks(blocks, OB_SCC, "blocks"):
        st, bk = gcall(CALL_TIMEOUT, lambda: dict(G.buckets))
        out["n"] += 1
        exp = {x: k for k, b in enumerate(blocks) for x in b}
        if st != "ok":
            viol(OB_BUCKETS, fail_kind(st, bk), "buckets", bk, exp)
        elif bk != exp:
            viol(OB_BUCKETS, "wrong-index", "buckets", bk, exp)
    # the decomposition itself under other root orders
    if perms == "all":
        plist = list(itertools.permutations(nodes))
    else:
        prng = random.Random(case.get("pseed", 0))
        plist = [tuple(prng.sample(nodes, len(nodes))) for _ in range(perms)]
    for roots in plist:
        st, bl = gcall(CALL_TIMEOUT, lambda: list(G._blocks(list(roots))))
        out["n"] += 1
        if st != "ok":
            viol(OB_TARJAN, fail_kind(st, bl), "_blocks(roots)", (roots, bl), "the SCC partition")
            break
        if not check_blocks(bl, OB_TARJAN, "_blocks(roots)"):
            break

    # ---- closures
    for func in ("closure_scc_based", "closure_reference", "closure"):
        st, C = gcall(CALL_TIMEOUT, lambda: getattr(G, func)())
        out["n"] += 1
        if st != "ok":
            viol(OB_CLOSURE[func], fail_kind(st, C), func, C, "the closure")
            continue
        get = (lambda u, v: C[u, v]) if func == "closure" else (lambda u, v: C.get((u, v), R.zero))
        for u in nodes:
            bad = False
            for v in nodes:
                got = get(u, v)
                if not dom_wfsa.in_sr(got, R):
                    viol(OB_CLOSURE[func], "result-not-in-semiring: " + type(got).__name__, func, (u, v, got), K[u][v])
                    bad = True
                    break
                if not same(sr, val(got), K[u][v]):
                    viol(OB_CLOSURE[func], "wrong-value", func, (u, v, val(got)), K[u][v])
                    bad = True
                    break
            if bad:
                break

    # ---- linear solves: basis vectors, a generic dense and a generic sparse right-hand side
    rhs = [{u: Fraction(1)} for u in nodes]
    rhs.append({u: Fraction(1, 3 + 2 * k) for k, u in enumerate(nodes)})
    rhs.append({u: Fraction(2, 5 + 3 * k) for k, u in enumerate(nodes) if k % 2 == 0})
    for b in rhs:
        bs = {u: sw(b[u]) if u in b else ops.zero for u in nodes}
        for func, ob in (("solve_left", OB_LEFT), ("solve_right", OB_RIGHT)):
            def solve(func=func):
                chart = R.chart()
                for u, w in b.items():
                    chart[u] += conv(w)
                return getattr(G, func)(chart)
            st, sol = gcall(CALL_TIMEOUT, solve)
            out["n"] += 1
            if st != "ok":
                viol(ob, fail_kind(st, sol), func, sol, "the least solution")
                continue
            for u in nodes:
                if func == "solve_left":
                    exp = ops.sum(ops.mul(bs[i], K[i][u]) for i in nodes)
                else:
                    exp = ops.sum(ops.mul(K[u][j], bs[j]) for j in nodes)
                got = sol[u]
                if not dom_wfsa.in_sr(got, R):
                    viol(ob, "result-not-in-semiring: " + type(got).__name__, func, (u, got), exp)
                    break
                if not same(sr, val(got), exp):
                    viol(ob, "wrong-value", func, (dict((k, str(v)) for k, v in b.items()), u, val(got)), exp)
                    break
    if edges:
        out["keys"].append(sig(name, sr, namer))
    if name in ("nested_cycles", "seven") and sr == "Q":
        out["sample"] = dict(desc, blocks=[sorted(map(repr, b)) for b in blocks] if isinstance(blocks, list) else None,
                             closure_row0=[str(K[nodes[0]][v]) for v in nodes])


def check_case(case):
    SR = dom_wfsa.semirings()
    out = dict(n=0, keys=[], violations=[])
    if case["kind"] == "noncomm":
        return check_noncomm(case)
    if case["kind"] == "exh":
        n = case["n"]
        names = list(NAMERS)
        for mask in range(case["lo"], case["hi"]):
            check_graph(out, case, f"all{n}_{mask}", n, dom_wfsa.graph_from_mask(n, mask), case["sr"],
                        names[(mask + case["rot"]) % len(names)], case["perms"], SR)
    else:
        check_graph(out, case, case["name"], case["n"], case["edges"], case["sr"], case["names"], case["perms"], SR)
    return out


def bounded(run):
    tier = run.tier
    n_ok = dom_wfsa.selfcheck()
    run.assume(f"oracle validation: vlib/dom_wfsa.selfcheck passed (Warshall SCC / reachability vs brute-force walks on all {n_ok} digraphs with 3 nodes)")
    cases = make_cases(tier, run.seed)
    srs = SEMIRINGS_QUICK if tier == "quick" else SEMIRINGS_THOROUGH
    run.exhaustive = False      # mixed domain: an exhaustive part (named below) plus seeded samples
    run.extra["exhaustive_part"] = "all digraphs with self loops on <= %d nodes" % (3 if tier == "quick" else 4)
    run.rule(f"EXHAUSTIVE: all digraphs (self loops included) on 0..3 nodes (1+2+16+512) over {srs}"
             + (f" and all 65536 digraphs on 4 nodes over {EXHAUSTIVE_4}" if tier != "quick" else "")
             + f", edge (i,j) weighted 1/(2 p_ij) with distinct primes (generic, all path sums converge), isolated nodes through "
             f"G.N, node names int/str/tuple/reversed-int rotating, scc_decomposition additionally under ALL root orders; "
             f"SAMPLES: corpus (nested cycles, two components, chain with forward edges, diamond with cycles, isolated nodes, no "
             f"edges, no nodes, self loops only, complete graph, a 7-node graph) + seeded random digraphs on 4..7 nodes (3 random "
             f"root orders each); right-hand sides: every basis vector, a generic dense and a generic sparse vector; weights added "
             f"with `G[i,j] += w` (no cancelling update - precondition from the call sites); Q = exact user semiring, comparison "
             f"exact; other semirings tolerance 1e-7; PYTHONHASHSEED in the listed set (root order of `blocks` = set iteration "
             f"order).  Additionally a NON-COMMUTATIVE closed user semiring (finite languages of words of length <= 4 under union and truncated "
             f"concatenation): corpus, all digraphs on <= 2 nodes and seeded samples on 3..4 nodes - both closures and both solvers against "
             f"breadth-first path-word enumeration.  NOT covered: Expectation/Entropy semirings, graphs whose path sums diverge.  non-trivial = graph with at "
             f"least one edge; distinct = (graph, semiring, naming); signature = (function, failure kind, semiring)")
    seeds = (0, 1) if tier == "quick" else (0, 1, 2, 3)
    run.extra["hash_seeds"] = list(seeds)
    engine.run_cases(run, "props.C15", "check_case", cases, hash_seeds=seeds, per_case_timeout=600,
                     split=True)


def run(run, only=None):
    run.assume("closed semiring: star(a) = sum_k a^k exists for every weight that occurs (weights scaled so that it does; "
               "idempotent semirings with weights <= one)",
               "algebra.Q.closure (exact Gauss-Jordan (I-A)^-1) and the Kleene iteration of the idempotent ops are the oracle for "
               "sum_k A^k; b A* and A* b are the least solutions of x = xA + b and x = Ax + b")
    if only != "bounded":
        common.run_proved(run, "C15")
    if only != "proved":
        bounded(run)


def replay(doc):
    return common.generic_replay(doc, check_case)


# ---------------------------------------------------------------- non-commutative closed semiring (added after seeded change C15-2)
LANG_K = 4        # languages of words of length <= LANG_K: union / truncated concatenation / star; closed, idempotent, NOT commutative
OB_NC = "C15/linear.WeightedGraph.closure/non-commutative-semiring"


def _letter(w):
    return "abcdefghijklmnopqrstuvw"[Fraction(w).denominator % 23]


def _lang_mul(a, b):
    return frozenset(x + y for x in a for y in b if len(x) + len(y) <= LANG_K)


def _lang_star(a):
    cur = frozenset([""])
    while True:
        nxt = cur | _lang_mul(cur, a)
        if nxt == cur:
            return cur
        cur = nxt


def lang_semiring():
    """A user semiring as a library user would write it (property quantifier: 'closed semirings')."""
    from genlm.grammar.semiring import Semiring

    class Lang(Semiring):
        def __add__(self, other):
            return Lang(self.score | other.score)

        def __mul__(self, other):
            return Lang(_lang_mul(self.score, other.score))

        def star(self):
            return Lang(_lang_star(self.score))

        def metric(self, other):
            return 0 if self.score == other.score else 1

        def __hash__(self):
            return hash(self.score)

    Lang.zero = Lang(frozenset())
    Lang.one = Lang(frozenset([""]))
    return Lang


def check_noncomm(case):
    """closure_reference / closure_scc_based / solve_left / solve_right over the language semiring against path enumeration:
    K[i,j] = set of label words (length <= LANG_K) of all paths i -> j; x = b A* resp. A* b."""
    from genlm.grammar.linear import WeightedGraph
    out = dict(n=0, keys=[], violations=[])
    n, edges = case["n"], case["edges"]
    nodes = list(range(n))
    lab = {}
    for i, j, w in edges:
        lab.setdefault((i, j), set()).add(_letter(w))
    # spec: words of all paths, by breadth-first extension (independent of any elimination order)
    K = {(i, j): set() for i in nodes for j in nodes}
    frontier = {(i, i, "") for i in nodes}
    for i in nodes:
        K[i, i].add("")
    while frontier:
        nxt = set()
        for (i, j, wd) in frontier:
            for (a, b), letters in lab.items():
                if a == j:
                    for c in letters:
                        if len(wd) < LANG_K and (wd + c) not in K[i, b]:
                            K[i, b].add(wd + c)
                            nxt.add((i, b, wd + c))
        frontier = nxt
    Lang = lang_semiring()
    desc = dict(graph=f"n={n} edges={[(i, j, sorted(l)) for (i, j), l in lab.items()]}", semiring=f"Lang<={LANG_K} (non-commutative)", instance=case["name"])

    def viol(what, func, got, exp):
        out["violations"].append(dict(obligation=OB_NC, what=what, signature=sig(func, dom_wfsa.kind(what), "Lang"),
                                      replay=dict(desc, function=func, observed=repr(got)[:300], expected=repr(exp)[:300], case=common.enc(case))))

    def build():
        G = WeightedGraph(Lang)
        for (i, j), letters in lab.items():
            G[i, j] += Lang(frozenset(letters))
        G.N |= set(nodes)
        return G

    st, G = gcall(CALL_TIMEOUT, build)
    if st != "ok":
        viol(fail_kind(st, G), "construct", G, "a graph")
        return out
    for func in ("closure_reference", "closure_scc_based"):
        st, C = gcall(CALL_TIMEOUT, getattr(G, func))
        out["n"] += 1
        if st != "ok":
            viol(fail_kind(st, C), func, C, "closure")
            continue
        for i in nodes:
            for j in nodes:
                got = C[i, j] if (i, j) in C else Lang.zero
                got = set(got.score) if hasattr(got, "score") else set()
                if got != K[i, j]:
                    viol("wrong-value", func, sorted(got), sorted(K[i, j]))
                    break
            else:
                continue
            break
    # solvers with a generic right-hand side: b[i] = {"z"} at one node
    for src in nodes[:2]:
        b = Lang.chart()
        b[src] = Lang(frozenset(["z"]))
        st, sol = gcall(CALL_TIMEOUT, G.solve_left, b)
        out["n"] += 1
        if st != "ok":
            viol(fail_kind(st, sol), "solve_left", sol, "solution")
        else:
            for j in nodes:
                want = {("z" + wd) for wd in K[src, j] if len(wd) + 1 <= LANG_K}
                got = set(sol[j].score) if j in sol else set()
                if got != want:
                    viol("wrong-value", "solve_left", sorted(got), sorted(want))
                    break
        st, sol = gcall(CALL_TIMEOUT, G.solve_right, b)
        out["n"] += 1
        if st != "ok":
            viol(fail_kind(st, sol), "solve_right", sol, "solution")
        else:
            for i in nodes:
                want = {(wd + "z") for wd in K[i, src] if len(wd) + 1 <= LANG_K}
                got = set(sol[i].score) if i in sol else set()
                if got != want:
                    viol("wrong-value", "solve_right", sorted(got), sorted(want))
                    break
    if lab:
        out["keys"].append(sig("noncomm", case["name"]))
    return out

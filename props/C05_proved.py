"""PROVED-class obligations of C05: frame conditions (`modifies` clauses) of every query and transformation the property
names, proved from the AST of the current source by the ownership checker vlib/pyvc/frames.py (DESIGN 2.4).

One obligation per function:  C05/<module>.<qualname>/modifies
A grammar is (rules, V, S, N, R); no function below may write to any of them on a pre-existing object.
Allowed locations: memo caches (`_trim_cache`, `_chart`, cached_property slots) and, for the internal helpers
`_update` / `PREDICT` / `_helper`, the column / heap / memo table passed in by a caller that created it.
"""
import ast

from vlib.pyvc import source, frames
from vlib.pyvc.frames import Spec

CFG = "genlm/grammar/cfg.py"
CFGLM = "genlm/grammar/cfglm.py"
EAR = "genlm/grammar/parse/earley.py"
EARR = "genlm/grammar/parse/earley_rescaled.py"
CKY = "genlm/grammar/parse/cky.py"

CFG_PURE = ["__call__", "_parse_chart", "language", "rhs", "expected_length", "spawn", "renumber", "rename", "map_values", "treesum",
            "cotrim", "_trim", "derivations", "_derivations_list", "_unary_graph", "_unary_graph_transpose", "unaryremove",
            "has_unary_cycle", "unarycycleremove", "nullaryremove", "null_weight", "_push_null_weights", "separate_start",
            "separate_terminals", "binarize", "_fold", "cnf", "_cnf", "in_cnf", "_find_invalid_cnf_rule", "unfold", "dependency_graph",
            "agenda", "naive_bottom_up", "_bottom_up_step", "prefix_weight", "prefix_grammar", "derivatives", "derivative",
            "_compose_bottom_up_epsilon", "__matmul__", "truncate_length", "materialize", "to_bytes", "__getitem__"]

TABLE = [(CFG, "CFG." + q, Spec()) for q in CFG_PURE] + [
    (CFG, "CFG.trim", Spec(modifies=["self._trim_cache"], note="memo cache only")),
    (CFG, "prefix_transducer", Spec()),
    (CFGLM, "locally_normalize", Spec()),
    (CFGLM, "add_EOS", Spec()),
    (CFGLM, "BoolCFGLM.p_next", Spec(modifies=["callee:chart"], note="parser memo cache only")),
    (CFGLM, "BoolCFGLM.clear_cache", Spec(modifies=["callee:clear_cache"])),
    (CFGLM, "_CKYModel.chart", Spec(modifies=["callee:chart"])),
    (CFGLM, "_CKYModel.next_token_weights", Spec()),
]
for rel, mod in ((EAR, "earley"), (EARR, "earley_rescaled")):
    TABLE += [
        (rel, "Earley.chart", Spec(modifies=["self._chart", "callee:_compute_chart"])),
        (rel, "Earley._compute_chart", Spec(modifies=["callee:chart"], note="only through chart()'s memo")),
        (rel, "Earley.next_column", Spec(note="writes only the new Column, its fresh heap, and default-insertions (view-preserving)")),
        (rel, "Earley.PREDICT", Spec(modifies=["param:col"])),
        (rel, "Earley._update", Spec(modifies=["param:col", "param:Q"])),
        (rel, "Earley.next_token_weights", Spec()),
        (rel, "Earley._helper", Spec(modifies=["param:q"])),
        (rel, "Earley.__call__", Spec(modifies=["self._chart", "callee:chart"])),
        (rel, "Earley.clear_cache", Spec(modifies=["self._chart"])),
        (rel, "EarleyLM.p_next", Spec(modifies=["callee:chart"])),
    ]
TABLE += [
    (EARR, "Earley.rescale", Spec()),
    (EARR, "Earley.logp", Spec(modifies=["callee:chart"])),
    (CKY, "IncrementalCKY.chart", Spec(modifies=["self._chart", "callee:_compute_chart"])),
    (CKY, "IncrementalCKY._compute_chart", Spec(modifies=["callee:chart"])),
    (CKY, "IncrementalCKY.extend_chart", Spec()),
    (CKY, "IncrementalCKY.next_token_weights", Spec()),
    (CKY, "IncrementalCKY.p_next", Spec(modifies=["callee:chart"])),
    (CKY, "IncrementalCKY.__call__", Spec(modifies=["callee:chart"])),
    (CKY, "IncrementalCKY.clear_cache", Spec(modifies=["self._chart"])),
    (CKY, "CKYLM.p_next", Spec(modifies=["callee:p_next"])),
]

# callee contracts: which of their arguments / receiver they write through (each is itself checked above)
CALLEES = {
    "add": Spec(writes_args={"self": True}),                       # CFG.add appends to the receiver's rules / N
    "trim": Spec(writes_args={"self": True}, note="memo cache"),     # allowed on external receivers only via 'callee:trim'
    "chart": Spec(writes_args={"self": True}, note="memo cache"),
    "_compute_chart": Spec(writes_args={"self": True}, note="memo cache via chart()"),
    "clear_cache": Spec(writes_args={"self": True}, note="memo cache"),
    "_update": Spec(writes_args={"args": (0, 1)}),
    "PREDICT": Spec(writes_args={"args": (0,)}),
    "_helper": Spec(writes_args={"args": (2,)}),
    "p_next": Spec(writes_args={"self": True}, note="memo cache"),
    "logp": Spec(writes_args={"self": True}, note="memo cache"),
}
# calls whose receiver may be external although the callee writes its *cache*: allowed everywhere (caches are not grammar state)
CACHE_ONLY = {"trim", "chart", "_compute_chart", "clear_cache", "p_next", "logp"}


def check_one(run, rel, qual, spec):
    name = f"C05/{rel.split('/')[-1][:-3]}.{qual}/modifies"
    try:
        fn = source.find(rel, qual)
    except KeyError:
        run.obligation(name, "out-of-subset", detail="function not found in the current source")
        return
    run.function_under_contract(f"genlm.grammar.{rel.split('/')[-1][:-3]}.{qual}", source.sha(fn))
    callees = dict(CALLEES)
    if "_update" in qual and "earley_rescaled" in rel:
        pass
    if rel == EARR:
        callees["_update"] = Spec(writes_args={"args": (0,)})     # rescaled variant: heap lives in the column
    sp = Spec(modifies=list(spec.modifies) + ["callee:" + c for c in CACHE_ONLY], writes_args=spec.writes_args)

    def resolver(mname, cls=qual.split(".")[0] if "." in qual else None):
        if cls is None:
            return None
        try:
            return source.find(rel, f"{cls}.{mname}")
        except KeyError:
            return None
    chk = frames.FrameChecker(fn, sp, callees, resolver=resolver)
    findings, unclassified = chk.check()
    if findings:
        # The property's second sentence IS a frame condition on the grammar (rules, V, S, N, R): a store that can reach them is a
        # violation of the property.  A store into a *new field of the parser / model object itself* is new cached state: allowed by
        # the property as long as answers stay history-independent, which is what the bounded histories decide - auxiliary role.
        is_parser = "." in qual and qual.split(".")[0] != "CFG" and rel != CFG
        cache_only = is_parser and all((f.loc or "").startswith("self.") and not (f.loc or "").startswith("self.cfg") for f in findings)
        run.obligation(name, "refuted", backend="ownership", role="auxiliary" if cache_only else "property",
                       detail=("new cached state on the parser object (history-independence is decided by the bounded histories): " if cache_only else "") + str(findings[0]),
                       model={"findings": [repr(f) for f in findings]},
                       replay=dict(replayed=False, findings=[repr(f) for f in findings], function=qual, file=rel),
                       signature=f"{qual}:modifies")
    elif unclassified:
        run.obligation(name, "unknown", backend="ownership", detail="unclassified: " + "; ".join(repr(u) for u in unclassified[:3]))
    else:
        stores = sum(1 for n in ast.walk(fn) if isinstance(n, (ast.Assign, ast.AugAssign, ast.Call)))
        run.obligation(name, "proved", backend="ownership", detail=f"{stores} statements/calls inspected; every store targets an object created in the call or {list(spec.modifies) or 'nothing'}")


def spawn_copies_V(run):
    name = "C05/cfg.CFG.spawn/copies-V"
    fn = source.find(CFG, "CFG.spawn")
    chk = frames.FrameChecker(fn, Spec(), CALLEES)
    ok = False
    for n in ast.walk(fn):
        if isinstance(n, ast.Call):
            for kw in n.keywords:
                if kw.arg == "V":
                    v = kw.value
                    # V = <fresh copy> if V is None else V
                    if isinstance(v, ast.IfExp) and ast.unparse(v.test) == "V is None" and chk.is_owned_expr(v.body) and ast.unparse(v.orelse) == "V":
                        ok = True
    if ok:
        run.obligation(name, "proved", backend="ownership", detail="the vocabulary handed to the constructor is a fresh copy unless the caller passes V")
    else:
        run.obligation(name, "refuted", backend="ownership", detail="spawn() may alias the vocabulary set of the grammar it is called on",
                       replay=dict(replayed=False, hint="g2 = add_EOS(g); EOS in g.V"), signature="spawn:V-alias")


def proved(run):
    run.trust("ownership checker vlib/pyvc/frames.py over the real AST (conservative: unclassified stores are undischarged)")
    run.assume("constructor contracts: CFG(R,S,V) aliases V and creates fresh rules/N; spawn() copies V unless V is passed; "
               "Column/Node/defaultdict/Chart constructors create fresh objects",
               "cached_property stores into the instance dict only (memoisation of a pure function of fields never written after construction)",
               "a function whose reads are confined to its arguments and never-written fields denotes a function of them (meta-argument for NextCol)",
               "default insertion on read (defaultdict, waiting_for) is view-preserving")
    spawn_copies_V(run)
    for rel, qual, spec in TABLE:
        check_one(run, rel, qual, spec)

"""C02 - every parser returns the derivation-sum weight of a string.

PROVED layer  : props/C02_proved.py (key-order lemma, result-in-semiring, materialize depth) - see run().
BOUNDED layer : the contract  P(x) == [[G]](x)  (value in the semiring, equal to the independent
                derivation-sum spec) evaluated on the real parsers over the domains of DESIGN 2.5.
"""
import random

from props import common
from props.common import call, num_close, sig
from vlib import bridge, domains, engine, advheap
from vlib.spec import cfgspec

ID = "C02"
LEVEL = "other"

SEMIRINGS_QUICK = ["FloatFrac", "Real", "Boolean", "MaxTimes"]
SEMIRINGS_THOROUGH = ["FloatFrac", "Float", "Real", "Q", "Boolean", "MaxTimes", "MaxPlus"]
FLOATLIKE = {"FloatFrac", "Float"}

OB_DIRECT = "C02/cfg.CFG.__call__/equals-derivation-sum"
OB_EARLEY = "C02/earley.Earley.__call__/equals-derivation-sum"
OB_EARLEY_T = "C02/earley.Earley.__call__/result-in-semiring"
OB_RESC = "C02/earley_rescaled.Earley.__call__/equals-derivation-sum"
OB_CKY = "C02/cky.IncrementalCKY.__call__/equals-derivation-sum"
OB_MAT = "C02/cfg.CFG.materialize/lists-exactly-nonzero-strings"


NEGLIGIBLE = 1e-10
# The library sums infinitely many derivations (nullary / unary cycles) by a fixed-point iteration that stops at an ABSOLUTE tolerance
# of 1e-12 per item (CFG.agenda(tol=1e-12)); a value of 1e-6 may therefore carry an absolute error of ~1e-12 (relative 1e-6).
# Numbers are compared at relative 1e-7 plus this absolute slack (a thorough-tier false alarm of the earlier 1e-14: DESIGN 5).
ABS_SLACK = 2e-11


def _negligible(w):
    if isinstance(w, bool):
        return False
    try:
        return abs(float(w)) <= NEGLIGIBLE
    except (TypeError, ValueError, OverflowError):
        return False


def make_cases(tier, seed):
    rng = random.Random(seed)
    maxlen = 4 if tier == "quick" else 5
    doms = domains.grammar_domain(tier, seed, n_random=250 if tier == "quick" else 3000)
    srs = SEMIRINGS_QUICK if tier == "quick" else SEMIRINGS_THOROUGH
    cases = []
    for i, (name, g) in enumerate(doms):
        for sr in srs:
            # identity variant always; one permuted+renamed variant with an adversarial heap policy
            cases.append(dict(name=name, g=g, sr=sr, rename="id", order=None, heap="real", maxlen=maxlen))
            if sr in ("FloatFrac", "Real", "Boolean") or tier != "quick":
                pol = ["fifo", "lifo", "random"][(i + len(sr)) % 3]
                cases.append(dict(name=name, g=g, sr=sr, rename=["tuple", "rev"][i % 2],
                                  order=common.perm(len(g.rules), rng), heap=pol, maxlen=maxlen))
        if g.V and (i < 40 or (tier != "quick" and i % 8 == 0)):
            # token-id vocabularies with gaps (0, 5, 9, ...): the parsers renumber nonterminals with integers of their own, which must
            # stay clear of EVERY integer terminal, not only of 0..|V|-1 (strengthened after seeded change C02-9)
            from vlib import dom_cfg
            cases.append(dict(name=name + "#ids", g=dom_cfg.int_terminals(g), sr=srs[i % len(srs)], rename="id", order=None, heap="real", maxlen=maxlen))
    return cases


def check_case(case):
    from genlm.grammar.parse import earley, earley_rescaled, cky
    g, sr = case["g"], case["sr"]
    R, ops, conv, val = bridge.SEMIRINGS[sr]
    gs = bridge.spec_grammar(g, sr)
    xs = cfgspec.strings_upto(g.V, case["maxlen"])
    try:
        res = {x: cfgspec.cfg_weight(ops, gs, x) for x in xs}
    except ArithmeticError:
        return dict(n=0, keys=[], violations=[])
    want = {x: v for x, (v, _) in res.items()}
    if sr in ("FloatFrac", "Q") and not all(ex for _, ex in res.values()):
        # nonlinear nullable/unary block: the library's own fixed-point iteration would square Fraction
        # denominators every round (the exact user semiring Q ran for > 40 CPU-seconds per case in the thorough tier);
        # use machine floats for this instance (same contract, tolerance compare)
        sr = "Float" if sr == "FloatFrac" else "Real"
        R, ops, conv, val = bridge.SEMIRINGS[sr]
    out = dict(n=0, keys=[], violations=[])
    desc = dict(grammar=bridge.fmt_grammar(g), semiring=sr, rename=case["rename"], order=case["order"], heap=case["heap"])

    def viol(ob, what, x, got, exp, parser):
        out["violations"].append(dict(
            obligation=ob, what=what,
            signature=sig(parser, what.split(":")[0], case["name"], sr),
            replay=dict(desc, string=list(x) if x is not None else None, observed=repr(got), expected=repr(exp), parser=parser,
                        case=common.enc(case))))

    real_heap = earley.LocatorMaxHeap, earley_rescaled.LocatorMaxHeap
    if case["heap"] != "real":
        H = advheap.make(case["heap"], seed=len(g.rules))
        earley.LocatorMaxHeap = H
        earley_rescaled.LocatorMaxHeap = H
    try:
        cfg = bridge.to_cfg(g, sr, rename=common.renamer(case["rename"]), order=case["order"])
        parsers = []
        parsers.append(("direct", OB_DIRECT, lambda x: cfg(x)))
        st, e = call(earley.Earley, cfg)
        if st == "ok":
            parsers.append(("earley", OB_EARLEY, lambda x, e=e: e(x)))
        else:
            viol(OB_EARLEY, "raised: " + e, None, e, "a parser", "earley")
        if sr in FLOATLIKE:
            st, er = call(earley_rescaled.Earley, cfg)
            if st == "ok":
                parsers.append(("earley_rescaled", OB_RESC, lambda x, er=er: er(x)))
            else:
                viol(OB_RESC, "raised: " + er, None, er, "a parser", "earley_rescaled")
        st, cnf = call(lambda: cfg.cnf)
        if st == "ok":
            st, ck = call(cky.IncrementalCKY, cnf)
            if st == "ok":
                parsers.append(("cky", OB_CKY, lambda x, ck=ck: ck(tuple(x))))
            else:
                viol(OB_CKY, "raised: " + ck, None, ck, "a parser", "cky")
        else:
            viol(OB_DIRECT, "cnf raised: " + cnf, None, cnf, "a grammar", "direct")
        nontrivial = any(not ops.is_zero(w) for w in want.values())
        for x in xs:
            for pname, ob, f in parsers:
                st, v = call(f, x)
                out["n"] += 1
                if st != "ok":
                    viol(ob, "raised: " + v.split(":")[0], x, v, want[x], pname)
                    continue
                if not common.in_semiring(v, sr):
                    viol(OB_EARLEY_T if pname == "earley" else ob, "result-not-in-semiring: " + type(v).__name__, x, v, want[x], pname)
                    continue
                if not num_close(val(v), want[x], abs_=ABS_SLACK):
                    viol(ob, "wrong-value", x, val(v), want[x], pname)
        # materialize
        # bound 4 on small grammars: the first bound at which an unbalanced derivation is higher than a balanced one
        # (strengthened after seeded change C02-10); enumeration is exponential in the bound, hence 3 elsewhere
        n = min(case["maxlen"], 4) if (len(g.rules) <= 5 and len(g.V) <= 2 and case["rename"] == "id") else min(case["maxlen"], 3)
        for m in range(0, n + 1):
            st, lang = call(cfg.materialize, m)
            out["n"] += 1
            exp = {x: w for x, w in want.items() if len(x) <= m and not ops.is_zero(w)}
            if st != "ok":
                viol(OB_MAT, "raised: " + lang.split(":")[0], None, lang, "max_length=%d" % m, "materialize")
                continue
            got = {tuple(k): val(v) for k, v in lang.items() if not ops.is_zero(val(v))}
            # the library's fixed points (null weights, closures) stop at an absolute tolerance of 1e-12: a weight below
            # NEGLIGIBLE may legitimately be reported as zero (and vice versa); everything else must match exactly in support
            missing = [k for k in exp if k not in got and not _negligible(exp[k])]
            extra = [k for k in got if k not in exp and not _negligible(got[k])]
            if missing or extra:
                viol(OB_MAT, "wrong-support", None, sorted(got), sorted(exp), f"materialize({m})")
            elif any(not num_close(got[k], exp[k], abs_=ABS_SLACK) for k in exp if k in got):
                viol(OB_MAT, "wrong-value", None, got, exp, f"materialize({m})")
        if nontrivial:
            out["keys"].append(sig(case["name"], sr, case["rename"], case["heap"]))
        if case["name"] in ("palindrome", "order_tie") and sr == "FloatFrac" and case["rename"] == "id":
            out["sample"] = dict(grammar=bridge.fmt_grammar(g), semiring=sr, strings=len(xs),
                                 parsers=[p[0] for p in parsers], example={"".join(x): str(w) for x, w in list(want.items())[:6]})
    finally:
        earley.LocatorMaxHeap, earley_rescaled.LocatorMaxHeap = real_heap
    return out


def bounded(run):
    tier = run.tier
    cases = make_cases(tier, run.seed)
    run.rule(f"grammars: corpus of adversarial shapes + seeded random G(3,2,5,3) [thorough: G(4,3,7,3)], generic rational "
             f"weights scaled for convergence; semirings {SEMIRINGS_QUICK if tier == 'quick' else SEMIRINGS_THOROUGH}; "
             f"all strings up to length {4 if tier == 'quick' else 5}; variants: rule permutation, nonterminal renaming, "
             f"agenda tie-break policies fifo/lifo/random (contract-equivalent heap), PYTHONHASHSEED in the listed set; "
             f"non-trivial = some string has non-zero weight; distinct = (grammar, semiring, variant)")
    seeds = (0, 1) if tier == "quick" else (0, 1, 2, 3)
    run.extra["hash_seeds"] = list(seeds)
    engine.run_cases(run, "props.C02", "check_case", cases, hash_seeds=seeds, per_case_timeout=40 if tier == "quick" else 150,
                     split=(tier == "quick"))


def run(run, only=None):
    run.assume("T-DERIV: [[G]](x) is well defined (weights scaled so every infinite sum converges)",
               "A7: arsenal LocatorMaxHeap pops a maximal-priority entry, ties arbitrary",
               "spec function cfg_weight (generalised inside algorithm on the original rules, exact closure) is the oracle; "
               "validated against derivation enumeration by vlib/spec self-check")
    if only != "bounded":
        common.run_proved(run, "C02")
    if only != "proved":
        bounded(run)


def replay(doc):
    return common.generic_replay(doc, check_case)

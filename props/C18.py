"""C18 - regex automata accept exactly the regex language (relative to the character set) and are locally normalised.

PROVED layer  : props/C18_proved.py (count/add loop alignment of interegular_to_wfsa) - see run().
BOUNDED layer : for a generated family of patterns over the supported operators and a family of character sets, on the REAL
                interegular_to_wfsa(pattern, charset):
    language      weight(x) > 0  <=>  re.fullmatch(pattern, x)      for ALL strings x over the character set up to a bound
    local norm.   at every state (from which a final state can be reached) arc weights + final weight = 1
    sub-prob.     the weights of all strings up to the bound sum to at most 1
The weight of x is computed by the independent spec (convspec.wfsa_language on the neutral snapshot of the automaton); the
oracle is Python's `re`, with the dialect aligned as DESIGN 4-C18 describes (see bounded()).
"""
import random
import re
import string
import warnings

from props import common
from props.common import call, sig
from vlib import bridge, engine, dom_conv
from vlib.spec import convspec, algebra, fsaspec

ID = "C18"
LEVEL = "other"

OB_LANG = "C18/lark_interface.interegular_to_wfsa/accepts-exactly-fullmatch"
OB_NORM = "C18/lark_interface.interegular_to_wfsa/locally-normalised"
OB_SUB = "C18/lark_interface.interegular_to_wfsa/sub-probability"
OB_RAISE = "C18/lark_interface.interegular_to_wfsa/resolves"

TOL = 1e-9
CORE_SUBSET = "aB1 \n_.-"          # characters of string.printable used for the length-4 strings of the 'core' cases


def make_cases(tier, seed, n_random=None):
    rng = random.Random(seed)
    quick = tier == "quick"
    lens = dom_conv.QUICK_LEN if quick else dom_conv.THOROUGH_LEN
    n_random = (150 if quick else 1500) if n_random is None else n_random
    cases = []
    sets = dict(dom_conv.CHARSETS)
    sets["core"] = "core"
    corpus = dom_conv.pattern_corpus()
    for cname, chars in sets.items():
        pool = CORE_SUBSET if chars == "core" else chars
        pats = list(corpus.items())
        for i in range(n_random if chars != "core" else n_random // 3):
            pats.append((f"rand{seed}_{i}", dom_conv.random_pattern(rng, pool, 3)))
        for pname, ast in pats:
            lits = dom_conv.literals(ast)
            cases.append(dict(name=f"{pname}@{cname}", pattern=dom_conv.render(ast), re_pattern=dom_conv.render(ast, True),
                              charset=chars, maxlen=lens[cname], ci_literals="".join(sorted({c for c, ci in lits if ci})),
                              multichar_ci=any(ci and dom_conv.multichar_case(c) for c, ci in lits)))
    return cases


def _aligned(case, chars):
    """Dialect guard: for every literal p inside (?i:..) and every c of the character set, Python's case-insensitive match of
    c against p must coincide with interegular's definition {p.lower(), p.upper()} (single characters only)."""
    for p in case["ci_literals"]:
        if p not in (p.lower(), p.upper()):
            return False
        for c in chars:
            if bool(re.fullmatch("(?i:" + re.escape(p) + ")", c)) != (c in (p.lower(), p.upper())):
                return False
    return True


def check_case(case):
    import interegular
    from genlm.grammar.lark_interface import interegular_to_wfsa
    out = dict(n=0, keys=[], violations=[])
    pattern = case["pattern"]
    core = case["charset"] == "core"
    chars = sorted(set(string.printable)) if core else sorted(set(case["charset"]))
    desc = dict(pattern=pattern, re_pattern=case["re_pattern"], charset="core (string.printable)" if core else "".join(chars),
                instance=case["name"])
    icls = "case-insensitive-literal-with-multichar-mapping" if case["multichar_ci"] else case["name"]

    def viol(ob, what, x, got, exp, extra=None):
        rp = dict(desc, string=x, observed=repr(got), expected=repr(exp))
        if extra:
            rp.update(extra)
        rp["case"] = common.enc(case)
        out["violations"].append(dict(obligation=ob, what=what, signature=sig("interegular_to_wfsa", what.split(":")[0], icls), replay=rp))

    # supported syntax = what the external library parses and compiles (its own failures are not this repository's code)
    with warnings.catch_warnings():
        warnings.simplefilter("ignore")
        try:
            fsm = interegular.parse_pattern(pattern).to_fsm()
            rx = re.compile(case["re_pattern"])
        except Exception as e:  # noqa: BLE001
            out["sample"] = None
            out["skipped"] = f"{type(e).__name__}"
            return out
        if not _aligned(case, chars):
            return out                                           # dialect difference of `re` vs interegular: outside the aligned oracle
        cs_arg = "core" if core else set(chars)
        st, m = call(interegular_to_wfsa, pattern, charset=cs_arg)
        if st == "ok" and not core:
            # "for any regular expression and any character set": the caller's set is an input, not scratch space - a second
            # automaton built with the same set object must see the same character set (strengthened after seeded change C18-1)
            out["n"] += 1
            if cs_arg != set(chars):
                viol(OB_LANG, "charset-argument-modified", None, sorted(cs_arg), sorted(chars),
                     dict(note="interegular_to_wfsa changed the character set passed by the caller; later automata built with it read "
                               "negated classes and '.' relative to the shrunken set"))
    if st != "ok":
        out["n"] += 1
        viol(OB_RAISE, "raised: " + m.split(":")[0], None, m, "an automaton")
        return out
    a = bridge.from_wfsa(m)
    L = case["maxlen"]
    Q = algebra.Q

    # ---- language: all strings over the character set up to the bound
    domains = [(chars, L)]
    if core:
        domains.append((sorted(set(CORE_SUBSET) | {c for c in pattern if c in string.printable and c.isalnum()}), 4))
    seen = set()
    dialect = []
    bad = 0
    accepted = 0
    total = 0.0
    example = []
    for sigma, bound in domains:
        # arcs on characters outside the domain (explicit characters of the pattern, multi-character labels) cannot be taken
        sub = fsaspec.A(a.states, a.start, a.stop, [arc for arc in a.arcs if arc[1] in set(sigma)])
        lang, _ = convspec.wfsa_language(Q, sub, bound)
        total = max(total, sum(lang.values()))
        example = example or sorted("".join(x) for x in lang)[:6]
        for x in convspec.strings_over(sigma, bound):
            if x in seen:
                continue
            seen.add(x)
            out["n"] += 1
            s = "".join(x)
            want = rx.fullmatch(s) is not None
            got = x in lang
            accepted += want
            if got != want:
                if bool(fsm.accepts(s)) != want:
                    dialect.append(s)                            # assumption A7 fails on this string: interegular's own FSM
                    continue                                     # disagrees with `re` - not this repository's code
                bad += 1
                if bad <= 1:
                    viol(OB_LANG, "accepts-nonmatching" if got else "rejects-matching", s, lang.get(x, 0.0), want,
                         dict(native_call=repr(call(m, s)[1])))

    # ---- local normalisation
    coacc = set(q for q, w in a.stop.items() if w != 0)
    changed = True
    while changed:
        changed = False
        for i, _, j, w in a.arcs:
            if w != 0 and j in coacc and i not in coacc:
                coacc.add(i)
                changed = True
    mass = {q: a.stop.get(q, 0.0) for q in a.states}
    multi = []
    for i, lab, j, w in a.arcs:
        mass[i] += w
        if not (isinstance(lab, str) and len(lab) == 1):
            multi.append(lab)
    dead = [q for q in a.states if q not in coacc]
    # states reachable from an initial state: when the language is non-empty every one of them must be normalised - a reachable
    # state that cannot reach a final state (made dead by the character set) would have mass 0 while an arc leads into it
    reach = set(q for q, w in a.start.items() if w != 0)
    changed = True
    while changed:
        changed = False
        for i, _, j, w in a.arcs:
            if w != 0 and i in reach and j not in reach:
                reach.add(j)
                changed = True
    nonempty = any(q in coacc for q, w in a.start.items() if w != 0)
    for q in sorted(a.states, key=repr):
        if q not in coacc and not (nonempty and q in reach):
            continue
        out["n"] += 1
        if abs(mass[q] - 1.0) > TOL:
            viol(OB_NORM, "mass-not-one", None, mass[q], 1.0,
                 dict(state=repr(q), multi_character_arcs=sorted(set(map(repr, multi))),
                      arcs_of_state=[(repr(l), repr(j), w) for i, l, j, w in a.arcs if i == q][:12], final_weight=a.stop.get(q, 0.0)))
            break
    # ---- sub-probability
    out["n"] += 1
    if total > 1.0 + TOL:
        viol(OB_SUB, "total-above-one", None, total, "<= 1")
    if accepted:
        out["keys"].append(sig(case["name"]))
    if dialect:
        out["dialect"] = (case["name"], pattern, dialect[:3], len(dialect))
    if case["name"] in ("neg_cls_then_lit@abc1", "ci_ascii@mixed_case", "dot_or_nl@ws"):
        out["sample"] = dict(pattern=pattern, charset="".join(chars), strings=len(seen), accepted=accepted, states=len(a.states),
                             dead_states=len(dead), example=example)
    return out


def bounded(run):
    tier = run.tier
    dom_conv.selfcheck()
    convspec.selfcheck(fast=True)
    cases = make_cases(tier, run.seed)
    quick = tier == "quick"
    lens = dom_conv.QUICK_LEN if quick else dom_conv.THOROUGH_LEN
    run.rule(f"{len(cases)} (pattern, character set) pairs: {len(dom_conv.pattern_corpus())} hand-written patterns + seeded random patterns from an "
             f"AST over literals, classes (ranges, escapes inside), negated classes, dot, alternation (incl. empty alternatives), * + ? {{m}} "
             f"{{m,}} {{m,n}}, escapes (\\d \\w \\s \\D \\W \\S, \\n \\t, escaped punctuation), (?i:...) groups (ASCII, Latin-1 and characters "
             f"with multi-character case mappings: ß ŉ ǰ ﬁ), capturing and non-capturing groups; character sets {dict(dom_conv.CHARSETS)} and "
             f"'core' (string.printable); ALL strings over the set up to length {lens} ('core': all strings of length <= 2 over the 100 characters "
             f"and all strings of length <= 4 over {CORE_SUBSET!r} plus the pattern's alphanumerics); oracle: re.fullmatch on the same pattern "
             f"text, except that the class escapes \\w \\d \\s \\W \\D \\S are written out as the explicit ASCII classes interegular defines "
             f"them to be (Python's are Unicode-aware; re.ASCII is not used because it would also make (?i:) ASCII-only); '.' excludes newline in "
             f"both; case-insensitive groups: a pair is checked only if for every literal p in the group and every c of the set `re` and "
             f"interegular's definition {{p.lower(), p.upper()}} agree (validated for all sets by dom_conv.selfcheck; multi-character mappings such "
             f"as ß->SS contribute no string); patterns the external library rejects (Unsupported / InvalidSyntax / any exception inside "
             f"interegular.parse_pattern().to_fsm()) are outside the supported syntax and skipped - a disagreement that is interegular's dialect "
             f"rather than this repository's code is a limit of assumption A7, not a violation: a string on which interegular's own FSM "
             f"(fsm.accepts) disagrees with `re` is not evaluated (seen only for bracket classes mixing several negated escapes, which "
             f"interegular combines wrongly); local normalisation is required at every state "
             f"from which a final state is reachable (when the language is non-empty, also every state reachable from the start state: no mass may flow into a "
             f"state made dead by the character set; only the states of an automaton with empty language are exempt); weights are read from a neutral snapshot by the independent spec; "
             f"non-trivial = the pattern matches some string of the domain; distinct = (pattern, character set); PYTHONHASHSEED in the listed "
             f"set (interegular numbers its states by set iteration); not covered: lookaheads, anchors, global flags, back references "
             f"(unsupported by interegular or outside the listed operators; seven lookahead / empty-class patterns are included only because "
             f"they are what makes interegular produce dead states, i.e. what exercises the rejection-state skip)")
    seeds = (0, 1) if quick else (0, 1, 2, 3)
    run.extra["hash_seeds"] = list(seeds)
    engine.run_cases(run, "props.C18", "check_case", cases, hash_seeds=seeds, per_case_timeout=120, split=quick)


def run(run, only=None):
    run.assume("A7: interegular.parse_pattern(p).to_fsm() is a complete DFA for the language of p over its symbolic alphabet "
               "(anything_else stands for every character not mentioned); fsm.islive is exact",
               "Python's re.fullmatch is the reference semantics of the supported regex syntax (dialect aligned as stated in the rule)",
               "spec function convspec.wfsa_language (forward enumeration, validated against fsaspec.wfsa_weight) reads the weights")
    if only != "bounded":
        common.run_proved(run, "C18")
    if only != "proved":
        bounded(run)


def replay(doc):
    return common.generic_replay(doc, check_case)

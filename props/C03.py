"""C03 - prefix weight = total weight of all strings with that prefix (each once); derivative route agrees.

PROVED layer  : props/C03_proved.py (prefix_transducer construction, FST.wf) - see run().
BOUNDED layer : the contracts
                  cfg.prefix_weight(p) == cfg.prefix_grammar(p) == PW(p) = sum_{s starts with p} [[G]](s)
                  [[cfg.prefix_grammar]](p) == PW(p)      (the prefix grammar *as a grammar*, evaluated by the spec)
                  cfg.derivatives(p)[-1].treesum() == PW(p)
                  cfg.derivative(a)(y) == [[G]](a.y)      (also: the derivative grammar evaluated by the spec)
                evaluated on the real functions against the independent oracles cfgspec.prefix_weight / cfg_weight.
"""
import random
from fractions import Fraction

from props import common
from props.common import call, num_close, sig
from vlib import bridge, domains, engine
from vlib.spec import cfgspec, lmspec

ID = "C03"
LEVEL = "other"

SEMIRINGS_QUICK = ["FloatFrac", "Real", "Boolean", "MaxTimes"]
SEMIRINGS_THOROUGH = ["FloatFrac", "Float", "Real", "Q", "Boolean", "MaxTimes"]
EXACT_ONLY = {"FloatFrac", "Q"}          # Fractions inside the library's fixed-point iteration: linear systems only
NUMERIC = {"FloatFrac", "Float", "Real", "Q"}
# MaxPlus is run on a reduced domain: CFG.agenda needs up to 100 000 rounds per block there (see report / run.rule)
MAXPLUS_CORPUS = ["abc", "left_rec", "mutual", "unary_cycle", "unary_cycle3", "null_cycle", "nullable_prefix", "two_scc"]

OB_PW = "C03/cfg.CFG.prefix_weight/equals-sum-over-extensions"
OB_PG = "C03/cfg.CFG.prefix_grammar/assigns-prefix-weight"
OB_PGS = "C03/cfg.CFG.prefix_grammar/language-is-prefix-weights"
OB_DS = "C03/cfg.CFG.derivatives/treesum-equals-prefix-weight"
OB_D1 = "C03/cfg.CFG.derivative/assigns-weight-of-a.y"
OB_D1S = "C03/cfg.CFG.derivative/language-is-left-quotient"

# the library's fixed points stop at an absolute change of 1e-12 per update (CFG.agenda); the mass it leaves out is that
# times (#items / (1 - convergence ratio)): measured <= 3e-10 on the quick domain.  DESIGN 4-C03: tolerance 1e-8.
ABS_TOL = 1e-8
MIN_NONTRIVIAL = 1e-5


def bound(tier, g, maxlen=None):
    """String/context length bound: 4 (quick) / 5 (thorough) for |V| <= 2, one less for larger vocabularies."""
    return maxlen or ((4 if tier == "quick" else 5) - (0 if len(g.V) <= 2 else 1))


def make_cases(tier, seed, n_random=None, maxlen=None):
    rng = random.Random(seed)
    n_random = n_random if n_random is not None else (250 if tier == "quick" else 1000)
    doms = domains.grammar_domain(tier, seed, n_random=n_random)
    srs = SEMIRINGS_QUICK if tier == "quick" else SEMIRINGS_THOROUGH
    cases = []
    n_mp = 0
    for i, (name, g) in enumerate(doms):
        for k, sr in enumerate(srs):
            variant = (i + k) % 2 == 1 or tier != "quick"
            cases.append(dict(name=name, g=g, sr=sr, rename="id", order=None, maxlen=bound(tier, g, maxlen), part="all"))
            if variant:
                cases.append(dict(name=name, g=g, sr=sr, rename=["tuple", "rev"][i % 2],
                                  order=common.perm(len(g.rules), rng), maxlen=bound(tier, g, maxlen), part="all"))
        if i < 45 or (tier != "quick" and i % 6 == 0):
            # token-id vocabulary: terminals are the integers 0, 1, 2 (0 is falsy but is NOT epsilon) - strengthened after the
            # independently seeded change C03-2
            cases.append(dict(name=name + "#ids", g=_int_terminals(g), sr=srs[i % len(srs)], rename="id", order=None,
                              maxlen=bound(tier, g, maxlen), part="all"))
        if i < 30 or (tier != "quick" and i % 8 == 0):
            # vocabularies whose token boundaries cannot be recovered from the concatenation: ('a','a') vs ('aa',), (1, 1) vs (11,)
            # - a weight must be a function of the token SEQUENCE (strengthened after seeded change C03-6)
            cases.append(dict(name=name + "#cat", g=_cat_terminals(g, ints=bool(i % 2)), sr=srs[i % len(srs)], rename="id", order=None,
                              maxlen=bound(tier, g, maxlen), part="all"))
        if i < 20 or (tier != "quick" and i % 10 == 0):
            # structured tokens: (word, tag) pairs are terminals like any other - a tuple argument is ONE token, not a sequence
            # (strengthened after seeded change C03-7)
            tup = {a: ("w", k) for k, a in enumerate(sorted(g.V))}
            gt = type(g)(g.S, frozenset(tup.values()), [(w, h, tuple(tup.get(y, y) for y in b)) for w, h, b in g.rules])
            cases.append(dict(name=name + "#tup", g=gt, sr=srs[i % len(srs)], rename="id", order=None, maxlen=bound(tier, g, maxlen), part="all"))
        if name in MAXPLUS_CORPUS or (tier != "quick" and name.startswith("rand") and n_mp < 40):
            n_mp += name.startswith("rand")
            # small units of work: a case that runs into the per-case timeout is reported undecided
            for part in ("prefix", "derivs"):
                cases.append(dict(name=name, g=g, sr="MaxPlus", rename="id", order=None, maxlen=2, part=part))
    # a centre-embedding block with four branches: its nullable weights need tens of thousands of agenda pops - inside the default
    # budget; the fixed point must be reached, not abandoned (seeded changes C20-6 / C03-9)
    from fractions import Fraction as F_
    pal4 = type(doms[0][1])("N0", frozenset("abcd"), [(F_(22, 100), "N0", (t, "N0", t)) for t in "abcd"] + [(F_(12, 100), "N0", ())])
    cases.append(dict(name="palindrome4", g=pal4, sr="Float", rename="id", order=None, maxlen=1, part="all"))
    # a block below the start symbol that uses up the whole default budget (geometric ratio 0.99982): it is abandoned a hair short of
    # its fixed point and the blocks above it must still be evaluated (seeded changes C08-9 / C03-12)
    slow = type(doms[0][1])("N0", frozenset("abcd"), [(F_(1), "N0", ("N1", "b")), (F_(1), "N0", ("N2", "c")), (F_(1, 2), "N2", ("N1", "N1")),
                                                    (F_(1, 2), "N2", ("d",)), (F_(99982, 100000), "N1", ("a", "N1")), (F_(18, 100000), "N1", ("a",))])
    cases.append(dict(name="slow_lower_block", g=slow, sr="Float", rename="id", order=None, maxlen=1, part="prefix"))
    return cases


def _cat_terminals(g, ints=False):
    names = [1, 11, 111, 1111] if ints else ["a", "aa", "aaa", "aaaa"]
    ids = {a: names[k] for k, a in enumerate(sorted(g.V))}
    return type(g)(g.S, frozenset(ids.values()), [(w, h, tuple(ids.get(y, y) for y in b)) for w, h, b in g.rules])


def _int_terminals(g):
    from vlib.dom_cfg import SPARSE_IDS
    ids = {a: SPARSE_IDS[k] for k, a in enumerate(sorted(g.V))}
    return type(g)(g.S, frozenset(ids.values()), [(w, h, tuple(ids.get(y, y) for y in b)) for w, h, b in g.rules])


def _to_spec(cfg, sr):
    """Neutral snapshot of a real grammar with weights as spec values (floats become exact Fractions)."""
    val = bridge.SEMIRINGS[sr][3]

    def conv(w):
        v = val(w)
        if sr in NUMERIC and isinstance(v, float):
            return Fraction(v)
        if sr in NUMERIC and not isinstance(v, Fraction):
            return Fraction(v)
        return v
    return bridge.from_cfg(cfg, conv)


def check_case(case):
    g, sr = case["g"], case["sr"]
    R, ops, conv, val = bridge.SEMIRINGS[sr]
    gs = bridge.spec_grammar(g, sr)
    maxlen = case["maxlen"]
    part = case.get("part", "all")
    ps = cfgspec.strings_upto(g.V, maxlen)
    out = dict(n=0, keys=[], violations=[])
    try:
        pw = {p: cfgspec.prefix_weight(ops, gs, p) for p in ps}
        sw = {p: cfgspec.cfg_weight(ops, gs, p) for p in ps}
    except ArithmeticError:
        return out                      # divergent instance: outside the property's domain
    exact = all(e for _, e in pw.values()) and all(e for _, e in sw.values())
    if sr in EXACT_ONLY and not exact:
        if sr == "Q":
            return out                  # nonlinear system with Fraction scores: the iteration squares denominators
        sr = "Float"
        R, ops, conv, val = bridge.SEMIRINGS[sr]
    want_pw = {p: v for p, (v, _) in pw.items()}
    want_sw = {p: v for p, (v, _) in sw.items()}
    desc = dict(grammar=bridge.fmt_grammar(g), semiring=sr, rename=case["rename"], order=case["order"])
    numeric = sr in NUMERIC
    seen_nontrivial = [False]

    def close(got, exp):
        if numeric or sr == "MaxTimes":
            ok = num_close(got, exp, rel=1e-7, abs_=ABS_TOL)
            if ok and float(exp) >= MIN_NONTRIVIAL:
                seen_nontrivial[0] = True
            return ok
        ok = num_close(got, exp)
        if ok and not ops.is_zero(exp):
            seen_nontrivial[0] = True
        return ok

    def viol(ob, what, fn, arg, got, exp):
        out["violations"].append(dict(
            obligation=ob, what=what, signature=sig(fn, what.split(":")[0], case["name"], sr),
            replay=dict(desc, function=fn, argument=arg, observed=lmspec.short(got), expected=lmspec.short(exp), case=common.enc(case))))

    def judge(ob, fn, arg, st, v, exp):
        out["n"] += 1
        if st != "ok":
            viol(ob, "raised: " + v.split(":")[0], fn, arg, v, exp)
        elif not common.in_semiring(v, sr):
            viol(ob, "result-not-in-semiring: " + type(v).__name__, fn, arg, v, exp)
        elif not close(val(v), exp):
            viol(ob, "wrong-value", fn, arg, val(v), exp)

    cfg = bridge.to_cfg(g, sr, rename=common.renamer(case["rename"]), order=case["order"])

    if part in ("all", "prefix"):
        # ---- prefix_weight / prefix_grammar(p)
        for p in ps:
            st, v = call(cfg.prefix_weight, p)
            judge(OB_PW, "prefix_weight", list(p), st, v, want_pw[p])
        st, pg = call(lambda: cfg.prefix_grammar)
        if st != "ok":
            out["n"] += 1
            viol(OB_PG, "raised: " + pg.split(":")[0], "prefix_grammar", None, pg, "a grammar")
        else:
            for p in ps:
                st, v = call(pg, p)
                judge(OB_PG, "prefix_grammar(p)", list(p), st, v, want_pw[p])
            # the prefix grammar as a grammar, evaluated by the independent derivation-sum spec
            if part == "all":
                pgs = _to_spec(pg, sr)
                for p in ps:
                    if len(p) > min(maxlen, 3):
                        continue
                    out["n"] += 1
                    try:
                        v, _ = cfgspec.cfg_weight(ops, pgs, p)
                    except ArithmeticError:
                        continue
                    if not close(v, want_pw[p]):
                        viol(OB_PGS, "wrong-value", "[[prefix_grammar]](p) by spec", list(p), v, want_pw[p])

    if part in ("all", "derivs"):
        # ---- derivatives(p)[-1].treesum(): the real chain is built for every maximal prefix, each D[m] judged once
        done = set()
        for p in ps:
            if len(p) != maxlen:
                continue
            st, D = call(cfg.derivatives, p)
            if st != "ok":
                out["n"] += 1
                viol(OB_DS, "raised: " + D.split(":")[0], "derivatives", list(p), D, "grammars")
                continue
            for m in range(len(p) + 1):
                q = p[:m]
                if q in done:
                    continue
                done.add(q)
                st, v = call(D[m].treesum)
                judge(OB_DS, "derivatives(p)[-1].treesum()", list(q), st, v, want_pw[q])
        # ---- derivative(a)(y)
        for a in sorted(g.V, key=repr):
            st, Da = call(cfg.derivative, a)
            if st != "ok":
                out["n"] += 1
                viol(OB_D1, "raised: " + Da.split(":")[0], "derivative", a, Da, "a grammar")
                continue
            das = None
            if part == "all":
                das = _to_spec(Da, sr)
            for y in ps:
                if len(y) + 1 > maxlen:
                    continue
                exp = want_sw[(a,) + y]
                st, v = call(Da, y)
                judge(OB_D1, "derivative(a)(y)", [a, list(y)], st, v, exp)
                if das is not None and len(y) <= 2:
                    out["n"] += 1
                    try:
                        v, _ = cfgspec.cfg_weight(ops, das, y)
                    except ArithmeticError:
                        continue
                    if not close(v, exp):
                        viol(OB_D1S, "wrong-value", "[[derivative(a)]](y) by spec", [a, list(y)], v, exp)

    if seen_nontrivial[0]:
        out["keys"].append(sig(case["name"], sr, case["rename"], part))
    if case["name"] in ("left_rec", "nullable_prefix") and sr == "FloatFrac" and case["rename"] == "id":
        out["sample"] = dict(grammar=bridge.fmt_grammar(g), semiring=sr, prefixes=len(ps),
                             prefix_weights={"".join(p): str(w) for p, w in list(want_pw.items())[:5]})
    return out


def bounded(run):
    tier = run.tier
    cases = make_cases(tier, run.seed)
    srs = SEMIRINGS_QUICK if tier == "quick" else SEMIRINGS_THOROUGH
    run.rule(f"grammars: corpus of adversarial shapes (nullable prefixes, unary cycles, left/right recursion = infinitely many "
             f"completions, useless symbols, empty language) + 250 seeded random G(3,2,5,3) [thorough: 1000 of G(4,3,7,3)], generic rational "
             f"weights scaled so every total weight converges; semirings {srs} on the whole domain and MaxPlus on "
             f"{len(MAXPLUS_CORPUS)} corpus shapes [thorough: + 40 random] with prefixes up to length 2; prefixes: all strings up to "
             f"length {4 if tier == 'quick' else 5} (one less when |V| > 2) incl. the empty prefix and prefixes of no string; derivative(a)(y) for all a, "
             f"|y| < that length; prefix grammar and derivative grammars additionally evaluated by the spec (short strings); "
             f"variants: rule permutation, nonterminal renaming, PYTHONHASHSEED in the listed set (each case under one of them); numbers compared at "
             f"rel 1e-7 + abs {ABS_TOL} (the library's fixed points stop at 1e-12); non-trivial = a compared value >= "
             f"{MIN_NONTRIVIAL} (non-zero for Boolean/MaxPlus); distinct = (grammar, semiring, variant). "
             f"NOT covered: Log, Expectation, Entropy (no exact spec ops); Fraction-scored semirings on nonlinear systems")
    seeds = (0, 1) if tier == "quick" else (0, 1, 2, 3, 4, 5, 6, 7)
    run.extra["hash_seed_mode"] = "every case under one seed (round robin)"
    run.extra["hash_seeds"] = list(seeds)
    engine.run_cases(run, "props.C03", "check_case", cases, hash_seeds=seeds, per_case_timeout=60,
                     split=True)


def run(run, only=None):
    run.assume("T-PREFIX: PW(p) = sum over all strings s with prefix p of [[G]](s) is finite (weights scaled for convergence)",
               "oracle: cfgspec.prefix_weight (prefix-inside recurrence on the original rules with exact closures and "
               "exact/Newton tree sums) and cfgspec.cfg_weight; validated against derivation enumeration and the "
               "telescoping identity by the spec self-checks")
    if only != "bounded":
        common.run_proved(run, "C03")
    if only != "proved":
        bounded(run)


def replay(doc):
    return common.generic_replay(doc, check_case)

"""C01 - the Boolean grammar LM's next-token mask is exactly the set of viable continuations.

PROVED layer  : props/C01_proved.py (dispatch / interface obligations of BoolCFGLM) - see run().
BOUNDED layer : the contract   {t : BoolCFGLM(G, alg).p_next(c)[t] != 0}  ==  {t : some string of L(G).EOS starts with c.t}
                (hence EOS offered  <=>  c in L(G); empty mask for a context nothing extends) evaluated on the real
                class for both back ends, against the independent viability decision cfgspec.viable on the
                EOS-augmented neutral grammar (S' -> S EOS built here, not by the repo's add_EOS).
"""
import random

from props import common
from props.common import call, sig
from vlib import bridge, domains, engine, advheap
from vlib.spec import cfgspec, lmspec
from vlib.spec.algebra import BOOL

ID = "C01"
LEVEL = "other"

OB_RESOLVES = "C01/cfglm.BoolCFGLM.p_next/resolves[alg=%s]"
OB_MASK = "C01/cfglm.BoolCFGLM.p_next/mask-equals-viable-continuations[alg=%s]"
OB_EOS = "C01/cfglm.BoolCFGLM.p_next/eos-iff-complete[alg=%s]"
ALGS = ("earley", "cky")
SEMIRINGS = ("Float", "Boolean")   # weights > 0 mapped to True by BoolCFGLM / grammar given over Boolean already


def contexts(V, eos, maxlen):
    """All contexts over V up to maxlen, plus contexts that already contain EOS (nothing may follow them)."""
    cs = cfgspec.strings_upto(V, maxlen)
    short = [c for c in cs if len(c) <= 2]
    a = sorted(V, key=repr)[:1]
    return cs + [c + (eos,) for c in short] + [(eos,) + tuple(a), (eos, eos)]


def bound(tier, g, maxlen=None):
    """String/context length bound: 4 (quick) / 5 (thorough) for |V| <= 2, one less for larger vocabularies."""
    return maxlen or ((4 if tier == "quick" else 5) - (0 if len(g.V) <= 2 else 1))


def make_cases(tier, seed, n_random=None, maxlen=None):
    rng = random.Random(seed)
    n_random = n_random if n_random is not None else (250 if tier == "quick" else 1500)
    doms = domains.grammar_domain(tier, seed, n_random=n_random)
    cases = []
    for i, (name, g) in enumerate(doms):
        for alg in ALGS:
            sr = SEMIRINGS[i % 2]
            cases.append(dict(name=name, g=g, sr=sr, alg=alg, rename="id", order=None, heap="real", pre_eos=False, maxlen=bound(tier, g, maxlen)))
            pol = ["fifo", "lifo", "random"][i % 3]
            cases.append(dict(name=name, g=g, sr=SEMIRINGS[(i + 1) % 2], alg=alg, rename=["tuple", "rev"][i % 2],
                              order=common.perm(len(g.rules), rng), heap=pol, pre_eos=(i % 4 == 0), maxlen=bound(tier, g, maxlen)))
    # strengthened after the independently seeded changes C01-1 / C01-2 / C20-2:
    #  - a grammar whose own symbols are spelled like the library's internal start-symbol name '<START>'
    #  - positive weights so small that float arithmetic loses them (mask is about positivity: Boolean conversion must come first),
    #    with EOS attached by BoolCFGLM and by the caller
    for i, (name, g) in enumerate(doms[:60]):
        for alg in ALGS:
            cases.append(dict(name=name, g=g, sr="Float", alg=alg, rename=["START0", "START1"][i % 2], order=None, heap="real",
                              pre_eos=False, maxlen=bound(tier, g, maxlen)))
            cases.append(dict(name=name, g=g, sr="FloatTiny", alg=alg, rename="id", order=None, heap="real", pre_eos=(i % 2 == 0),
                              maxlen=bound(tier, g, maxlen)))
    # token-id / byte vocabularies: 0 is a token like any other (falsy, but not epsilon) - strengthened after seeded changes C03-2, C01-8
    from vlib.dom_cfg import SPARSE_IDS as dom_cfg_ids
    for i, (name, g) in enumerate(doms[:40]):
        ids = {a: dom_cfg_ids[k] for k, a in enumerate(sorted(g.V))}
        # the declared vocabulary is larger than the set of terminals that occur in rules (an LM-sized V): one more id, above the used ones,
        # that no rule mentions - every context containing it is non-viable (seeded change C01-10)
        gi = type(g)(g.S, frozenset(ids.values()) | {dom_cfg_ids[len(ids)]}, [(w, h, tuple(ids.get(y, y) for y in b)) for w, h, b in g.rules])
        for alg in ALGS:
            cases.append(dict(name=name + "#ids", g=gi, sr=SEMIRINGS[i % 2], alg=alg, rename="id", order=None, heap="real", pre_eos=False,
                              maxlen=bound(tier, g, maxlen)))
    return cases


def check_case(case):
    from genlm.grammar import cfglm
    from genlm.grammar.parse import earley
    EOS = cfglm.EOS
    g, sr, alg = case["g"], case["sr"], case["alg"]
    ge = lmspec.add_eos(g, EOS)
    gb = ge.map_weights(lambda w: True)
    out = dict(n=0, keys=[], violations=[])
    desc = dict(grammar=bridge.fmt_grammar(g), semiring=sr, alg=alg, rename=case["rename"], order=case["order"],
                heap=case["heap"], eos_added_by="caller" if case["pre_eos"] else "BoolCFGLM")

    def viol(ob, what, c, got, exp):
        out["violations"].append(dict(
            obligation=ob % alg, what=what, signature=sig("BoolCFGLM", alg, what.split(":")[0], case["name"], sr),
            replay=dict(desc, context=list(c) if c is not None else None, observed=lmspec.short(got), expected=lmspec.short(exp),
                        case=common.enc(case))))

    real_heap = earley.LocatorMaxHeap
    if case["heap"] != "real":
        earley.LocatorMaxHeap = advheap.make(case["heap"], seed=len(g.rules))
    try:
        # the grammar handed to BoolCFGLM: G itself, or (pre_eos) the caller's own EOS-augmented grammar
        src, order = g, case["order"]
        if case["pre_eos"]:
            src = ge
            order = None if order is None else [i + 1 for i in order] + [0]
        cfg = bridge.to_cfg(src, sr, rename=common.renamer(case["rename"]), order=order)
        cs = contexts(g.V, EOS, case["maxlen"])
        st, lm = call(cfglm.BoolCFGLM, cfg, alg=alg)
        if st != "ok":
            out["n"] += 1
            viol(OB_RESOLVES, "raised: " + lm.split(":")[0] + " in BoolCFGLM.__init__", None, lm, "a language model")
            return out
        nontrivial = False
        wants = {}
        for c in cs:
            want = {t for t in ge.V if bool(cfgspec.prefix_weight(BOOL, gb, c + (t,))[0])}
            wants[c] = want
            st, p = call(lm.p_next, c)
            out["n"] += 1
            if st != "ok":
                kind = p.split(":")[0]
                viol(OB_RESOLVES if kind in ("AttributeError", "TypeError") else OB_MASK, "raised: " + kind, c, p, sorted(want, key=repr))
                if kind == "AttributeError":
                    break       # interface missing: every context fails the same way
                continue
            got = {t for t, v in p.items() if v != 0}
            if got != want:
                extra, missing = got - want, want - got
                viol(OB_MASK, "wrong-mask: " + ("offers non-viable" if extra else "") + ("/" if extra and missing else "")
                     + ("omits viable" if missing else ""), c, sorted(got, key=repr), sorted(want, key=repr))
            # second clause of the statement, decided a second way: EOS offered <=> c is a string of G
            if EOS not in c:
                complete = bool(cfgspec.cfg_weight(BOOL, g.map_weights(lambda w: True), c)[0])
                assert complete == (EOS in want), ("oracle inconsistency", c)
                out["n"] += 1
                if (EOS in got) != complete:
                    viol(OB_EOS, "wrong-eos", c, EOS in got, complete)
            nontrivial = nontrivial or bool(want)
        # second pass on the SAME model object, longest contexts first: by now every context has been extended by every token,
        # viable or not, so the parser's cached columns have seen non-viable tokens; the mask must not depend on that history
        # (strengthened after seeded change C01-3)
        for c in sorted(wants, key=lambda c: (-len(c), repr(c))):
            st, p = call(lm.p_next, c)
            out["n"] += 1
            if st != "ok":
                viol(OB_MASK, "raised on re-query: " + p.split(":")[0], c, p, sorted(wants[c], key=repr))
                break
            got = {t for t, v in p.items() if v != 0}
            if got != wants[c]:
                viol(OB_MASK, "wrong-mask on re-query: " + ("offers non-viable" if got - wants[c] else "omits viable"), c, sorted(got, key=repr), sorted(wants[c], key=repr))
        if nontrivial:
            out["keys"].append(sig(case["name"], sr, alg, case["rename"], case["heap"]))
        if case["name"] in ("palindrome", "unary_cycle") and case["rename"] == "id":
            c = ("a",)
            out["sample"] = dict(grammar=bridge.fmt_grammar(g), alg=alg, semiring=sr, contexts=len(cs), context=list(c),
                                 viable_next=sorted(t for t in ge.V if cfgspec.viable(ge, c + (t,))))
    finally:
        earley.LocatorMaxHeap = real_heap
    return out


def bounded(run):
    tier = run.tier
    assert lmspec.selfcheck() > 0
    cases = make_cases(tier, run.seed)
    run.rule(f"grammars: corpus of adversarial shapes (nullable / unary cycles, left+right recursion, useless symbols, "
             f"unproductive start, empty and eps-only language) + 250 seeded random G(3,2,5,3) [thorough: 1500 of G(4,3,7,3)]; "
             f"weights over Float (positive, mapped to Boolean by BoolCFGLM) and over Boolean; both back ends "
             f"alg in {list(ALGS)}; contexts: all strings over V up to length {4 if tier == 'quick' else 5} (one less when |V| > 2; viable or not) "
             f"plus contexts that already contain EOS; variants: rule permutation, nonterminal renaming, agenda "
             f"tie-break policies, EOS added by BoolCFGLM or by the caller, PYTHONHASHSEED in the listed set; "
             f"non-trivial = some context has a viable continuation; distinct = (grammar, semiring, alg, variant). "
             f"NOT covered: weights over semirings other than Float/Boolean (BoolCFGLM's `x > 0` is undefined for them)")
    seeds = (0, 1) if tier == "quick" else (0, 1, 2, 3)
    run.extra["hash_seeds"] = list(seeds)
    engine.run_cases(run, "props.C01", "check_case", cases, hash_seeds=seeds, per_case_timeout=60,
                     split=(tier == "quick"))


def run(run, only=None):
    run.assume("oracle: cfgspec.viable / prefix_weight over the Boolean semiring on the EOS-augmented neutral grammar "
               "(independent prefix-inside fixed point, validated against derivation enumeration by lmspec.selfcheck)",
               "A7: arsenal LocatorMaxHeap pops a maximal-priority entry, ties arbitrary")
    if only != "bounded":
        common.run_proved(run, "C01")
    if only != "proved":
        bounded(run)


def replay(doc):
    return common.generic_replay(doc, check_case)

"""C12 - rational operations implement the algebra of weighted languages.

PROVED layer  : props/C12_proved.py (construction conformance of __add__/__mul__/kleene_plus/reverse/lift/...) - see run().
BOUNDED layer : the contracts, straight from the property statement,
                    (A+B)(x) = A(x)+B(x);  (A.B)(x) = sum_{x=uv} A(u)B(v);  star(A)(x) = sum over factorisations;
                    kleene_plus(A) = A.star(A);  reverse(A)(x) = A(reversed x);  zero, one, lift, from_string,
                    from_strings give the stated languages;  rename with an injective map keeps the language
                evaluated on the real operations of BOTH automaton classes, point-wise on all short strings against
                string-level power-series arithmetic (vlib/spec/ratspec.py) and - over the exact semiring - on ALL
                strings per instance by Tzeng equivalence with an independently constructed spec automaton.
"""
import random
from fractions import Fraction

from props import common
from props.common import num_close, sig
from vlib import bridge, dom_wfsa, engine
from vlib.dom_wfsa import gcall, fail_kind
from vlib.spec import algebra, fsaspec, ratspec
from vlib.spec.fsaspec import EPS

ID = "C12"
LEVEL = "other"

# (semiring, class) configurations; the field class (genlm.grammar.wfsa.WFSA, the exported default) only over Float:
# its class-level one/zero are Float automata, so other semirings are outside that class's contract (DESIGN C12).
CONFIGS_QUICK = [("Q", "base"), ("Float", "field"), ("Float", "base"), ("Real", "base"), ("Boolean", "base"), ("MaxTimes", "base")]
CONFIGS_THOROUGH = CONFIGS_QUICK + [("FloatFrac", "field"), ("MaxPlus", "base"), ("Log", "base"), ("RealFrac", "base")]

CALL_TIMEOUT = 10

KIND = {
    "add": "__add__/pointwise-sum", "mul": "__mul__/sum-over-splits", "star": "star/sum-over-factorisations",
    "plus": "kleene_plus/sum-over-factorisations", "rev": "reverse/reversed-strings",
    "ren": "rename/injective-preserves-language", "renum": "renumber/preserves-language",
    "one_of": "one/unit-language", "zero_of": "zero/empty-language", "lift": "lift/single-symbol",
    "word": "from_string/single-string", "words": "from_strings/set-of-strings",
}


def ob_name(cls, e, nested):
    mod = "wfsa.base.WFSA" if cls == "base" else "wfsa.field_wfsa.WFSA"
    if nested:
        return f"C12/{mod}.expression/nested-identity"
    return f"C12/{mod}.{KIND[e[0]]}"


EVAL_OPS = {"A", "B", "add", "mul", "star", "plus", "rev", "ren", "renum", "one_of", "zero_of", "lift", "word", "words"}
A_, B_ = ("A",), ("B",)


def basic_exprs():
    return [("add", A_, B_), ("mul", A_, B_), ("mul", B_, A_), ("star", A_), ("plus", A_), ("plus", B_), ("rev", A_),
            ("ren", A_, "tuple"), ("ren", A_, "mirror"), ("renum", B_), ("one_of", A_), ("zero_of", A_)]


def nested_exprs(w):
    la = ("lift", "a", w)
    return [
        ("star", ("add", A_, B_)),
        ("mul", ("add", A_, ("one_of", A_)), ("plus", B_)),
        ("rev", ("mul", ("star", A_), B_)),
        ("star", ("add", ("mul", A_, B_), ("rev", A_))),
        ("mul", ("mul", A_, la), ("star", ("mul", B_, la))),
        ("add", ("mul", A_, ("zero_of", B_)), ("ren", ("mul", B_, ("one_of", A_)), "tuple")),
        ("plus", ("rev", ("add", ("mul", A_, A_), B_))),
        ("ren", ("star", ("mul", ("add", A_, B_), ("rev", B_))), "mirror"),
        ("mul", ("star", A_), ("star", B_)),
        ("rev", ("rev", ("add", ("star", A_), ("renum", B_)))),
        ("add", ("add", A_, A_), ("mul", ("one_of", B_), B_)),
        ("star", ("star", ("mul", A_, la))),
    ]


def atom_exprs():
    h, t = Fraction(1, 2), Fraction(1, 3)
    la, lb = ("lift", "a", h), ("lift", "b", t)
    return [la, ("lift", EPS, t), ("lift", "a", Fraction(0)), ("lift", "a", Fraction(1)),
            ("word", "ab", None), ("word", ("a", "b", "a"), t), ("word", "", None), ("word", (), h), ("word", "aa", Fraction(0)),
            ("words", ["a", "ab", "b", "ab"]), ("words", []), ("words", ["", "a"]), ("words", [("a", "b"), ("b",), ("a", "b", "b")]),
            ("words", ["abab", "ab", "aba"]),
            ("one_of", la), ("zero_of", la),
            ("mul", la, lb), ("add", la, lb), ("star", la), ("plus", ("mul", la, lb)), ("rev", ("word", "abb", None)),
            ("star", ("lift", EPS, t)), ("mul", ("word", "ab", None), ("words", ["", "b"])),
            ("star", ("add", la, ("word", "ba", t))), ("ren", ("words", ["ab", "b"]), "tuple")]


def make_cases(tier, seed, n_pairs=None, maxlen=None):
    quick = tier == "quick"
    rng = random.Random(seed)
    n_pairs = n_pairs if n_pairs is not None else (70 if quick else 1200)
    maxlen = maxlen if maxlen is not None else (4 if quick else 5)
    corpus = list(dom_wfsa.full_corpus().items())
    q, sigma, m = (3, 2, 5) if quick else (4, 2, 7)
    pairs = []
    # corpus x corpus (rotating partner) - initial state also final, epsilon arcs, several initial/final states
    for i, (na, a) in enumerate(corpus):
        nb, b = corpus[(i * 5 + 3) % len(corpus)]
        pairs.append((na, a, nb, b))
    for i in range(n_pairs):
        a = dom_wfsa.random_wfsa(rng, q, sigma, m)
        b = dom_wfsa.random_wfsa(rng, q, sigma, m) if i % 3 else corpus[i % len(corpus)][1]
        pairs.append((f"randA{seed}_{i}", a, f"randB{seed}_{i}" if i % 3 else corpus[i % len(corpus)][0], b))
    # operands whose state names look like the tags rename_apart uses ((0, q) / (1, q)): a renaming that does not tag BOTH operands
    # would conflate states (strengthened after the independently seeded change C12-2)
    def retag(a, t):
        f = lambda q: (t, q)   # noqa: E731
        return type(a)(frozenset(f(q) for q in a.states), {f(q): w for q, w in a.start.items()}, {f(q): w for q, w in a.stop.items()},
                       [(f(i), l, f(j), w) for i, l, j, w in a.arcs])
    for i in range(4 if quick else 40):
        a = dom_wfsa.random_wfsa(rng, q, sigma, m)
        b = dom_wfsa.random_wfsa(rng, q, sigma, m)
        pairs.append((f"tagclashL{seed}_{i}", retag(a, 1), f"plainB{seed}_{i}", b))
        pairs.append((f"plainA{seed}_{i}", a, f"tagclashR{seed}_{i}", retag(b, 0)))
    configs = CONFIGS_QUICK if quick else CONFIGS_THOROUGH
    cases = []
    for i, (na, a, nb, b) in enumerate(pairs):
        for k, (sr, cls) in enumerate(configs):
            cases.append(dict(kind="pair", nameA=na, A=a, nameB=nb, B=b, sr=sr, cls=cls, maxlen=maxlen,
                              nested=[(i + k) % 12, (i * 5 + k + 1) % 12] if quick else [(i + k + j) % 12 for j in (0, 5, 7)]))
    for sr, cls in configs:
        cases.append(dict(kind="atoms", sr=sr, cls=cls, maxlen=maxlen + 1))
    return cases


# ---------------------------------------------------------------- three evaluators of one expression
def _ren(kind):
    if kind == "tuple":
        return lambda q: ("r", q)
    return lambda q: 1000 - q if isinstance(q, int) and not isinstance(q, bool) else ("n", q)


def ev_repo(e, env):
    """The expression on the real classes.  env: A, B (real automata), cls, R, conv."""
    op = e[0]
    cls, R, conv = env["cls"], env["R"], env["conv"]
    if op in ("A", "B"):
        return env[op]
    if op == "add":
        return ev_repo(e[1], env) + ev_repo(e[2], env)
    if op == "mul":
        return ev_repo(e[1], env) * ev_repo(e[2], env)
    if op == "star":
        return ev_repo(e[1], env).star()
    if op == "plus":
        return ev_repo(e[1], env).kleene_plus()
    if op == "rev":
        return ev_repo(e[1], env).reverse
    if op == "ren":
        return ev_repo(e[1], env).rename(_ren(e[2]))
    if op == "renum":
        return ev_repo(e[1], env).renumber
    if op == "one_of":
        return ev_repo(e[1], env).one
    if op == "zero_of":
        return ev_repo(e[1], env).zero
    if op == "lift":
        if env["explicit_R"]:
            return cls.lift(e[1], conv(e[2]), R)
        return cls.lift(e[1], conv(e[2]))
    if op == "word":
        return cls.from_string(e[1], R) if e[2] is None else cls.from_string(e[1], R, conv(e[2]))
    if op == "words":
        return cls.from_strings(e[1], R)
    raise ValueError(op)


def ev_spec(e, env):
    """Spec automaton over Q (Fraction weights) for the same expression.  env: A, B neutral automata."""
    ops = algebra.Q
    op = e[0]
    if op in ("A", "B"):
        return env[op]
    if op == "add":
        return ratspec.union(ops, ev_spec(e[1], env), ev_spec(e[2], env))
    if op == "mul":
        return ratspec.concat(ops, ev_spec(e[1], env), ev_spec(e[2], env))
    if op == "star":
        return ratspec.star(ops, ev_spec(e[1], env))
    if op == "plus":
        return ratspec.plus(ops, ev_spec(e[1], env))
    if op == "rev":
        return ratspec.reverse(ops, ev_spec(e[1], env))
    if op in ("ren", "renum"):
        return ev_spec(e[1], env)
    if op == "one_of":
        return ratspec.one(ops)
    if op == "zero_of":
        return ratspec.zero()
    if op == "lift":
        return ratspec.lift(ops, e[1], e[2])
    if op == "word":
        return ratspec.word(ops, e[1], e[2])
    if op == "words":
        return ratspec.words(ops, e[1])
    raise ValueError(op)


def ev_series(e, env):
    """Truncated power series (string -> weight in the spec ops of the semiring).  env: A, B series, ops, V, n, w."""
    ops, V, n = env["ops"], env["V"], env["n"]
    op = e[0]
    if op in ("A", "B"):
        return env[op]
    if op == "add":
        return ratspec.s_add(ops, ev_series(e[1], env), ev_series(e[2], env))
    if op == "mul":
        return ratspec.s_mul(ops, ev_series(e[1], env), ev_series(e[2], env))
    if op == "star":
        return ratspec.s_star(ops, ev_series(e[1], env))
    if op == "plus":
        return ratspec.s_plus(ops, ev_series(e[1], env))
    if op == "rev":
        return ratspec.s_rev(ops, ev_series(e[1], env))
    if op in ("ren", "renum"):
        return ev_series(e[1], env)
    if op == "one_of":
        return ratspec.s_one(ops, V, n)
    if op == "zero_of":
        return ratspec.s_zero(ops, V, n)
    if op == "lift":
        return ratspec.s_word(ops, V, n, () if e[1] == EPS else (e[1],), env["w"](e[2]))
    if op == "word":
        return ratspec.s_word(ops, V, n, tuple(e[1]), None if e[2] is None else env["w"](e[2]))
    if op == "words":
        s = ratspec.s_zero(ops, V, n)
        for xs in sorted({tuple(x) for x in e[1]}):
            s = ratspec.s_add(ops, s, ratspec.s_word(ops, V, n, xs))
        return s
    raise ValueError(op)


def uses(e, names):
    return e[0] in names or any(uses(x, names) for x in e[1:] if isinstance(x, tuple) and x and x[0] in EVAL_OPS)


def fmt(e):
    if e[0] in ("A", "B"):
        return e[0]
    return e[0] + "(" + ", ".join(fmt(x) if isinstance(x, tuple) and x and x[0] in EVAL_OPS else repr(x if not isinstance(x, Fraction) else str(x)) for x in e[1:]) + ")"


def same(sr, got, want):
    if sr == "Q":
        return got == want
    return num_close(got, want)


def spec_w(sr):
    import math
    if sr == "Boolean":
        return lambda w: w != 0
    if sr == "MaxPlus":
        return lambda w: -math.inf if w == 0 else math.log(float(w))
    return lambda w: Fraction(w)


def check_case(case):
    from genlm.grammar.wfsa import base, field_wfsa
    SR = dom_wfsa.semirings()
    sr, clsname = case["sr"], case["cls"]
    R, ops, conv, val = SR[sr]
    cls = base.WFSA if clsname == "base" else field_wfsa.WFSA
    out = dict(n=0, keys=[], violations=[])
    n = case["maxlen"]
    explicit_R = R is bridge.Float and clsname == "base"   # lift derives R from w.__class__: plain numbers need R given

    if case["kind"] == "pair":
        a, b = case["A"], case["B"]
        if not (ratspec.eps_converges(a) and ratspec.eps_converges(b)):
            return out
        V = dom_wfsa.alphabet(a, b) or ["a"]
        if "a" not in V:
            V = sorted(V + ["a"])
        exprs = [(e, False) for e in basic_exprs()] + [(nested_exprs(Fraction(2, 5))[k], True) for k in case["nested"]]
        tag = f"A:{dom_wfsa.features(a)}/B:{dom_wfsa.features(b)}"
        inst = f"{case['nameA']},{case['nameB']}"
        desc = dict(A=bridge.fmt_automaton(a), B=bridge.fmt_automaton(b), semiring=sr, cls=clsname, instance=inst)
    else:
        a = b = None
        V = ["a", "b"]
        exprs = [(e, False) for e in atom_exprs()]
        tag = "atoms"
        inst = "atoms"
        desc = dict(semiring=sr, cls=clsname, instance=inst)

    def viol(ob, what, e, x, got, exp):
        out["violations"].append(dict(
            obligation=ob, what=what,
            signature=sig(e[0], dom_wfsa.kind(what), sr, clsname),
            replay=dict(desc, expression=fmt(e), string=list(x) if x is not None else None, observed=repr(got), expected=repr(exp),
                        case=common.enc(case))))

    renv = dict(cls=cls, R=R, conv=conv, explicit_R=explicit_R)
    senv = dict(ops=ops, V=V, n=n, w=spec_w(sr))
    qenv = {}
    if a is not None:
        st, ma = gcall(CALL_TIMEOUT, dom_wfsa.build_wfsa, cls, R, conv, a)
        st2, mb = gcall(CALL_TIMEOUT, dom_wfsa.build_wfsa, cls, R, conv, b)
        if st != "ok" or st2 != "ok":
            viol(ob_name(clsname, ("add",), False), fail_kind(st, ma) if st != "ok" else fail_kind(st2, mb), ("A",), None, (ma, mb), "operands")
            return out
        renv.update(A=ma, B=mb)
        senv.update(A=ratspec.series(ops, dom_wfsa.spec_automaton(a, sr), V, n),
                    B=ratspec.series(ops, dom_wfsa.spec_automaton(b, sr), V, n))
        qenv.update(A=a, B=b)
    xs = ratspec.strings_upto(V, n)

    # does `one` resolve at all for this class/semiring?  (observation 14: reported once, under one/resolves;
    # expressions that need it are then not evaluated - they cannot be built)
    probe = renv.get("A") if a is not None else None
    if probe is None:
        st, probe = gcall(CALL_TIMEOUT, ev_repo, ("lift", "a", Fraction(1, 2)), renv)
        if st != "ok":
            viol(ob_name(clsname, ("lift",), False), fail_kind(st, probe), ("lift", "a", Fraction(1, 2)), None, probe, "an automaton")
            return out
    st, o = gcall(CALL_TIMEOUT, lambda: probe.one)
    one_ok = st == "ok"
    out["n"] += 1
    if not one_ok:
        mod = "wfsa.base.WFSA" if clsname == "base" else "wfsa.field_wfsa.WFSA"
        viol(f"C12/{mod}.one/resolves", fail_kind(st, o), ("one_of", A_ if a is not None else ("lift", "a", Fraction(1, 2))), None, o, "the one automaton")

    for e, nested in exprs:
        nontrivial = False
        if not one_ok and uses(e, {"star", "one_of"}):
            continue
        ob = ob_name(clsname, e, nested)
        # spec side first: is the expression inside the domain (all infinite sums converge)?
        try:
            q_aut = ev_spec(e, qenv)
            if not ratspec.eps_converges(q_aut):
                continue
            want = ev_series(e, senv)
        except ArithmeticError:
            continue
        st, m = gcall(CALL_TIMEOUT, ev_repo, e, renv)
        if st != "ok":
            out["n"] += 1
            viol(ob, fail_kind(st, m), e, None, m, "an automaton")
            continue
        bad = False
        for x in xs:
            st, v = gcall(CALL_TIMEOUT, m, x)
            out["n"] += 1
            if st != "ok":
                viol(ob, fail_kind(st, v), e, x, v, want[x])
                bad = True
                break
            if not dom_wfsa.in_sr(v, R):
                viol(ob, "result-not-in-semiring: " + type(v).__name__, e, x, v, want[x])
                bad = True
                break
            if not same(sr, val(v), want[x]):
                viol(ob, "wrong-value", e, x, val(v), want[x])
                bad = True
                break
            if not ops.is_zero(want[x]):
                nontrivial = True
        if sr == "Q" and not bad:
            out["n"] += 1
            snap = dom_wfsa.snapshot(m, val)
            eq, wit = fsaspec.equivalent(algebra.Q, q_aut, snap)
            if not eq:
                viol(ob, "not-equivalent-on-all-strings", e, wit, bridge.fmt_automaton(snap), "the language of " + fmt(e))
        if nontrivial:
            out["keys"].append(sig(inst, sr, clsname, fmt(e)))
    if case["kind"] == "pair" and sr == "Q" and case["nameA"] in ("eps_loop", "init_final"):
        out["sample"] = dict(A=bridge.fmt_automaton(a), B=bridge.fmt_automaton(b), semiring=sr, cls=clsname,
                             expressions=[fmt(e) for e, _ in exprs], strings=len(xs))
    return out


def bounded(run):
    tier = run.tier
    n_id = ratspec.selfcheck(n=3, trunc=False) if tier == "quick" else ratspec.selfcheck(n=5, trunc=True)
    run.assume(f"oracle validation: vlib/spec/ratspec.selfcheck passed ({n_id} identities: spec automaton constructions vs "
               f"string-level definitions vs brute-force factorisation sums, strings up to length {3 if tier == 'quick' else 5}; "
               f"`python -m vlib.spec.ratspec` runs the full version)")
    cases = make_cases(tier, run.seed)
    configs = CONFIGS_QUICK if tier == "quick" else CONFIGS_THOROUGH
    run.rule(f"operands: every corpus automaton (initial state also final, epsilon arcs/cycles, several initial and final "
             f"states, dead/unreachable states, empty language, no states) paired with a rotating partner + seeded random "
             f"pairs of A{(3, 2, 5) if tier == 'quick' else (4, 2, 7)} with generic rational weights; expressions per pair: "
             f"A+B, A.B, B.A, A*, A+, B+, reverse, rename (two injective maps), renumber, one, zero and "
             f"{2 if tier == 'quick' else 3} of 12 nested expressions of depth 3-4; per configuration one atom case "
             f"(lift incl. epsilon/zero weight, from_string over str/tuple/empty, from_strings incl. duplicates/prefixes/empty set, "
             f"one, zero and small combinations); (semiring, class) configurations {configs} - class 'field' = "
             f"genlm.grammar.wfsa.field_wfsa.WFSA (exported default), run over Float only: its class-level one/zero are Float "
             f"automata, so the field class over another semiring is treated as outside that class's contract and not flagged; "
             f"point-wise on all strings up to length {4 if tier == 'quick' else 5} (atoms: one more) against power-series "
             f"arithmetic; over Q additionally on ALL strings by Tzeng equivalence with the spec-side construction; "
             f"expressions whose star diverges are skipped; base.WFSA.lift is called with explicit R for the plain-number "
             f"semiring Float (its documented way), without R otherwise.  NOT covered: Expectation/Entropy semirings.  "
             f"non-trivial = a non-zero weight was compared; distinct = (operands, semiring, class, expression); "
             f"signature = (top operation, failure kind, semiring, class) - the failing instance is in the replay")
    seeds = (0, 1) if tier == "quick" else (0, 1, 2, 3)
    run.extra["hash_seeds"] = list(seeds)
    engine.run_cases(run, "props.C12", "check_case", cases, hash_seeds=seeds, per_case_timeout=180,
                     split=True)        # every case under exactly one of the listed hash seeds (round robin)


def run(run, only=None):
    run.assume("T-PATHSUM (C11): the weight of a string is the path sum; C11 is checked separately",
               "string-level definitions of sum, Cauchy product, star (S = 1 + A.S solved with the scalar star of A(eps)), "
               "reversal on truncated power series are the oracle (vlib/spec/ratspec.py); fsaspec.equivalent decides all strings")
    if only != "bounded":
        common.run_proved(run, "C12")
    if only != "proved":
        bounded(run)


def replay(doc):
    return common.generic_replay(doc, check_case)

"""PROVED-class obligations of C11: see props/constructions2.py and props/resolves.py."""
import z3

from props import constructions2 as C2
from props import resolves
from vlib.pyvc import interp as I


def proved(run):
    run.trust("pyvc symbolic interpreter over the real AST", f"z3 {z3.get_version_string()}")
    resolves.c11_total_weight(run)
    for f in (C2.c11_epsremove,):
        try:
            f(run)
        except (I.OutOfSubset, KeyError) as e:
            run.obligation("C11/" + f.__name__, "out-of-subset", detail=str(e))
    from props import frames_automata
    frames_automata.run_frames(run, "C11")

"""C06 - normal-form transformations preserve the weighted language.

PROVED layer  : props/C06_proved.py (construction conformance, FRESH-NAMES) - see run().
BOUNDED layer : the contract  [[T(G)]](x) == [[G]](x)  for every transformation T with every option, evaluated
                on the REAL T.  Both sides are computed by the independent derivation-sum spec
                (vlib.spec.cfgspec.cfg_weight): the right-hand side on the neutral input grammar, the left-hand
                side on the neutral snapshot bridge.from_cfg(T(G)) of the real output - the repo's own parsers
                are not involved.  API-closed chains of 2-4 transformations (DESIGN 3, FRESH-NAMES) are
                evaluated after every step; the first step whose output language differs is reported.
"""
import random

from props import common
from props.common import call, num_close, sig
from vlib import bridge, dom_cfg, engine
from vlib.spec import cfgspec, fastops

ID = "C06"
LEVEL = "other"

SEMIRINGS_QUICK = ["FloatFrac", "Real", "Boolean", "MaxTimes"]
SEMIRINGS_THOROUGH = ["FloatFrac", "Float", "Real", "Q", "Boolean", "MaxTimes", "MaxPlus"]

# steps whose weights come out of CFG.agenda (absolute stopping tolerance 1e-12)
AGENDA_BASED = ("nullaryremove", "cnf")
AGENDA_SLACK = 1e-10


def OB(method, kind="preserves-language"):
    return f"C06/cfg.CFG.{method}/{kind}"


def make_cases(tier, seed, n_random=None, n_productive=None, maxlen=None):
    rng = random.Random(seed)
    quick = tier == "quick"
    n_random = (60 if quick else 300) if n_random is None else n_random
    n_productive = (70 if quick else 500) if n_productive is None else n_productive
    maxlen = (4 if quick else 5) if maxlen is None else maxlen
    doms = dom_cfg.cfg_domain(tier, seed, n_random, n_productive)
    srs = SEMIRINGS_QUICK if quick else SEMIRINGS_THOROUGH
    all_chains = dom_cfg.chains(tier, rng, n_random=0 if quick else 40)
    cases = []
    for i, (name, g) in enumerate(doms):
        corpus = not (name.startswith("rand") or name.startswith("prod"))
        for j, sr in enumerate(srs):
            if quick and not corpus:
                # every grammar x semiring gets all single transformations; the chains rotate over the random part
                ch = [c for k, c in enumerate(all_chains) if (k + i + j) % 4 == 0]
            elif not quick and not corpus:
                ch = [c for k, c in enumerate(all_chains) if (k + i + j) % 6 == 0]
            else:
                ch = all_chains
            ml = maxlen if len(g.V) <= 2 else min(maxlen, 4 if not quick else 3)
            cases.append(dict(name=name, g=g, sr=sr, maxlen=ml, chains=ch, singles=True))
        if i % 5 == 0 or corpus:
            # integer terminals: renumber must keep its range away from them
            cases.append(dict(name=name + "#intV", g=dom_cfg.int_terminals(g), sr=srs[i % len(srs)],
                              maxlen=min(maxlen, 3), chains=[("renumber", "renumber"), dom_cfg.EARLEY_PREP, ("cnf", "renumber")],
                              singles=["renumber", "cnf", "nullaryremove", "rename[tuple]"]))
    # EXACT duplicate rules (same weight, head and body - the quantifier lists 'duplicate rules'; the generic-weight corpus gives
    # duplicates different weights) - strengthened after the independently seeded change C06-2
    from fractions import Fraction as F
    from vlib.spec.cfgspec import G
    dups = {
        "dup_exact_unfoldable": G("N0", frozenset("ab"), [(F(1, 2), "N0", ("N1", "b")), (F(1, 2), "N0", ("N1", "b")), (F(1, 3), "N1", ("a",)),
                                                        (F(1, 5), "N1", ("a", "N1"))]),
        "dup_exact_everything": G("N0", frozenset("a"), [(F(1, 7), "N0", ("N0", "N0")), (F(1, 7), "N0", ("N0", "N0")), (F(1, 3), "N0", ("a",)),
                                                       (F(1, 3), "N0", ("a",)), (F(1, 11), "N0", ()), (F(1, 11), "N0", ())]),
    }
    for name, g in dups.items():
        for sr in srs:
            cases.append(dict(name=name, g=g, sr=sr, maxlen=maxlen, chains=all_chains if not quick else all_chains[::3], singles=True))
    return cases


def _close(a, b, slack):
    try:
        if num_close(a, b):
            return True
    except OverflowError:               # a Fraction beyond the float range (only a broken transformation produces one)
        return False
    if slack and not isinstance(a, bool) and not isinstance(b, bool):
        try:
            return abs(float(a) - float(b)) <= slack
        except (TypeError, ValueError, OverflowError):
            return False
    return False


def _bot_clash(cfg):
    """FRESH-NAMES precondition of unarycycleremove: no symbol (x,'bot') with x a symbol of the grammar."""
    syms = set(cfg.N)
    for r in cfg.rules:
        syms.update(r.body)
    return sorted((repr(s) for s in syms if isinstance(s, tuple) and len(s) == 2 and s[1] == "bot" and s[0] in syms))


def check_case(case):
    g, sr = case["g"], case["sr"]
    R, ops, conv, val = bridge.SEMIRINGS[sr]
    gs = bridge.spec_grammar(g, sr)
    xs = cfgspec.strings_upto(g.V, case["maxlen"])
    out = dict(n=0, keys=[], violations=[], undecided=[])
    ops = fastops.fast(ops)      # same semiring, cheaper zero test (validated by fastops.selfcheck)
    try:
        res = {x: cfgspec.cfg_weight(ops, gs, x) for x in xs}
    except ArithmeticError:
        return out          # outside the domain (divergent)
    want = {x: v for x, (v, _) in res.items()}
    if sr in ("FloatFrac", "Q") and not all(ex for _, ex in res.values()):
        # nonlinear nullable block: the library's fixed-point iteration would square Fraction denominators
        sr = "Float"
        R, _, conv, val = bridge.SEMIRINGS[sr]
    ops_out = fastops.fast(bridge.SEMIRINGS[sr][1], floats=sr in ("Float", "Real"))   # output snapshots carry machine floats
    nontrivial = any(not ops.is_zero(w) for w in want.values())
    desc = dict(grammar=bridge.fmt_grammar(g), semiring=sr)

    def viol(ob, what, chain, **kw):
        # failing input class: a name clash is one class per (function, semiring) whatever chain/instance exposes it;
        # everything else is identified by chain, failure kind, instance and semiring
        if what.startswith("name-clash"):
            signature = sig(ob.split("/")[1], "name-clash", sr)
        else:
            signature = sig("->".join(chain), what.split(":")[0], case["name"], sr)
        out["violations"].append(dict(
            obligation=ob, what=what, signature=signature,
            replay=dict(desc, chain=list(chain), **{k: repr(v) for k, v in kw.items()},
                        case=common.enc(dict(case, chains=[tuple(chain)], singles=[])))))

    def language(cfg):
        snap = bridge.from_cfg(cfg, val)
        return {x: cfgspec.cfg_weight(ops_out, snap, x)[0] for x in xs}

    # trie of chains: each prefix of a chain is applied once; objects are shared along a path as a user would
    singles = case.get("singles", True)
    todo = []
    if singles is True:
        todo += [(t,) for t in dom_cfg.SINGLES]
        todo += [(f"unfold({i},{k})",) for i, k in dom_cfg.unfold_sites(g)]
    elif singles:
        todo += [(t,) for t in singles]
    todo += [tuple(c) for c in case.get("chains", [])]
    memo = {(): ("ok", bridge.to_cfg(g, sr))}
    failed_prefix = set()

    def step(prefix):
        """Returns ('ok', cfg) if every step of `prefix` preserved the language, else ('stop', None)."""
        if prefix in memo:
            return memo[prefix]
        st, cfg = step(prefix[:-1])
        if st != "ok":
            memo[prefix] = ("stop", None)
            return memo[prefix]
        t = prefix[-1]
        m = dom_cfg.method_of(t)
        clash = _bot_clash(cfg) if m == "unarycycleremove" else []
        st, new = call(dom_cfg.apply_transform, cfg, t)
        out["n"] += 1
        if st != "ok":
            viol(OB(m), "raised: " + new.split(":")[0], prefix, error=new)
            memo[prefix] = ("stop", None)
            return memo[prefix]
        try:
            got = language(new)
        except ArithmeticError as e:
            out["undecided"].append((OB(m), f"spec could not evaluate the output grammar ({e}); chain={'->'.join(prefix)} "
                                            f"grammar={desc['grammar']} semiring={sr}"))
            memo[prefix] = ("stop", None)
            return memo[prefix]
        slack = AGENDA_SLACK if any(dom_cfg.method_of(s) in AGENDA_BASED for s in prefix) else 0
        bad = [x for x in xs if not _close(got[x], want[x], slack)]
        if bad:
            x = min(bad, key=len)
            kind = "preserves-language"
            what = "wrong-weight"
            if clash:
                kind, what = "fresh-names", "name-clash: " + ",".join(clash)[:60]
            viol(OB(m, kind), what, prefix, string=x, observed=got[x], expected=want[x], n_strings_wrong=len(bad),
                 clash=clash, output=bridge.fmt_grammar(bridge.from_cfg(new, val))[:600])
            memo[prefix] = ("stop", None)
            return memo[prefix]
        if nontrivial:
            out["keys"].append(sig(case["name"], sr, "->".join(prefix)))
        memo[prefix] = ("ok", new)
        return memo[prefix]

    for chain in todo:
        for k in range(1, len(chain) + 1):
            st, _ = step(chain[:k])
            if st != "ok":
                break
    if case["name"] in ("null_unary_mix", "palindrome") and case["sr"] == "FloatFrac":
        out["sample"] = dict(grammar=desc["grammar"], semiring=sr, strings=len(xs), transformations=len(memo) - 1,
                             example={"".join(map(str, x)): str(w) for x, w in list(want.items())[:5]})
    return out


def bounded(run):
    tier = run.tier
    cases = make_cases(tier, run.seed)
    srs = SEMIRINGS_QUICK if tier == "quick" else SEMIRINGS_THOROUGH
    run.rule(f"grammars: corpus of adversarial shapes + seeded uniform random + seeded 'productive' random grammars "
             f"(G(3,2,6,3) quick / G(4,3,8,3) thorough), generic rational weights scaled for convergence, plus integer-terminal "
             f"copies (renumber); semirings {srs}; transformations: {', '.join(dom_cfg.SINGLES)}, unfold(i,k) at every rule "
             f"index and every nonterminal position; API-closed chains: {len(dom_cfg.NAMED_CHAINS)} named chains of 2-6 steps "
             f"(incl. Earley.__init__ preprocessing after unarycycleremove / cnf / itself)"
             f"{'' if tier == 'quick' else ', all ordered pairs of ' + str(len(dom_cfg.PAIR_CORE)) + ' core transformations, 40 random triples'}"
             f" (rotated over the random grammars, all on the corpus); language compared on all strings up to length "
             f"{4 if tier == 'quick' else 5} (3-4 for three terminals) by the independent spec on the snapshot of the real output; "
             f"PYTHONHASHSEED in the listed set; non-trivial = input language non-zero on some string; distinct = (grammar, semiring, chain). "
             f"NOT covered: Log/Expectation/Entropy semirings, non-injective rename (outside the precondition), unfold inside chains")
    seeds = (0, 1) if tier == "quick" else (0, 1, 2, 3)
    run.extra["hash_seeds"] = list(seeds)
    engine.run_cases(run, "props.C06", "check_case", cases, hash_seeds=seeds, per_case_timeout=120,
                     split=True)   # every case under one seed (round robin): the seeds partition the domain


def run(run, only=None):
    run.assume("T-DERIV: [[G]](x) is well defined (weights scaled so every infinite sum converges)",
               "spec function cfg_weight (generalised inside algorithm on the original rules, exact closure) evaluates BOTH the input "
               "grammar and the neutral snapshot of the real output grammar; validated against derivation enumeration by vlib/spec self-check",
               "weights produced through CFG.agenda (nullaryremove, cnf) are compared with an extra absolute slack of 1e-10 "
               "(agenda stops at absolute tolerance 1e-12)")
    if only != "bounded":
        common.run_proved(run, "C06")
    if only != "proved":
        bounded(run)


def replay(doc):
    rc = dom_cfg.replay_with_hashseed(doc, "props.C06")      # same PYTHONHASHSEED as the run that found it
    return common.generic_replay(doc, check_case) if rc is None else rc

"""C17 - automaton -> grammar and byte-level conversions preserve weights.

PROVED layer  : props/C17_proved.py (construction conformance / CFG.wf of to_cfg, fresh chain states of to_bytes) - see run().
BOUNDED layer : the contracts
    [[m.to_cfg(recursion=r)]](x)            == [[m]](x)                                   r in {right, left}
    [[m.to_bytes()]](bs)                    == (+) { [[m]](s) : utf8(s) = bs }            (zero when bs is no encoding)
    [[m.to_bytes().to_cfg(recursion=r)]](bs)== the same
    [[g.to_bytes()]](bs)                    == (+) { [[g]](s) : utf8(s) = bs }            (multi-character terminals)
    several m_k.to_bytes().to_cfg(S=S_k) merged under S -> S_1 | .. | S_n  ==  (+)_k image of m_k
evaluated on the REAL conversion functions; the returned object is snapshot into the neutral form and its weight is
computed by the independent spec (cfgspec.cfg_weight / fsaspec.wfsa_weight / convspec.wfsa_language), the expected value
from the neutral input by fsaspec.wfsa_weight / cfgspec.cfg_weight and convspec.segmentations (hand-written UTF-8).
"""
import random

from props import common
from props.common import call, num_close, sig
from vlib import bridge, domains, engine, dom_conv
from vlib.spec import cfgspec, fsaspec, convspec
from vlib.spec.cfgspec import G

ID = "C17"
LEVEL = "other"

SEMIRINGS_QUICK = ["Q", "FloatFrac", "Boolean"]
SEMIRINGS_THOROUGH = ["Q", "FloatFrac", "Float", "Real", "Boolean", "MaxTimes"]

OB_TOCFG = "C17/wfsa.base.WFSA.to_cfg/preserves-string-weight"
OB_WBYTES = "C17/wfsa.base.WFSA.to_bytes/weight-of-utf8-preimage"
OB_CHAIN = "C17/wfsa.base.WFSA.to_bytes.to_cfg/weight-of-utf8-preimage"
OB_MERGE = "C17/wfsa.base.WFSA.to_bytes/merged-grammars-weight-of-utf8-preimage"
OB_CBYTES = "C17/cfg.CFG.to_bytes/weight-of-utf8-preimage"

BLIND_CAP = dom_conv.BLIND_CAP
SAMPLE_CAP = 120        # strings outside both supports whose weight is nevertheless computed by cfg_weight


# ------------------------------------------------------------------------------------------------- cases
def make_cases(tier, seed, n_random=None, n_grammars=None, n_merge=None):
    rng = random.Random(seed)
    quick = tier == "quick"
    srs = SEMIRINGS_QUICK if quick else SEMIRINGS_THOROUGH
    n_random = (300 if quick else 2000) if n_random is None else n_random
    n_grammars = (120 if quick else 1200) if n_grammars is None else n_grammars
    n_merge = (60 if quick else 500) if n_merge is None else n_merge
    maxlen = 4 if quick else 5
    maxbytes = 6 if quick else 8
    cases = []
    autos = [(n, None, spec) for n, spec in dom_conv.ctor_specs()]
    autos += [(n, a, None) for n, a in dom_conv.automata_corpus().items()]
    for i in range(n_random):
        kind = ["str", "str", "int", "sym"][i % 4]
        autos.append((f"rand{seed}_{i}_{kind}", dom_conv.random_byte_automaton(rng, 3 if quick else 4, 5 if quick else 7, kind), None))
    for i, (name, a, ctor) in enumerate(autos):
        named = not name.startswith("rand")
        for k, sr in enumerate(srs):
            if not named and k != i % len(srs):
                continue                      # random automata: one semiring each (round robin); corpus: all
            cases.append(dict(kind="wfsa", name=name, a=a, ctor=ctor, sr=sr, cls=["base", "field"][(i + k) % 2],
                              maxlen=maxlen, maxbytes=maxbytes))
    # grammars with (multi-character) unicode terminals
    gd = domains.grammar_domain(tier, seed + 17, n_random=n_grammars)
    for i, (name, g) in enumerate(gd):
        mp = dom_conv.TERMINAL_MAPS[i % len(dom_conv.TERMINAL_MAPS)]
        if len(g.V) > 3:
            continue
        sr = ["Q", "FloatFrac", "Boolean"][i % 3] if quick else srs[i % len(srs)]
        if sr in ("Float", "Real", "MaxTimes"):
            sr = "Q"
        cases.append(dict(kind="cfg", name=f"{name}/map{i % len(dom_conv.TERMINAL_MAPS)}", g=dom_conv.relabel_grammar(g, mp),
                          sr=sr, maxbytes=5 if quick else 6))
        if i % 3 == 0 and g.rules:
            # rules under one head whose bodies differ as symbol strings but coincide after encoding ('ab' vs 'a' 'b'), plus an exact
            # duplicate: their weights must add up in the byte grammar (strengthened after seeded change C17-3)
            gc = _colliding(g, rng)
            if gc is not None:
                cases.append(dict(kind="cfg", name=f"{name}/collide", g=dom_conv.relabel_grammar(gc, dom_conv.TERMINAL_MAPS[2]),
                                  sr=sr, maxbytes=5 if quick else 6))
    for i, (name, parts) in enumerate(dom_conv.merge_groups(rng, n_merge)):
        cases.append(dict(kind="merge", name=name, parts=parts, sr=["Q", "FloatFrac", "Boolean"][i % 3],
                          recursion=["right", "left"][i % 2], maxbytes=maxbytes))
    return cases


def _colliding(g, rng):
    from fractions import Fraction
    from vlib.spec.algebra import Q
    h = rng.choice(sorted({r[1] for r in g.rules}, key=repr))
    ws = [Fraction(1, d) for d in (3, 5, 7)]
    extra = [(ws[0], h, ("a",)), (ws[1], h, ("b", "c")), (ws[2], h, ("a",)), (ws[0], h, ("b", "c"))]
    gc = G(g.S, frozenset(g.V) | {"a", "b", "c"}, list(g.rules) + extra)
    for scale in (1, 4, 16):
        gs = G(gc.S, gc.V, [(w / scale, hh, b) for w, hh, b in gc.rules])
        if domains.convergent_scale(gs, Q, candidates=(1,), keep_weights=True) is not None:
            return gs
    return None


# ------------------------------------------------------------------------------------------------- helpers
def _bsize(s):
    return len(convspec.encode((s,)))


def _fmt_bytes(bs):
    return " ".join(f"{b:02x}" if isinstance(b, int) else repr(b) for b in bs)


class _Diverges(Exception):
    """The spec cannot evaluate the RETURNED object (singular / non-converging closure) although the input was fine."""


def _o(f, *a, **k):
    try:
        return f(*a, **k)
    except ArithmeticError as e:
        raise _Diverges(str(e)) from None


class _Ctx:
    def __init__(self, case, out, desc):
        self.case, self.out, self.desc = case, out, desc

    def viol(self, ob, what, where, x, got, exp, cls, extra=None):
        rp = dict(self.desc, conversion=where, observed=repr(got), expected=repr(exp))
        if x is not None:
            rp["string"] = list(x)
            if all(isinstance(b, int) for b in x):
                rp["bytes"] = _fmt_bytes(x)
        if extra:
            rp.update(extra)
        rp["case"] = common.enc(self.case)
        self.out["violations"].append(dict(obligation=ob, what=what, signature=sig(ob.split("/")[1], what.split(":")[0], cls, self.case["sr"]),
                                           replay=rp))


def _cfg_values(ops, snap, domain, support_hint, rng):
    """got(x) for every x of the domain on the snapshot grammar.  The Boolean support (all strings the grammar derives, by
    exhaustive bottom-up generation) decides which strings need the weighted evaluation; a string outside the support has
    weight zero (no derivation), which is re-checked with cfg_weight on a sample."""
    bound = max((len(x) for x in domain), default=0)
    support = convspec.cfg_language(snap, bound)[snap.S]
    need = set(support) | set(support_hint)
    rest = [x for x in domain if x not in need]
    if len(rest) > SAMPLE_CAP:
        rest = rng.sample(rest, SAMPLE_CAP)
    need |= set(rest)
    got = {}
    for x in domain:
        if x in need:
            got[x] = cfgspec.cfg_weight(ops, snap, x)[0]
        else:
            got[x] = ops.zero
    for x in rest:
        if not ops.is_zero(got[x]):
            raise RuntimeError(f"oracle inconsistency: cfg_language misses {x!r} of weight {got[x]!r}")
    return got, support


# ------------------------------------------------------------------------------------------------- the check
def check_case(case):
    out = dict(n=0, keys=[], violations=[])
    kind = case["kind"]
    try:
        if kind == "wfsa":
            _check_wfsa(case, out)
        elif kind == "cfg":
            _check_cfg(case, out)
        else:
            _check_merge(case, out)
    except ArithmeticError:
        return dict(n=0, keys=[], violations=[])          # divergent epsilon / unary cycle in the INPUT: outside the domain
    except _Diverges as e:                                # (normally reported where it arises; this is the safety net)
        ob = {"wfsa": OB_CHAIN, "cfg": OB_CBYTES}.get(kind, OB_MERGE)
        out["n"] += 1
        out["violations"].append(dict(obligation=ob, what="output-weight-undefined", signature=sig(ob.split("/")[1], "output-weight-undefined",
                                                                                                  case["name"], case["sr"]),
                                      replay=dict(instance=case["name"], semiring=case["sr"], observed=str(e), case=common.enc(case))))
    return out


def _build(case):
    """Real automaton and its neutral snapshot (the input whose semantics the oracle uses)."""
    from genlm.grammar.wfsa import base as wbase, field_wfsa
    sr = case["sr"]
    R, ops, conv, val = bridge.SEMIRINGS[sr]
    cls = wbase.WFSA if case["cls"] == "base" else field_wfsa.WFSA
    if case["ctor"] is None:
        a = case["a"]
        m = bridge.to_wfsa(a, sr, cls=cls)
        return m, bridge.spec_automaton(a, sr), None
    fn, arg, w = case["ctor"]
    if fn == "from_string":
        st, m = call(cls.from_string, arg, R) if w is None else call(cls.from_string, arg, R, conv(w))
    else:
        st, m = call(cls.from_strings, arg, R)
    if st != "ok":
        return None, None, m
    return m, bridge.from_wfsa(m, val), None


def _check_wfsa(case, out):
    sr = case["sr"]
    R, ops, conv, val = bridge.SEMIRINGS[sr]
    rng = random.Random(len(case["name"]))
    m, a, err = _build(case)
    if m is None:
        return                                             # the constructor itself failed: not this property
    desc = dict(automaton=bridge.fmt_automaton(a), semiring=sr, wfsa_class=case["cls"], instance=case["name"],
                constructor=repr(case["ctor"]) if case["ctor"] else None)
    ctx = _Ctx(case, out, desc)
    symbols = sorted({s for _, s, _, _ in a.arcs if s != fsaspec.EPS}, key=repr)
    clash = bool(set(a.states) & set(symbols))
    icls = "state-names-in-alphabet" if clash else case["name"]
    foreign = next(c for c in "zyxw" if c not in symbols)

    # ---- to_cfg, both recursions, with and without an explicit start symbol
    sigma = symbols + [foreign]
    xs = cfgspec.strings_upto(sigma, case["maxlen"] if len(sigma) <= 4 else min(case["maxlen"], 3))
    want = {x: fsaspec.wfsa_weight(ops, a, x) for x in xs}
    nontrivial = any(not ops.is_zero(w) for w in want.values())
    hint = [x for x in xs if not ops.is_zero(want[x])]
    for rec in ("right", "left"):
        for S in (None, "START"):
            where = f"to_cfg(recursion={rec!r}" + (")" if S is None else f", S={S!r})")
            st, cfg = call(m.to_cfg, recursion=rec) if S is None else call(m.to_cfg, S=S, recursion=rec)
            if st != "ok":
                out["n"] += 1
                ctx.viol(OB_TOCFG, "raised: " + cfg.split(":")[0], where, None, cfg, "a grammar", icls)
                continue
            snap = bridge.from_cfg(cfg, val)
            try:
                got, _ = _o(_cfg_values, ops, snap, xs, hint, rng)
            except _Diverges as e:
                out["n"] += 1
                ctx.viol(OB_TOCFG, "output-weight-undefined", where, None, str(e), "a grammar with the automaton's (finite) weights", icls,
                         dict(grammar=bridge.fmt_grammar(snap)))
                continue
            bad = 0
            for x in xs:
                out["n"] += 1
                if not num_close(got[x], want[x]):
                    bad += 1
                    if bad == 1:
                        native = call(cfg, x)
                        ctx.viol(OB_TOCFG, "wrong-value", where, x, got[x], want[x], icls,
                                 dict(native_call=repr(native[1]), states_in_alphabet=sorted(set(a.states) & set(symbols), key=repr),
                                      grammar=bridge.fmt_grammar(snap)))
    if nontrivial:
        out["keys"].append(sig("to_cfg", case["name"], sr, case["cls"]))

    # ---- to_bytes: expected weight of a byte string = sum over the symbol strings it encodes
    if any(not isinstance(s, str) for s in symbols):
        return
    LB = case["maxbytes"]
    lang, _ = convspec.wfsa_language(ops, a, LB, size=_bsize)
    image = {}
    for x, w in lang.items():
        e = convspec.encode(x)
        image[e] = ops.add(image[e], w) if e in image else w
    st, mb = call(m.to_bytes)
    if st != "ok":
        out["n"] += 1
        ctx.viol(OB_WBYTES, "raised: " + mb.split(":")[0], "to_bytes()", None, mb, "an automaton", case["name"])
        return
    ab = bridge.from_wfsa(mb, val)
    try:
        got_lang, _ = _o(convspec.wfsa_language, ops, ab, LB)
    except _Diverges as e:
        out["n"] += 1
        ctx.viol(OB_WBYTES, "output-weight-undefined", "to_bytes()", None, str(e), "finite weights", case["name"])
        return
    P, alpha, blind_len = dom_conv.byte_domain(set(image), set(got_lang), LB)

    def expected(bs):
        t = ops.zero
        for s in convspec.segmentations(bs, symbols):
            t = ops.add(t, fsaspec.wfsa_weight(ops, a, s))
        return t

    exp = {bs: expected(bs) for bs in P}
    for bs in image:                                        # the two routes to the expectation must agree
        if not num_close(exp[bs], image[bs]):
            raise RuntimeError(f"oracle inconsistency on {bs}: {exp[bs]} vs {image[bs]}")
    direct = set(rng.sample(P, min(len(P), 60))) | set(list(image)[:40])
    bad = 0
    for bs in P:
        out["n"] += 1
        g = got_lang.get(bs, ops.zero)
        if bs in direct:                                    # shared evaluator on a sample: must agree with the enumeration
            g2 = _o(fsaspec.wfsa_weight, ops, ab, bs)
            if not num_close(g, g2):
                raise RuntimeError(f"oracle inconsistency: wfsa_language {g!r} vs wfsa_weight {g2!r} on {bs}")
        if not num_close(g, exp[bs]):
            bad += 1
            if bad == 1:
                kindw = "accepts-non-encoding" if ops.is_zero(exp[bs]) else "wrong-value"
                ctx.viol(OB_WBYTES, kindw, "to_bytes()", bs, g, exp[bs], case["name"],
                         dict(native_call=repr(call(mb, list(bs))[1]), decoded=convspec.decode(bs), byte_automaton=bridge.fmt_automaton(ab)))
    if image:
        out["keys"].append(sig("to_bytes", case["name"], sr, case["cls"]))
        if case["name"] in ("fanout_shared_prefix34", "mix1234_loop") and sr == "Q":
            out["sample"] = dict(instance=case["name"], semiring=sr, byte_strings=len(P), blind_alphabet=[f"{b:02x}" for b in alpha],
                                 blind_length=blind_len, max_bytes=LB,
                                 example={_fmt_bytes(k): str(v) for k, v in sorted(image.items(), key=lambda kv: (len(kv[0]), kv[0]))[:5]})

    # ---- to_bytes().to_cfg(): the chain used by byte-level grammars (int state names may equal byte values)
    bclash = bool({q for q in ab.states if isinstance(q, int)} & {s for _, s, _, _ in ab.arcs if s != fsaspec.EPS})
    ccls = "state-names-in-alphabet" if (bclash or clash) else case["name"]
    hint = [bs for bs in P if not ops.is_zero(exp[bs])]
    for rec in ("right", "left"):
        where = f"to_bytes().to_cfg(recursion={rec!r})"
        st, cfg = call(mb.to_cfg, recursion=rec)
        if st != "ok":
            out["n"] += 1
            ctx.viol(OB_CHAIN, "raised: " + cfg.split(":")[0], where, None, cfg, "a grammar", ccls)
            continue
        snap = bridge.from_cfg(cfg, val)
        try:
            got, support = _o(_cfg_values, ops, snap, P, hint, rng)
        except _Diverges as e:
            out["n"] += 1
            ctx.viol(OB_CHAIN, "output-weight-undefined", where, None, str(e), "finite weights", ccls, dict(grammar=bridge.fmt_grammar(snap)))
            continue
        extra = [x for x in support if x not in exp and all(isinstance(b, int) for b in x)]
        bad = 0
        for bs in list(P) + extra:
            out["n"] += 1
            g = got[bs] if bs in got else _o(cfgspec.cfg_weight, ops, snap, bs)[0]
            e = exp[bs] if bs in exp else expected(bs)
            if not num_close(g, e):
                bad += 1
                if bad == 1:
                    ctx.viol(OB_CHAIN, "accepts-non-encoding" if ops.is_zero(e) else "wrong-value", where, bs, g, e, ccls,
                             dict(native_call=repr(call(cfg, list(bs))[1]), decoded=convspec.decode(bs), grammar=bridge.fmt_grammar(snap)))


def _check_cfg(case, out):
    sr = case["sr"]
    R, ops, conv, val = bridge.SEMIRINGS[sr]
    rng = random.Random(len(case["name"]))
    g = case["g"]
    gs = bridge.spec_grammar(g, sr)
    desc = dict(grammar=bridge.fmt_grammar(g), semiring=sr, instance=case["name"])
    ctx = _Ctx(case, out, desc)
    LB = case["maxbytes"]
    terms = sorted(g.V)
    src = convspec.cfg_language(gs, LB, size=_bsize)[gs.S]           # every terminal string of <= LB bytes the grammar derives
    wsrc = {}
    for s in src:
        w, _ = cfgspec.cfg_weight(ops, gs, s)
        wsrc[s] = w
    image = {}
    for s, w in wsrc.items():
        e = convspec.encode(s)
        image[e] = ops.add(image[e], w) if e in image else w
    cfg = bridge.to_cfg(g, sr)
    st, cb = call(cfg.to_bytes)
    if st != "ok":
        out["n"] += 1
        ctx.viol(OB_CBYTES, "raised: " + cb.split(":")[0], "CFG.to_bytes()", None, cb, "a grammar", case["name"])
        return
    snap = bridge.from_cfg(cb, val)
    support = convspec.cfg_language(snap, LB)[snap.S]
    P, alpha, blind_len = dom_conv.byte_domain(set(image), {x for x in support if all(isinstance(b, int) for b in x)}, LB)

    def expected(bs):
        t = ops.zero
        for s in convspec.segmentations(bs, terms):
            t = ops.add(t, wsrc[s] if s in wsrc else cfgspec.cfg_weight(ops, gs, s)[0])
        return t

    exp = {bs: expected(bs) for bs in P}
    for bs in image:
        if not num_close(exp[bs], image[bs]):
            raise RuntimeError(f"oracle inconsistency on {bs}: {exp[bs]} vs {image[bs]}")
    try:
        got, _ = _o(_cfg_values, ops, snap, P, [bs for bs in P if not ops.is_zero(exp[bs])], rng)
    except _Diverges as e:
        out["n"] += 1
        ctx.viol(OB_CBYTES, "output-weight-undefined", "CFG.to_bytes()", None, str(e), "finite weights", case["name"])
        return
    bad = 0
    for bs in P:
        out["n"] += 1
        if not num_close(got[bs], exp[bs]):
            bad += 1
            if bad == 1:
                ctx.viol(OB_CBYTES, "accepts-non-encoding" if ops.is_zero(exp[bs]) else "wrong-value", "CFG.to_bytes()", bs, got[bs], exp[bs],
                         case["name"], dict(native_call=repr(call(cb, list(bs))[1]), decoded=convspec.decode(bs),
                                            segmentations=[list(s) for s in convspec.segmentations(bs, terms)][:6],
                                            byte_grammar=bridge.fmt_grammar(snap)))
    if not set(snap.V) <= set(range(256)):
        ctx.viol(OB_CBYTES, "non-byte-terminal", "CFG.to_bytes()", None, sorted(snap.V, key=repr), "ints in 0..255", case["name"])
    if any(not ops.is_zero(w) for w in image.values()):
        out["keys"].append(sig("cfg.to_bytes", case["name"], sr))
        if case["name"].startswith("palindrome"):
            out["sample"] = dict(instance=case["name"], semiring=sr, terminals=terms, byte_strings=len(P), blind_length=blind_len,
                                 example={_fmt_bytes(k): str(v) for k, v in sorted(image.items(), key=lambda kv: (len(kv[0]), kv[0]))[:5]})


def _check_merge(case, out):
    from genlm.grammar.cfg import CFG
    sr = case["sr"]
    R, ops, conv, val = bridge.SEMIRINGS[sr]
    rng = random.Random(len(case["name"]))
    parts = case["parts"]
    rec = case["recursion"]
    LB = case["maxbytes"]
    desc = dict(automata=[bridge.fmt_automaton(a) for a in parts], semiring=sr, recursion=rec, instance=case["name"])
    ctx = _Ctx(case, out, desc)
    multibyte = sum(1 for a in parts if any(s != fsaspec.EPS and _bsize(s) > 1 for _, s, _, _ in a.arcs))
    mcls = "merged-ge2-automata-with-multibyte-arcs" if multibyte >= 2 else case["name"]
    image = {}
    specs = [bridge.spec_automaton(a, sr) for a in parts]
    for a in specs:
        lang, _ = convspec.wfsa_language(ops, a, LB, size=_bsize)
        for x, w in lang.items():
            e = convspec.encode(x)
            image[e] = ops.add(image[e], w) if e in image else w
    merged = CFG(R=R, S="S", V=set())
    where = f"merge of to_bytes().to_cfg(S=S_k, recursion={rec!r})"
    for k, a in enumerate(parts):
        m = bridge.to_wfsa(a, sr)
        st, gk = call(lambda m=m, k=k: m.to_bytes().to_cfg(S=f"S{k}", recursion=rec))
        if st != "ok":
            out["n"] += 1
            ctx.viol(OB_MERGE, "raised: " + gk.split(":")[0], where, None, gk, "a grammar", mcls)
            return
        merged.V |= gk.V
        merged.add(R.one, "S", f"S{k}")
        for r in gk:
            merged.add(r.w, r.head, *r.body)
    snap = bridge.from_cfg(merged, val)
    support = convspec.cfg_language(snap, LB)[snap.S]
    P, alpha, blind_len = dom_conv.byte_domain(set(image), {x for x in support if all(isinstance(b, int) for b in x)}, LB)

    def expected(bs):
        t = ops.zero
        for a in specs:
            syms = sorted({s for _, s, _, _ in a.arcs if s != fsaspec.EPS})
            for s in convspec.segmentations(bs, syms):
                t = ops.add(t, fsaspec.wfsa_weight(ops, a, s))
        return t

    exp = {bs: expected(bs) for bs in P}
    for bs in image:
        if not num_close(exp[bs], image[bs]):
            raise RuntimeError(f"oracle inconsistency on {bs}: {exp[bs]} vs {image[bs]}")
    try:
        got, _ = _o(_cfg_values, ops, snap, P, [bs for bs in P if not ops.is_zero(exp[bs])], rng)
    except _Diverges as e:
        out["n"] += 1
        ctx.viol(OB_MERGE, "output-weight-undefined", where, None, str(e), "finite weights", mcls)
        return
    shared = sorted({r[1] for r in snap.rules if isinstance(r[1], str) and r[1].startswith("_bytes")})
    bad = 0
    for bs in P:
        out["n"] += 1
        if not num_close(got[bs], exp[bs]):
            bad += 1
            if bad == 1:
                ctx.viol(OB_MERGE, "accepts-non-encoding" if ops.is_zero(exp[bs]) else "wrong-value", where, bs, got[bs], exp[bs], mcls,
                         dict(native_call=repr(call(merged, list(bs))[1]), decoded=convspec.decode(bs), chain_state_names=shared[:8],
                              grammar=bridge.fmt_grammar(snap)))
    if any(not ops.is_zero(w) for w in image.values()):
        out["keys"].append(sig("merge", case["name"], sr, rec))


# ------------------------------------------------------------------------------------------------- driver
def bounded(run):
    tier = run.tier
    convspec.selfcheck()
    cases = make_cases(tier, run.seed)
    quick = tier == "quick"
    nk = {k: sum(1 for c in cases if c["kind"] == k) for k in ("wfsa", "cfg", "merge")}
    run.rule(f"{nk['wfsa']} automaton cases: corpus over alphabets mixing 1-,2-,3-,4-byte characters (shared byte prefixes, epsilon arcs and "
             f"cycles, nondeterminism, parallel arcs, state names equal to alphabet symbols, int state names equal to byte values), automata built "
             f"by WFSA.from_string/from_strings (str and tuple arguments), seeded random automata with str / int / symbol-named states; classes "
             f"base.WFSA and field_wfsa.WFSA; semirings {SEMIRINGS_QUICK if quick else SEMIRINGS_THOROUGH} with generic rational weights; "
             f"to_cfg(recursion=right|left, S default|given) on all strings of length <= {4 if quick else 5} over the alphabet plus one foreign "
             f"symbol; to_bytes() and to_bytes().to_cfg(right|left) on: every byte string of length <= {6 if quick else 8} with non-zero weight on "
             f"either side (exhaustive forward enumeration, so every byte string over all 256 bytes up to that length is decided), every "
             f"truncation / one-byte deletion / foreign-byte substitution and insertion of an expected string, and all byte strings over the "
             f"occurring bytes plus two foreign bytes (a continuation byte and an ASCII byte) up to the largest length with <= {BLIND_CAP} strings; "
             f"{nk['cfg']} grammar cases: grammar corpus + random grammars with terminals relabelled by unicode strings incl. multi-character "
             f"terminals and ambiguous segmentations ('ab' vs 'a' 'b'), CFG.to_bytes() on byte strings of length <= {5 if quick else 6} built the "
             f"same way; {nk['merge']} merge cases: 2-3 automata with disjoint state names converted by to_bytes().to_cfg(S=S_k) and merged under "
             f"S -> S_1|..|S_n; expected weight = semiring sum over all symbol strings whose (hand-written) UTF-8 encoding is the byte string; "
             f"weights of the returned objects are computed by the independent spec on a neutral snapshot (strings outside the exhaustively "
             f"generated Boolean support have weight zero; re-checked by cfg_weight on a sample of {SAMPLE_CAP} per grammar); "
             f"not covered: multi-character labels on automata, nonterminals/states named '_bytes<n>' in the input (stated precondition), "
             f"integer nonterminals equal to byte values in CFG.to_bytes, Log/Expectation/Entropy semirings; "
             f"non-trivial = some string has non-zero weight; distinct = (conversion, instance, semiring)")
    seeds = (0, 1) if quick else (0, 1, 2, 3)
    run.extra["hash_seeds"] = list(seeds)
    engine.run_cases(run, "props.C17", "check_case", cases, hash_seeds=seeds, per_case_timeout=120, split=quick)


def run(run, only=None):
    run.assume("UTF-8 (RFC 3629) is prefix-free and str.encode implements it: the spec uses its own encoder/decoder, compared with "
               "str.encode/bytes.decode on every width and boundary by vlib/spec/convspec.selfcheck",
               "[[M]](x) and [[G]](x) are well defined (weights scaled so that epsilon / unary cycles converge)",
               "spec functions fsaspec.wfsa_weight, cfgspec.cfg_weight are the oracle for automaton / grammar weights; "
               "convspec.wfsa_language / cfg_language (exhaustive enumeration of the non-zero strings) are validated against them by selfcheck",
               "input automata have no state named '_bytes<n>' and their state names are hashable (precondition of to_bytes, DESIGN 4-C17)")
    if only != "bounded":
        common.run_proved(run, "C17")
    if only != "proved":
        bounded(run)


def replay(doc):
    return common.generic_replay(doc, check_case)

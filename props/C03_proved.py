"""PROVED-class obligations of C03: see props/constructions.py."""
import z3

from props import constructions as C
from vlib.pyvc import interp as I


def proved(run):
    from props import crosscheck
    run.extra["encoder_cross_check"] = dict(functions=crosscheck.run_all(), disagreements=0)   # RuntimeError (exit 3) on disagreement
    run.trust("pyvc symbolic interpreter over the real AST", f"z3 {z3.get_version_string()}")
    run.assume('T-PREFIX: each (string, prefix) pair has exactly one accepting path in the 2-state machine (assumed; construction proved)', 'T-BARHILLEL (C09)')
    for f in (C.prefix_transducer,):
        try:
            f(run)
        except (I.OutOfSubset, KeyError) as e:
            run.obligation("C03/" + f.__name__, "out-of-subset", detail=str(e))

"""PROVED-class obligations of C03: see props/constructions.py."""
import z3

from props import constructions as C
from vlib.pyvc import interp as I


def proved(run):
    from props import crosscheck
    run.extra["encoder_cross_check"] = dict(functions=crosscheck.run_all(), disagreements=0)   # RuntimeError (exit 3) on disagreement
    run.trust("pyvc symbolic interpreter over the real AST", f"z3 {z3.get_version_string()}")
    run.assume('T-PREFIX: each (string, prefix) pair has exactly one accepting path in the 2-state machine (assumed; construction proved)', 'T-BARHILLEL (C09)')
    for f in (C.prefix_transducer, derivative_construction):
        try:
            f(run)
        except (I.OutOfSubset, KeyError) as e:
            run.obligation("C03/" + f.__name__, "out-of-subset", detail=str(e))
    from props import resolves as _res
    _res.budget_obligation(run, "C03")


# ------------------------------------------------------------------------------------------------ CFG.derivative
def _factors(e):
    """Multiset of atomic factors of a product term over the free commutative monoid (wmul, R_one)."""
    from vlib.pyvc import gharness as G
    if z3.is_app(e) and e.decl().eq(G.wmul):
        return _factors(e.arg(0)) + _factors(e.arg(1))
    if e.eq(G.w1):
        return []
    return [str(e)]


def derivative_construction(run):
    """C03/cfg.CFG.derivative/construction (auxiliary): for a generic rule (w, h, y_1..y_n), n = 0..3, of a generic grammar and a
    terminal a, the grammar returned by derivative(a) receives exactly
        the rule itself,   and, unless h/a is already a nonterminal of the input (then nothing more),
        for every k:   delta_k * w : h/a -> y_{k+1} .. y_n             if y_k is the terminal a
                       delta_k * w : h/a -> y_k/a  y_{k+1} .. y_n     if y_k is a nonterminal
        with delta_k = U[y_1] * .. * U[y_{k-1}]  (U = null_weight(), products in the commutative semiring),
    and its start symbol is S/a.  (That this construction denotes the left quotient is the classical Brzozowski argument:
    assumed, and exercised by the bounded layer.)"""
    from props.C07_proved import Harness
    from vlib.pyvc import source, smt, symstruct as S, gharness as G
    name = "C03/cfg.CFG.derivative/construction"
    h = Harness("CFG.derivative", lengths=[0, 1, 2, 3], nofork=True)   # rules are recorded under the guard `weight != zero`
    run.function_under_contract("genlm.grammar.cfg.CFG.derivative", source.sha(h.fn))
    slash_f = z3.Function("slash", S.SYM, S.SYM, S.SYM)
    U = S.SymMap("nullweight", G.W)
    a = S.sym("a_tok")

    def hooks(it, gs, fn, genv):
        genv.vars["Slash"] = I.Native("Slash", lambda i2, x, k: I.Z(slash_f(I.zexpr(x[0]), I.zexpr(x[1]))))
        gs.methods["null_weight"] = I.Native("null_weight", lambda i2, x, k: U)
        gs.path.assume(gs.V.mem(a.e))

    try:
        results = h.run(lambda it, gs: ([a], {}), lambda it, gs, ret: ret, hooks)
    except (I.OutOfSubset, I.PyRaise) as e:
        run.obligation(name, "out-of-subset", role="auxiliary", detail=str(e))
        return
    why, sites = None, 0
    for path, r in results:
        if "raised" in r:
            why = "raises " + r["raised"]
            break
        gs, ret = r["gs"], r["goals"]
        if not isinstance(ret, G.GramRec):
            why = "does not return a spawned grammar"
            break
        if smt.prove(list(path.pc), I.zexpr(ret.f["S"]) == slash_f(gs.S.e, a.e))["verdict"] != "proved":
            why = "start symbol is not S/a"
            break
        if not gs.generic:
            continue
        gen = gs.generic[0]
        n = gen.body.length()
        ys = [I.zexpr(gen.body.at(None, j)) for j in range(n)]

        def decided(f):
            if smt.prove(list(path.pc), f)["verdict"] == "proved":
                return True
            if smt.prove(list(path.pc), z3.Not(f))["verdict"] == "proved":
                return False
            return None
        ha = slash_f(gen.head.e, a.e)
        want = [(["w"], gen.head.e, list(ys))]
        skip = decided(gs.N.mem(ha))
        delta = []
        for k in range(n):
            if skip is None:
                # the path never looked at `h/a in N`: legitimate only if no slash rule could be due, i.e. handled below per k
                pass
            term = decided(gs.V.mem(ys[k]))
            if not skip:
                if term is None:
                    why = f"path {path.taken} does not decide whether body symbol {k} is a terminal"
                    break
                if term:
                    eq = decided(ys[k] == a.e)
                    if eq is None:
                        why = f"path {path.taken} does not decide whether body symbol {k} is the token"
                        break
                    if eq:
                        want.append((["w"] + list(delta), ha, ys[k + 1:]))
                else:
                    want.append((["w"] + list(delta), ha, [slash_f(ys[k], a.e)] + ys[k + 1:]))
            delta.append(str(U.f(ys[k])))
        if why:
            break
        if skip is None and n > 0:
            why = f"path {path.taken} does not decide whether h/a is already a nonterminal"
            break
        have = ret.adds
        if len(have) != len(want):
            why = f"{len(have)} rules emitted, construction has {len(want)} (arity {n}, path {path.taken})"
            break
        for ad, (fs, hd, body) in zip(have, want):
            sites += 1
            fw = sorted(_factors(I.zexpr(ad["w"])))
            fe = sorted(str(gen.w.e) if x == "w" else x for x in fs)
            if fw != fe:
                why = f"weight {fw} where the construction has {fe}"
                break
            if smt.prove(list(path.pc), I.zexpr(ad["head"]) == hd)["verdict"] != "proved":
                why = f"head {I.zexpr(ad['head'])} where the construction has {hd}"
                break
            L = ad["body"].length()
            if not isinstance(L, int) or L != len(body):
                why = f"body of length {L} where the construction has {len(body)}"
                break
            for j in range(L):
                if smt.prove(list(path.pc), I.zexpr(ad["body"].at(None, j)) == body[j])["verdict"] != "proved":
                    why = f"body symbol {j} differs from the construction (arity {n}, path {path.taken})"
                    break
            if why:
                break
        if why:
            break
    if why:
        run.obligation(name, "refuted", role="auxiliary", backend="pyvc+z3", detail=why, replay=dict(replayed=False, why=why), signature="derivative:construction")
    elif sites < 10:
        run.obligation(name, "out-of-subset", role="auxiliary", detail=f"vacuous: {sites} emitted rules")
    else:
        run.obligation(name, "proved", role="auxiliary", backend="pyvc+z3", detail=f"{len(results)} paths over arity 0..3 x (h/a in N?, terminal?, = a?); {sites} emitted rules equal the quotient construction")
